"""CLI:  python -m mc.run C07 [--tier quick|thorough] [--replay file] [--jobs N]

Exit 0: property held on everything explored (known findings are printed as KNOWN-FINDING lines).
Exit 1: at least one `VIOLATION property=<id> replay=<path>` line was printed.
Exit 2: infrastructure error (harness fault, nondeterministic reproduction, vacuous run).
"""
import argparse
import atexit
import hashlib
import importlib
import json
import multiprocessing
import os
import shutil
import sys
import tempfile
import time


def _reexec_with_hashseed():
    seed = int(os.environ.get('VERIF_SEED', '0') or 0)
    want = str(seed % 4294967296)
    if os.environ.get('PYTHONHASHSEED') != want:
        os.environ['PYTHONHASHSEED'] = want
        os.execv(sys.executable, [sys.executable, '-m', 'mc.run'] + sys.argv[1:])
    return seed


CHECKS = {
    'C01': 'checks.c01_xml_roundtrip',
    'C02': 'checks.c02_bad_responses',
    'C03': 'checks.c03_wire_valid',
    'C04': 'checks.c04_http_vs_direct',
    'C05': 'checks.c05_eq_hash_copy',
    'C06': 'checks.c06_types',
    'C07': 'checks.c07_uri',
    'C08': 'checks.c08_mof_roundtrip',
    'C09': 'checks.c09_mof_total',
    'C10': 'checks.c10_instance_store',
    'C11': 'checks.c11_atomic_failure',
    'C12': 'checks.c12_class_resolution',
    'C13': 'checks.c13_associations',
    'C14': 'checks.c14_pull_sessions',
    'C15': 'checks.c15_iter_ops',
    'C16': 'checks.c16_listener_sched',
    'C17': 'checks.c17_listener_http',
    'C18': 'checks.c18_subscriptions',
    'C19': 'checks.c19_observers',
    'C20': 'checks.c20_valuemapping',
}

_MOD = None
_TIER = None


def _worker(shard):
    from mc.core import Acc
    try:
        acc = _MOD.run_shard(shard, _TIER)
    except BaseException as exc:  # noqa: harness fault, reported as infrastructure error
        acc = Acc()
        acc.harness_error('run_shard(%r)' % (shard,), exc)
    return acc


def main(argv=None):
    global _MOD, _TIER
    seed = _reexec_with_hashseed()
    ap = argparse.ArgumentParser()
    ap.add_argument('prop')
    ap.add_argument('--tier', default=os.environ.get('VERIF_TIER') or 'quick',
                    choices=['quick', 'thorough'])
    ap.add_argument('--replay')
    ap.add_argument('--jobs', type=int, default=int(os.environ.get('VERIF_JOBS', '0')) or
                    min(16, os.cpu_count() or 1))
    ap.add_argument('--budget', type=float, default=float(os.environ.get('VERIF_BUDGET_S', '0')),
                    help='wall-clock budget in seconds (0 = none); hitting it is reported as a cap')
    ap.add_argument('--only', help='comma separated sub-check names (debugging; evidence marks it)')
    args = ap.parse_args(argv)
    prop = args.prop.upper()
    if prop not in CHECKS:
        raise SystemExit('unknown property %s' % prop)

    scratch = tempfile.mkdtemp(prefix='verif-%s-' % prop, dir='/var/tmp')
    os.environ['TMPDIR'] = scratch
    tempfile.tempdir = scratch
    os.environ['MC_SCRATCH'] = scratch
    parent = os.getpid()

    def _cleanup():
        if os.getpid() == parent:
            shutil.rmtree(scratch, ignore_errors=True)
    atexit.register(_cleanup)

    import mc  # binds pywbem to VERIF_REPO
    from mc import findings, evidence, VERIF_DIR, OUT_DIR
    from mc.core import Acc, unjson
    mod = importlib.import_module(CHECKS[prop])
    _MOD, _TIER = mod, args.tier
    if args.only:
        os.environ['MC_ONLY'] = args.only

    if args.replay:
        with open(args.replay, encoding='utf-8') as f:
            rec = json.load(f)
        acc = mod.replay(unjson(rec['case']), args.tier)
        print('replay of %s (%s)' % (args.replay, rec.get('signature')))
        if acc.errors:
            print('\n'.join(acc.errors))
            return 2
        if not acc.violations:
            print('  no violation reproduced')
            return 0
        for v in acc.violations.values():
            print('  signature: %s' % json.dumps(v['sig'], sort_keys=True))
            print('  case     : %s' % json.dumps(v['case'], ensure_ascii=True)[:2000])
            print('  expected : %s' % json.dumps(v['expected'], ensure_ascii=True)[:2000])
            print('  observed : %s' % json.dumps(v['observed'], ensure_ascii=True)[:2000])
        return 1

    t0 = time.time()
    shards = list(mod.plan(args.tier, seed))
    if args.only:
        only = set(args.only.split(','))
        shards = [s for s in shards if s.get('check') in only]
    # VERIF_SEED permutes the order in which shards are handed out (never what is explored)
    if seed:
        import random
        random.Random(seed).shuffle(shards)
    total = Acc()
    done = 0
    capped = False
    if args.jobs <= 1 or len(shards) <= 1:
        for s in shards:
            total.merge(_worker(s))
            done += 1
            if args.budget and time.time() - t0 > args.budget:
                capped = True
                break
    else:
        ctx = multiprocessing.get_context('fork')
        with ctx.Pool(min(args.jobs, len(shards))) as pool:
            for acc in pool.imap_unordered(_worker, shards, chunksize=1):
                total.merge(acc)
                done += 1
                if args.budget and time.time() - t0 > args.budget:
                    capped = True
                    pool.terminate()
                    break
    if capped:
        total.cap('wall budget %.0fs hit after %d of %d shards' % (args.budget, done, len(shards)))
    if hasattr(mod, 'finish'):
        mod.finish(total, args.tier)

    rc = 0
    if total.errors:
        print('INFRASTRUCTURE ERROR (no verdict):')
        for e in total.errors[:5]:
            print(e)
        rc = 2

    # ---- triage violations
    entries, known, new = findings.triage(prop, total.violations)
    lines = []
    known_seen = []
    replay_dir = os.path.join(OUT_DIR, 'replays', prop)
    confirmed_new = []
    for v in new:
        racc = mod.replay(unjson(v['case']), args.tier)
        from mc.core import sigkey
        if sigkey(v['sig']) not in racc.violations:
            if racc.violations:
                # The case violates the property when replayed alone, but with another signature
                # than inside the shard: what the shard saw depended on earlier cases of the same
                # worker process (state kept inside the library, e.g. a cache). The replay from a
                # fresh state is the reproducible face and is what gets reported.
                print('NOTE: violation %s is history dependent (seen after other cases in the same '
                      'process); replayed alone the case gives %s' %
                      (json.dumps(v['sig'], sort_keys=True), list(racc.violations)))
                for v2 in racc.violations.values():
                    if not any(findings.matches(e2, v2['sig']) for e2 in entries):
                        confirmed_new.append(v2)
                continue
            print('INFRASTRUCTURE ERROR: violation %s did not reproduce on replay of the single case '
                  '(harness nondeterminism, or library state carried over from earlier cases)' %
                  json.dumps(v['sig'], sort_keys=True))
            rc = 2
            continue
        confirmed_new.append(v)
    for e in entries:
        if e.get('status') == 'open':
            seen = e['id'] in known
            if not seen and e.get('witness') is not None:
                racc = mod.replay(unjson(e['witness']), args.tier)
                seen = any(findings.matches(e, v['sig']) for v in racc.violations.values())
                for v in racc.violations.values():
                    if not findings.matches(e, v['sig']) and \
                            not any(findings.matches(e2, v['sig']) for e2 in entries):
                        confirmed_new.append(v)
            if seen:
                cnt = sum(v['count'] for v in known.get(e['id'], []))
                lines.append('KNOWN-FINDING: property=%s %s [%s; %d occurrences in this run]' %
                             (prop, e['what'], e['id'], cnt))
                known_seen.append(e['id'])
            else:
                lines.append('NOTE: known finding %s no longer reproduces (stale entry)' % e['id'])
        elif e.get('status') == 'fixed' and e.get('witness') is not None:
            racc = mod.replay(unjson(e['witness']), args.tier)
            for v in racc.violations.values():
                if not any(findings.matches(e2, v['sig']) for e2 in entries):
                    confirmed_new.append(v)
    seen_keys = set()
    uniq = []
    from mc.core import sigkey
    for v in confirmed_new:
        k = sigkey(v['sig'])
        if k not in seen_keys:
            seen_keys.add(k)
            uniq.append(v)
    if uniq:
        os.makedirs(replay_dir, exist_ok=True)
    for v in uniq[:40]:
        k = sigkey(v['sig'])
        path = os.path.join(replay_dir, hashlib.sha1(k.encode()).hexdigest()[:16] + '.json')
        rec = dict(property=prop, check=v['sig'].get('check'), case=v['case'],
                   expected=v['expected'], observed=v['observed'], signature=v['sig'],
                   occurrences=v['count'], seed=seed, tier=args.tier,
                   replay_cmd='cd /verif && /venv/bin/python -m mc.run %s --replay %s' % (prop, path),
                   pytest_snippet=getattr(mod, 'snippet', lambda c: None)(v['case']))
        with open(path, 'w', encoding='utf-8') as f:
            json.dump(rec, f, indent=1, ensure_ascii=True)
        lines.append('VIOLATION property=%s replay=%s' % (prop, path))
        lines.append('  signature=%s occurrences=%d' % (k, v['count']))
        lines.append('  case=%s' % json.dumps(v['case'], ensure_ascii=True)[:600])
        lines.append('  expected=%s' % json.dumps(v['expected'], ensure_ascii=True)[:400])
        lines.append('  observed=%s' % json.dumps(v['observed'], ensure_ascii=True)[:400])
        rc = max(rc, 1) if rc != 2 else 2
    if len(uniq) > 40:
        lines.append('  ... %d further violation signatures not written' % (len(uniq) - 40))

    wall = time.time() - t0
    if total.evaluations and len(total.outcomes) <= 1 and not getattr(mod, 'SINGLE_OUTCOME_OK', False):
        print('INFRASTRUCTURE ERROR: vacuous run, %d evaluations but %d distinct outcomes' %
              (total.evaluations, len(total.outcomes)))
        rc = 2
    ev = evidence.write(prop, args.tier, seed, total, mod, wall, len(uniq), known_seen,
                        partial=bool(args.only))
    print('%s tier=%s seed=%d shards=%d evaluations=%d distinct_nontrivial=%d states=%d '
          'transitions=%d outcomes=%d exhaustive=%s wall=%.1fs' %
          (prop, args.tier, seed, len(shards), total.evaluations, ev['coverage']['distinct_nontrivial'],
           ev['coverage']['states'], ev['coverage']['transitions'], len(total.outcomes),
           ev['coverage']['exhaustive'], wall))
    for c in total.caps:
        print('CAP: %s' % c)
    for ln in lines:
        print(ln)
    sys.stdout.flush()
    return rc


if __name__ == '__main__':
    sys.exit(main())
