"""setup_cmd: imports, DTD load, small self-consistency tests of harness parts. Builds nothing."""
import sys
import threading
import time


def test_minimiser_and_specs():
    from mc import minimize, domains, findings
    got = minimize.minimize(['s', 'xxaxx'], lambda c: isinstance(c, list) and len(c) == 2 and
                            isinstance(c[1], str) and 'a' in c[1])
    assert got == ['s', 'a'], got
    p = domains.build(['ipath', 'Foo', [['k', ['i', 'uint8', 5]]], 'a', None])
    assert p.keybindings['K'] == 5 and p.namespace == 'a'
    assert domains.valid(['ipath', 'Foo', [['k', ['i', 'uint8', 5]]], 'a', None])
    assert not domains.valid(['ipath', '', [['k', ['i', 'uint8', 5]]], 'a', None])
    e = dict(status='open', signature={'check': 'x', 'what': 'a|b'})
    assert findings.matches(e, {'check': 'x', 'what': 'b'})
    assert not findings.matches(e, {'check': 'x', 'what': 'c'})
    assert not findings.matches(e, {'check': 'x', 'what': 'a', 'extra': '1'})
    assert not findings.matches(dict(e, status='fixed'), {'check': 'x', 'what': 'a'})


def test_dtd():
    from mc import dtd
    import pywbem
    assert dtd.check(pywbem.CIMInstance('Foo', {'p': 'a'}).tocimxmlstr()) is None
    assert dtd.check('<INSTANCE CLASSNAME="a" X="1"/>')[0] == 'dtd-invalid'
    assert dtd.check('<INSTANCE CLASSNAME="a">\x01</INSTANCE>')[0] == 'illegal-char'
    assert dtd.check('<INSTANCE')[0] == 'ill-formed'


def test_facade_roundtrip():
    import warnings
    warnings.simplefilter('ignore')
    import pywbem
    from mc import world, facade, transport
    c = world.make_conn()
    f = facade.Facade(world.clone(c))
    x, _ = transport.connect(f, default_namespace='root/cimv2')
    a = sorted(str(p) for p in x.EnumerateInstanceNames('TST_Base'))
    b = sorted(str(p) for p in c.EnumerateInstanceNames('TST_Base'))
    assert a == b and a, (a, b)
    try:
        x.GetClass('TST_Nope')
        raise AssertionError('expected CIMError')
    except pywbem.CIMError as exc:
        assert exc.status_code == pywbem.CIM_ERR_NOT_FOUND


def test_scheduler_determinism():
    from checks import c16_listener_sched as C
    cfg, bound = C._family('quick', 'F2')
    S1, o1 = C.run_one(cfg, [])
    S2, o2 = C.run_one(cfg, S1.choices_taken())
    assert (o1.log, o1.acks, o1.res) == (o2.log, o2.acks, o2.res)
    assert S1.choices_taken() == S2.choices_taken()
    assert not C.judge(cfg, S1, o1), C.judge(cfg, S1, o1)


def test_fake_server_conformance():
    """the facts the fake threaded HTTP server of mc/listener_mc.py assumes, observed on the real
    pywbem ThreadedHTTPServer over a loopback socket (free-running, not scheduled)"""
    from mc.listener_mc import server_binding_problems
    problems, skipped = server_binding_problems()
    if skipped:
        print('  fake-server conformance skipped (%s)' % skipped)
        return
    assert not problems, problems


def main():
    import mc  # noqa: binds pywbem to VERIF_REPO
    import pywbem
    print('pywbem from', pywbem.__file__)
    try:
        from lxml import etree  # noqa
    except ImportError:
        print('lxml missing')
        return 1
    for fn in (test_minimiser_and_specs, test_dtd, test_facade_roundtrip, test_scheduler_determinism,
               test_fake_server_conformance):
        t = time.time()
        fn()
        print('  %s ok (%.1fs)' % (fn.__name__, time.time() - t))
    print('selftest ok')
    return 0


if __name__ == '__main__':
    sys.exit(main())
