"""setup_cmd: imports, DTD load, small self-consistency tests of harness parts. Builds nothing."""
import sys


def main():
    import mc
    from mc import core, findings, minimize, domains
    import pywbem
    print('pywbem from', pywbem.__file__)
    # minimiser
    got = minimize.minimize(['s', 'xxaxx'], lambda c: isinstance(c, list) and len(c) == 2 and
                            isinstance(c[1], str) and 'a' in c[1])
    assert got == ['s', 'a'], got
    # spec builder
    p = domains.build(['ipath', 'Foo', [['k', ['i', 'uint8', 5]]], 'a', None])
    assert p.keybindings['K'] == 5 and p.namespace == 'a'
    # findings matcher
    e = dict(status='open', signature={'check': 'x', 'what': 'a|b'})
    assert findings.matches(e, {'check': 'x', 'what': 'b'})
    assert not findings.matches(e, {'check': 'x', 'what': 'c'})
    assert not findings.matches(e, {'check': 'x', 'what': 'a', 'extra': '1'})
    try:
        from lxml import etree  # noqa
    except ImportError:
        print('lxml missing')
        return 1
    print('selftest ok')
    return 0


if __name__ == '__main__':
    sys.exit(main())
