"""setup_cmd: imports, DTD load, small self-consistency tests of harness parts. Builds nothing."""
import sys
import threading
import time


def test_minimiser_and_specs():
    from mc import minimize, domains, findings
    got = minimize.minimize(['s', 'xxaxx'], lambda c: isinstance(c, list) and len(c) == 2 and
                            isinstance(c[1], str) and 'a' in c[1])
    assert got == ['s', 'a'], got
    p = domains.build(['ipath', 'Foo', [['k', ['i', 'uint8', 5]]], 'a', None])
    assert p.keybindings['K'] == 5 and p.namespace == 'a'
    assert domains.valid(['ipath', 'Foo', [['k', ['i', 'uint8', 5]]], 'a', None])
    assert not domains.valid(['ipath', '', [['k', ['i', 'uint8', 5]]], 'a', None])
    e = dict(status='open', signature={'check': 'x', 'what': 'a|b'})
    assert findings.matches(e, {'check': 'x', 'what': 'b'})
    assert not findings.matches(e, {'check': 'x', 'what': 'c'})
    assert not findings.matches(e, {'check': 'x', 'what': 'a', 'extra': '1'})
    assert not findings.matches(dict(e, status='fixed'), {'check': 'x', 'what': 'a'})


def test_dtd():
    from mc import dtd
    import pywbem
    assert dtd.check(pywbem.CIMInstance('Foo', {'p': 'a'}).tocimxmlstr()) is None
    assert dtd.check('<INSTANCE CLASSNAME="a" X="1"/>')[0] == 'dtd-invalid'
    assert dtd.check('<INSTANCE CLASSNAME="a">\x01</INSTANCE>')[0] == 'illegal-char'
    assert dtd.check('<INSTANCE')[0] == 'ill-formed'


def test_facade_roundtrip():
    import warnings
    warnings.simplefilter('ignore')
    import pywbem
    from mc import world, facade, transport
    c = world.make_conn()
    f = facade.Facade(world.clone(c))
    x, _ = transport.connect(f, default_namespace='root/cimv2')
    a = sorted(str(p) for p in x.EnumerateInstanceNames('TST_Base'))
    b = sorted(str(p) for p in c.EnumerateInstanceNames('TST_Base'))
    assert a == b and a, (a, b)
    try:
        x.GetClass('TST_Nope')
        raise AssertionError('expected CIMError')
    except pywbem.CIMError as exc:
        assert exc.status_code == pywbem.CIM_ERR_NOT_FOUND


def test_scheduler_determinism():
    from checks import c16_listener_sched as C
    cfg, bound = C._family('quick', 'F2')
    S1, o1 = C.run_one(cfg, [])
    S2, o2 = C.run_one(cfg, S1.choices_taken())
    assert (o1.log, o1.acks, o1.res) == (o2.log, o2.acks, o2.res)
    assert S1.choices_taken() == S2.choices_taken()
    assert not C.judge(cfg, S1, o1), C.judge(cfg, S1, o1)


def test_fake_server_conformance():
    """the three facts the fake threaded HTTP server of mc/listener_mc.py assumes, observed on the
    real pywbem ThreadedHTTPServer over a loopback socket (free-running, not scheduled)"""
    import socket
    from http.server import BaseHTTPRequestHandler
    from pywbem import _listener
    entered, release = threading.Event(), threading.Event()

    class H(BaseHTTPRequestHandler):
        def do_POST(self):
            entered.set()
            release.wait(5)
            self.send_response(200)
            self.send_header('Content-Length', '0')
            self.end_headers()

        def log_message(self, *a):
            pass
    try:
        srv = _listener.ThreadedHTTPServer(('127.0.0.1', 0), H)
    except OSError as exc:
        print('  fake-server conformance skipped (no loopback socket: %s)' % exc)
        return
    port = srv.server_address[1]
    # fact 1: shutdown() called BEFORE serve_forever() blocks until the loop has run and exited
    done = []
    t_sd = threading.Thread(target=lambda: (srv.shutdown(), done.append('shutdown')))
    t_sd.start()
    time.sleep(0.2)
    assert not done, 'shutdown() returned although serve_forever() never ran'
    t_loop = threading.Thread(target=srv.serve_forever, kwargs={'poll_interval': 0.05})
    t_loop.start()
    t_sd.join(5)
    t_loop.join(5)
    assert done == ['shutdown'] and not t_loop.is_alive()
    # fact 2 + 3: requests are handled while the loop runs; server_close() waits for in-flight handlers
    t_loop = threading.Thread(target=srv.serve_forever, kwargs={'poll_interval': 0.05})
    t_loop.start()
    s = socket.create_connection(('127.0.0.1', port), timeout=5)
    s.sendall(b'POST / HTTP/1.1\r\nContent-Length: 0\r\n\r\n')
    assert entered.wait(5), 'request not handled while the loop runs'
    srv.shutdown()
    t_loop.join(5)
    closed = []
    t_close = threading.Thread(target=lambda: (srv.server_close(), closed.append(1)))
    t_close.start()
    time.sleep(0.3)
    assert not closed, 'server_close() returned while a handler was still running'
    release.set()
    t_close.join(5)
    assert closed
    assert b'200' in s.recv(100)
    s.close()
    # after close: connection refused
    try:
        socket.create_connection(('127.0.0.1', port), timeout=1).close()
        raise AssertionError('connect succeeded after server_close()')
    except OSError:
        pass


def main():
    import mc  # noqa: binds pywbem to VERIF_REPO
    import pywbem
    print('pywbem from', pywbem.__file__)
    try:
        from lxml import etree  # noqa
    except ImportError:
        print('lxml missing')
        return 1
    for fn in (test_minimiser_and_specs, test_dtd, test_facade_roundtrip, test_scheduler_determinism,
               test_fake_server_conformance):
        t = time.time()
        fn()
        print('  %s ok (%.1fs)' % (fn.__name__, time.time() - t))
    print('selftest ok')
    return 0


if __name__ == '__main__':
    sys.exit(main())
