"""evidence/<id>.json writer; validated against /root/.vp/EVIDENCE.schema.json before exit."""
import json
import os

from . import VERIF_DIR, REPO, OUT_DIR

SCHEMA = '/root/.vp/EVIDENCE.schema.json'


def write(prop, tier, seed, acc, mod, wall, nviol, known_seen, partial=False):
    distinct = len(acc.nontrivial)
    states = len(acc.state_hashes) if acc.state_hashes is not None else acc.states
    if not states:
        # modes E/D: a "state" is a distinct canonical input that reached the code under test
        states = distinct + (1 if acc.trivial else 0)
    transitions = acc.calls
    bounds = getattr(mod, 'BOUNDS', {}).get(tier, {})
    cov = {
        'states': int(states),
        'transitions': int(transitions),
        'traces_validated_against_impl': int(acc.evaluations),
        'evaluations': int(acc.evaluations),
        'distinct_nontrivial': int(distinct),
        'trivial_cases': int(acc.trivial),
        'rule': getattr(mod, 'RULE', ''),
        'samples': acc.samples[:6] or ['<no sample recorded>'],
        'distinct_outcomes': len(acc.outcomes),
        'outcome_histogram': dict(sorted(acc.outcomes.items(), key=lambda kv: -kv[1])[:40]),
        'bounds': bounds,
        'caps_hit': list(acc.caps),
        'exhaustive': (not acc.caps) and not partial,
        'known_findings_seen': sorted(known_seen),
        'counters': {k: v for k, v in sorted(acc.extra.items())},
        'explanation': getattr(mod, 'EXPLANATION',
                               'every explored trace is a trace of the unmodified implementation; '
                               'the reference side is a small Python oracle'),
        'repo': REPO,
    }
    ev = {
        'property_id': prop,
        'tier': tier,
        'seed': int(seed),
        'level': 'model_checking',
        'coverage': cov,
        'assumptions': list(getattr(mod, 'ASSUMPTIONS', [])),
        'wall_s': round(wall, 2),
        'violations': int(nviol),
    }
    try:
        import jsonschema
        with open(SCHEMA, encoding='utf-8') as f:
            schema = json.load(f)
        jsonschema.validate(ev, schema)
    except ImportError:
        pass
    except FileNotFoundError:
        pass
    os.makedirs(os.path.join(OUT_DIR, 'evidence'), exist_ok=True)
    path = os.path.join(OUT_DIR, 'evidence', prop + '.json')
    tmp = path + '.tmp%d' % os.getpid()
    with open(tmp, 'w', encoding='utf-8') as f:
        json.dump(ev, f, indent=1, ensure_ascii=True, sort_keys=False)
        f.write('\n')
    os.replace(tmp, path)
    return ev
