"""The unmodified pywbem/_listener.py loaded a second time as pywbem._listener_mc with shim
threading/queue/time modules (mc.sched), a transcription of the stdlib threaded HTTP server, and an
in-memory socket for driving ListenerRequestHandler."""
import importlib.util
import io
import logging
import os
import sys

import pywbem
from pywbem import _cim_xml

from mc import REPO, sched

_MOD = None


def load():
    """-> module pywbem._listener_mc (real listener code, shimmed synchronisation)"""
    global _MOD
    if _MOD is not None:
        return _MOD
    shims = sched.shim_modules()
    saved = {k: sys.modules.get(k) for k in shims}
    sys.modules.update(shims)
    try:
        path = os.path.join(REPO, 'pywbem', '_listener.py')
        spec = importlib.util.spec_from_file_location('pywbem._listener_mc', path)
        mod = importlib.util.module_from_spec(spec)
        mod.__package__ = 'pywbem'
        spec.loader.exec_module(mod)
    finally:
        for k, v in saved.items():
            if v is None:
                sys.modules.pop(k, None)
            else:
                sys.modules[k] = v
    # the date header is the only wall-clock dependence of the handler
    mod.ListenerRequestHandler.date_time_string = lambda self, timestamp=None: 'Thu, 01 Jan 1970 00:00:00 GMT'
    mod.make_server = make_server
    _MOD = mod
    logging.getLogger('pywbem').setLevel(logging.CRITICAL + 1)
    return mod


# ------------------------------------------------------------------------------------------
# fake threaded HTTP server: transcription of socketserver.BaseServer.serve_forever/shutdown and
# ThreadingMixIn (block_on_close) + TCPServer.server_close

class Pending:
    def __init__(self):
        self.accepted = False


class FakeServer:
    def __init__(self):
        self.shutdown_request = False      # BaseServer.__shutdown_request
        self.is_shut_down = False          # BaseServer.__is_shut_down (Event, initially clear)
        self.loop_running = False
        self.closed = False                # listening socket closed
        self.inflight = 0                  # handler threads not yet joined (ThreadingMixIn._threads)
        self.pending = []                  # connections in the listen backlog
        self.listener = None
        self.served = 0

    def serve_forever(self, poll_interval=0.5):
        S = sched.CUR
        self.is_shut_down = False                     # __is_shut_down.clear()
        try:
            while True:
                S.point('serve.loop')
                if self.shutdown_request:
                    break
                self.loop_running = True
                # selector.select(poll_interval): returns on a connection or periodically
                S.block(lambda: self.shutdown_request or any(not p.accepted for p in self.pending),
                        'serve.select')
                if self.shutdown_request:
                    break
                for p in self.pending:
                    if not p.accepted:
                        # _handle_request_noblock -> process_request: one handler thread per request
                        p.accepted = True
                        self.inflight += 1
                        self.served += 1
                        break
        finally:
            self.loop_running = False
            self.shutdown_request = False
            self.is_shut_down = True                  # __is_shut_down.set()

    def shutdown(self):
        S = sched.CUR
        S.point('server.shutdown')
        self.shutdown_request = True
        S.block(lambda: self.is_shut_down, 'server.shutdown.wait')

    def server_close(self):
        S = sched.CUR
        S.point('server.close')
        self.closed = True                            # socket.close(): backlog connections are reset
        S.block(lambda: self.inflight == 0, 'server.close.join')   # ThreadingMixIn: _threads.join()


SERVERS = []


def make_server(logger, host, port, handler):
    s = FakeServer()
    SERVERS.append(s)
    return s


# ------------------------------------------------------------------------------------------
# in-memory socket

class FakeSocket:
    def __init__(self, data):
        # like socket.makefile('rb'): a BufferedReader (read(n) allocates n bytes up front, so huge n
        # raises OverflowError / MemoryError exactly as on a real socket)
        self.rf = io.BufferedReader(io.BytesIO(data))
        self.out = io.BytesIO()

    def makefile(self, mode, *a, **k):
        return self.rf if 'r' in mode else _Writer(self)

    def sendall(self, b):
        self.out.write(b)

    def close(self):
        pass

    def shutdown(self, *a):
        pass

    def settimeout(self, t):
        pass

    def setsockopt(self, *a):
        pass


class _Writer:
    def __init__(self, sock):
        self.sock = sock
        self.closed = False

    def write(self, b):
        self.sock.out.write(b)
        return len(b)

    def flush(self):
        pass

    def close(self):
        self.closed = True


def export_request(ident, extra_headers=(), body=None):
    """bytes of a valid ExportIndication POST whose indication carries property n=<ident>"""
    if body is None:
        inst = pywbem.CIMInstance('CIM_AlertIndication', {'n': str(ident)})
        body = _cim_xml.CIM(_cim_xml.MESSAGE(_cim_xml.SIMPLEEXPREQ(_cim_xml.EXPMETHODCALL(
            'ExportIndication', [_cim_xml.EXPPARAMVALUE('NewIndication', inst.tocimxml())])),
            str(ident), '1.0'), '2.0', '2.0').toxml().encode('utf-8')
    head = [b'POST / HTTP/1.1', b'Content-Type: application/xml; charset=utf-8',
            b'Content-Length: %d' % len(body), b'CIMExport: MethodRequest',
            b'CIMExportMethod: ExportIndication'] + list(extra_headers)
    return b'\r\n'.join(head) + b'\r\n\r\n' + body


def handle(mod, server, request_bytes, client=('10.1.1.1', 4711)):
    """run the real request handler on an in-memory socket -> response bytes"""
    sock = FakeSocket(request_bytes)
    mod.ListenerRequestHandler(sock, client, server)
    return sock.out.getvalue()


# ------------------------------------------------------------------------------------------
# binding of the transcribed server (FakeServer) and of the stub-server harness of C17 to the real
# class: the facts they assume, observed on pywbem's real ThreadedHTTPServer over a loopback socket
# (free-running, not scheduled; used by mc.selftest and as a 'binding' shard of C16 and C17)

def server_binding_problems():
    """-> (list of (fact, expected, observed), skipped_reason|None)"""
    import socket
    import threading as T
    import time as tm
    from http.server import BaseHTTPRequestHandler
    from pywbem import _listener
    problems = []
    entered, release = T.Event(), T.Event()
    second_served = T.Event()

    class H(BaseHTTPRequestHandler):
        def do_POST(self):
            if self.path == '/block':
                entered.set()
                release.wait(90)
            else:
                second_served.set()
            self.send_response(200)
            self.send_header('Content-Length', '0')
            self.end_headers()

        def log_message(self, *a):
            pass
    try:
        srv = _listener.ThreadedHTTPServer(('127.0.0.1', 0), H)
    except OSError as exc:
        return [], 'no loopback socket: %s' % exc
    port = srv.server_address[1]
    try:
        # fact 1: shutdown() called BEFORE serve_forever() blocks until the loop has run and exited
        done = []
        t_sd = T.Thread(target=lambda: (srv.shutdown(), done.append('shutdown')))
        t_sd.start()
        tm.sleep(0.3)
        if done:
            problems.append(('shutdown-before-serve-returns-early', 'blocks until serve_forever() ran', 'returned'))
        t_loop = T.Thread(target=srv.serve_forever, kwargs={'poll_interval': 0.05})
        t_loop.start()
        t_sd.join(10)
        t_loop.join(10)
        if done != ['shutdown'] or t_loop.is_alive():
            problems.append(('shutdown-does-not-end-the-loop', 'loop ended, shutdown returned',
                             [done, t_loop.is_alive()]))
            return problems, None
        # facts 2-4
        t_loop = T.Thread(target=srv.serve_forever, kwargs={'poll_interval': 0.05})
        t_loop.start()
        s1 = socket.create_connection(('127.0.0.1', port), timeout=10)
        s1.sendall(b'POST /block HTTP/1.1\r\nContent-Length: 0\r\n\r\n')
        if not entered.wait(10):
            problems.append(('request-not-handled-while-loop-runs', 'handler entered', 'not entered'))
        # fact 4: another connection is served while the first handler is still busy
        s2 = socket.create_connection(('127.0.0.1', port), timeout=10)
        s2.sendall(b'POST /other HTTP/1.1\r\nContent-Length: 0\r\n\r\n')
        if not second_served.wait(20):
            problems.append(('busy-handler-blocks-other-connections', 'second request served concurrently',
                             'not served within 20 s (the first handler stays busy for up to 90 s)'))
            release.set()
        else:
            s2.settimeout(10)
            s2.recv(100)
        s2.close()
        srv.shutdown()
        t_loop.join(10)
        closed = []
        t_close = T.Thread(target=lambda: (srv.server_close(), closed.append(1)))
        t_close.start()
        tm.sleep(0.4)
        # fact 3: server_close() waits for in-flight handlers
        if closed and not release.is_set():
            problems.append(('server_close-does-not-wait-for-handlers', 'blocks while a handler runs', 'returned'))
        release.set()
        t_close.join(10)
        try:
            s1.settimeout(10)
            if b'200' not in s1.recv(100):
                problems.append(('in-flight-request-not-answered', '200', 'no response'))
        except OSError as exc:
            problems.append(('in-flight-request-not-answered', '200', repr(exc)))
        s1.close()
        # fact 5: after close nothing accepts connections
        try:
            socket.create_connection(('127.0.0.1', port), timeout=1).close()
            problems.append(('port-still-bound-after-server_close', 'connection refused', 'connected'))
        except OSError:
            pass
    finally:
        release.set()
        try:
            srv.server_close()
        except Exception:   # noqa
            pass
    return problems, None

