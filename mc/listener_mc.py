"""The unmodified pywbem/_listener.py loaded a second time as pywbem._listener_mc with shim
threading/queue/time modules (mc.sched), a transcription of the stdlib threaded HTTP server, and an
in-memory socket for driving ListenerRequestHandler."""
import importlib.util
import io
import logging
import os
import sys

import pywbem
from pywbem import _cim_xml

from mc import REPO, sched

_MOD = None


def load():
    """-> module pywbem._listener_mc (real listener code, shimmed synchronisation)"""
    global _MOD
    if _MOD is not None:
        return _MOD
    shims = sched.shim_modules()
    saved = {k: sys.modules.get(k) for k in shims}
    sys.modules.update(shims)
    try:
        path = os.path.join(REPO, 'pywbem', '_listener.py')
        spec = importlib.util.spec_from_file_location('pywbem._listener_mc', path)
        mod = importlib.util.module_from_spec(spec)
        mod.__package__ = 'pywbem'
        spec.loader.exec_module(mod)
    finally:
        for k, v in saved.items():
            if v is None:
                sys.modules.pop(k, None)
            else:
                sys.modules[k] = v
    # the date header is the only wall-clock dependence of the handler
    mod.ListenerRequestHandler.date_time_string = lambda self, timestamp=None: 'Thu, 01 Jan 1970 00:00:00 GMT'
    mod.make_server = make_server
    _MOD = mod
    logging.getLogger('pywbem').setLevel(logging.CRITICAL + 1)
    return mod


# ------------------------------------------------------------------------------------------
# fake threaded HTTP server: transcription of socketserver.BaseServer.serve_forever/shutdown and
# ThreadingMixIn (block_on_close) + TCPServer.server_close

class Pending:
    def __init__(self):
        self.accepted = False


class FakeServer:
    def __init__(self):
        self.shutdown_request = False      # BaseServer.__shutdown_request
        self.is_shut_down = False          # BaseServer.__is_shut_down (Event, initially clear)
        self.loop_running = False
        self.closed = False                # listening socket closed
        self.inflight = 0                  # handler threads not yet joined (ThreadingMixIn._threads)
        self.pending = []                  # connections in the listen backlog
        self.listener = None
        self.served = 0

    def serve_forever(self, poll_interval=0.5):
        S = sched.CUR
        self.is_shut_down = False                     # __is_shut_down.clear()
        try:
            while True:
                S.point('serve.loop')
                if self.shutdown_request:
                    break
                self.loop_running = True
                # selector.select(poll_interval): returns on a connection or periodically
                S.block(lambda: self.shutdown_request or any(not p.accepted for p in self.pending),
                        'serve.select')
                if self.shutdown_request:
                    break
                for p in self.pending:
                    if not p.accepted:
                        # _handle_request_noblock -> process_request: one handler thread per request
                        p.accepted = True
                        self.inflight += 1
                        self.served += 1
                        break
        finally:
            self.loop_running = False
            self.shutdown_request = False
            self.is_shut_down = True                  # __is_shut_down.set()

    def shutdown(self):
        S = sched.CUR
        S.point('server.shutdown')
        self.shutdown_request = True
        S.block(lambda: self.is_shut_down, 'server.shutdown.wait')

    def server_close(self):
        S = sched.CUR
        S.point('server.close')
        self.closed = True                            # socket.close(): backlog connections are reset
        S.block(lambda: self.inflight == 0, 'server.close.join')   # ThreadingMixIn: _threads.join()


SERVERS = []


def make_server(logger, host, port, handler):
    s = FakeServer()
    SERVERS.append(s)
    return s


# ------------------------------------------------------------------------------------------
# in-memory socket

class FakeSocket:
    def __init__(self, data):
        # like socket.makefile('rb'): a BufferedReader (read(n) allocates n bytes up front, so huge n
        # raises OverflowError / MemoryError exactly as on a real socket)
        self.rf = io.BufferedReader(io.BytesIO(data))
        self.out = io.BytesIO()

    def makefile(self, mode, *a, **k):
        return self.rf if 'r' in mode else _Writer(self)

    def sendall(self, b):
        self.out.write(b)

    def close(self):
        pass

    def shutdown(self, *a):
        pass

    def settimeout(self, t):
        pass

    def setsockopt(self, *a):
        pass


class _Writer:
    def __init__(self, sock):
        self.sock = sock
        self.closed = False

    def write(self, b):
        self.sock.out.write(b)
        return len(b)

    def flush(self):
        pass

    def close(self):
        self.closed = True


def export_request(ident, extra_headers=(), body=None):
    """bytes of a valid ExportIndication POST whose indication carries property n=<ident>"""
    if body is None:
        inst = pywbem.CIMInstance('CIM_AlertIndication', {'n': str(ident)})
        body = _cim_xml.CIM(_cim_xml.MESSAGE(_cim_xml.SIMPLEEXPREQ(_cim_xml.EXPMETHODCALL(
            'ExportIndication', [_cim_xml.EXPPARAMVALUE('NewIndication', inst.tocimxml())])),
            str(ident), '1.0'), '2.0', '2.0').toxml().encode('utf-8')
    head = [b'POST / HTTP/1.1', b'Content-Type: application/xml; charset=utf-8',
            b'Content-Length: %d' % len(body), b'CIMExport: MethodRequest',
            b'CIMExportMethod: ExportIndication'] + list(extra_headers)
    return b'\r\n'.join(head) + b'\r\n\r\n' + body


def handle(mod, server, request_bytes, client=('10.1.1.1', 4711)):
    """run the real request handler on an in-memory socket -> response bytes"""
    sock = FakeSocket(request_bytes)
    mod.ListenerRequestHandler(sock, client, server)
    return sock.out.getvalue()
