"""Cooperative scheduler for REAL threads (baton = one semaphore per thread) with shims for
threading.Thread / threading.Event / queue.Queue / time.sleep, and a stateless, preemption-bounded
depth-first explorer over choice prefixes (iterative context bounding, CHESS style).

Every shim operation and every access to a shared field (Shared descriptor) is a scheduling point;
everything between two points runs without interruption, because only the thread that holds the
baton runs. A schedule is the list of choices taken at the points (index into the canonical list of
enabled threads: the running thread first if still enabled, then ascending thread ids).

Time abstraction: sleep(t) and a timed-out get(timeout=...) are *yields*: the thread is disabled
until some other thread has taken a step (fair stateless model checking); "no enabled thread" while
some thread is unfinished = deadlock; exceeding the horizon = reported as cap/livelock suspicion.
"""
import queue as _realqueue
import threading as _rt
import time as _realtime
import types


class Abort(BaseException):
    """raised inside controlled threads to unwind them when an execution is torn down"""


class Divergence(Exception):
    """a recorded choice does not fit the enabled set while replaying a prefix"""


CUR = None      # the scheduler of the execution in progress (module global: one at a time per process)


class T:
    """a controlled thread"""

    def __init__(self, sched, fn, name):
        self.s = sched
        self.fn = fn
        self.name = name
        self.sem = _rt.Semaphore(0)
        self.done = False
        self.cond = None          # blocking condition or None
        self.why = ''
        self.yielded = False
        self.id = len(sched.threads)
        self.exc = None
        self.real = None

    def _run(self):
        self.sem.acquire()
        try:
            if not self.s.aborting:
                self.fn()
        except Abort:
            pass
        except BaseException as e:   # noqa: recorded, part of the observation
            self.exc = e
        self.done = True
        self.s.ctl.release()


class Sched:
    def __init__(self, choices=(), horizon=3000, state_fn=None):
        self.state_fn = state_fn      # optional: hashable snapshot of the shared state (for pruning)
        self.sigs = []                # state signature before each choice (parallel to trace)
        self.choices = list(choices)
        self.pos = 0
        self.threads = []
        self.cur = None
        self.trace = []           # (n_enabled, chosen, running_still_enabled, [ids in canonical order])
        self.horizon = horizon
        self.error = None         # 'deadlock: ...' | 'horizon'
        self.ctl = _rt.Semaphore(0)
        self.aborting = False
        self.steps = 0

    # ---- called from controlled threads -------------------------------------------------
    def point(self, why=''):
        t = self.cur
        t.why = why
        self._switch(t)

    def yield_(self, why='yield'):
        t = self.cur
        t.yielded = True
        t.why = why
        self._switch(t)

    def block(self, cond, why):
        t = self.cur
        t.cond = cond
        t.why = why
        self._switch(t)
        t.cond = None

    def _switch(self, t):
        if self.aborting:
            # unwinding (finally blocks of the code under test may reach further points)
            raise Abort()
        self.ctl.release()
        t.sem.acquire()
        if self.aborting:
            raise Abort()

    def spawn(self, fn, name):
        t = T(self, fn, name)
        self.threads.append(t)
        t.real = _rt.Thread(target=t._run, daemon=True)
        t.real.start()
        return t

    # ---- controller -----------------------------------------------------------------------
    def run(self, mainfn):
        global CUR
        CUR = self
        self.spawn(mainfn, 'main')
        self.ctl.release()
        try:
            while True:
                self.ctl.acquire()
                en = [t for t in self.threads if not t.done and (t.cond is None or t.cond())]
                en2 = [t for t in en if not t.yielded] or en
                if not en2:
                    if all(t.done for t in self.threads):
                        break
                    self.error = 'deadlock: ' + ', '.join(
                        '%s@%s' % (t.name, t.why) for t in self.threads if not t.done)
                    break
                self.steps += 1
                if self.steps > self.horizon:
                    self.error = 'horizon'
                    break
                order = sorted(en2, key=lambda t: (t is not self.cur, t.id))
                c = self.choices[self.pos] if self.pos < len(self.choices) else 0
                if c >= len(order):
                    raise Divergence('choice %d of %d at step %d' % (c, len(order), self.pos))
                self.pos += 1
                nxt = order[c]
                running_enabled = self.cur is not None and order[0] is self.cur
                self.trace.append((len(order), c, running_enabled))
                if self.state_fn is not None:
                    self.sigs.append(self._signature(order))
                if nxt is not self.cur:
                    for t in self.threads:
                        if t is not nxt:
                            t.yielded = False
                self.cur = nxt
                nxt.yielded = False
                nxt.sem.release()
        finally:
            self.aborting = True
            for t in self.threads:
                if not t.done:
                    t.sem.release()
            for t in self.threads:
                t.real.join(2)
            CUR = None
        return self

    def _signature(self, order):
        """hash of the global state at a choice point: program counters (and simple locals) of all
        controlled threads, who is running, who is enabled, and the shared state"""
        import sys
        frames = sys._current_frames()
        th = []
        for t in self.threads:
            if t.done:
                th.append((t.name, 'done'))
                continue
            fr = frames.get(t.real.ident)
            pcs = []
            while fr is not None:
                fn = fr.f_code.co_filename
                if not fn.endswith('sched.py') and 'threading.py' not in fn:
                    loc = tuple(sorted((k, v) for k, v in fr.f_locals.items()
                                       if isinstance(v, (int, str, bool, type(None)))))
                    pcs.append((fr.f_code.co_name, fr.f_lasti, loc))
                fr = fr.f_back
            th.append((t.name, t.why, t.yielded, tuple(pcs)))
        return hash((self.cur.id if self.cur else -1, tuple(x.id for x in order), tuple(th),
                     self.state_fn()))

    def choices_taken(self):
        return [c for (_, c, _) in self.trace]


# ------------------------------------------------------------------------------------------
# shims (they use the module-global CUR)

class ShimThread:
    _count = 0

    def __init__(self, group=None, target=None, name=None, args=(), kwargs=None, *, daemon=None):
        self._target = target
        self._args = args
        self._kwargs = kwargs or {}
        self.name = name or 'Thread'
        self.daemon = daemon
        self._t = None

    def run(self):
        if self._target:
            self._target(*self._args, **self._kwargs)

    def start(self):
        CUR.point('thread.start:' + self.name)
        self._t = CUR.spawn(self.run, self.name)

    def join(self, timeout=None):
        if self._t is None:
            raise RuntimeError('cannot join thread before it is started')
        t = self._t
        CUR.block(lambda: t.done, 'join:' + self.name)

    def is_alive(self):
        return self._t is not None and not self._t.done


class ShimEvent:
    def __init__(self):
        self._f = False

    def set(self):
        CUR.point('event.set')
        self._f = True

    def is_set(self):
        CUR.point('event.is_set')
        return self._f

    def clear(self):
        CUR.point('event.clear')
        self._f = False

    def wait(self, timeout=None):
        if timeout is None:
            CUR.block(lambda: self._f, 'event.wait')
            return True
        CUR.yield_('event.wait(timeout)')
        return self._f


class ShimQueue:
    """queue.Queue: every method is atomic (the real one holds its mutex) with a scheduling point
    before it; a blocking get with timeout may time out whenever the queue is empty"""

    def __init__(self, maxsize=0):
        self.maxsize = maxsize
        self.q = []
        self.unfinished_tasks = 0

    def put(self, item, block=True, timeout=None):
        CUR.point('q.put')
        if self.maxsize and len(self.q) >= self.maxsize:
            if not block or timeout is not None:
                raise _realqueue.Full
            CUR.block(lambda: len(self.q) < self.maxsize, 'q.put.wait')
        self.q.append(item)
        self.unfinished_tasks += 1

    def put_nowait(self, item):
        return self.put(item, block=False)

    def get(self, block=True, timeout=None):
        CUR.point('q.get')
        if not self.q:
            if not block or timeout == 0:
                raise _realqueue.Empty
            if timeout is None:
                CUR.block(lambda: bool(self.q), 'q.get.wait')
            else:
                # either an item arrives, or the timeout fires while the queue is empty
                CUR.yield_('q.get.wait(timeout)')
                if not self.q:
                    raise _realqueue.Empty
        return self.q.pop(0)

    def get_nowait(self):
        return self.get(block=False)

    def empty(self):
        CUR.point('q.empty')
        return not self.q

    def full(self):
        CUR.point('q.full')
        return bool(self.maxsize) and len(self.q) >= self.maxsize

    def qsize(self):
        CUR.point('q.qsize')
        return len(self.q)

    def task_done(self):
        CUR.point('q.task_done')
        if self.unfinished_tasks <= 0:
            raise ValueError('task_done() called too many times')
        self.unfinished_tasks -= 1

    def join(self):
        CUR.block(lambda: self.unfinished_tasks == 0, 'q.join')


def shim_sleep(t):
    CUR.yield_('sleep')


class Shared:
    """data descriptor: every read and write of the attribute is a scheduling point"""

    def __set_name__(self, owner, name):
        self.n = '_sh' + name
        self.label = name

    def __get__(self, o, t=None):
        if o is None:
            return self
        if CUR is not None and CUR.cur is not None and not CUR.aborting:
            CUR.point('rd' + self.label)
        return o.__dict__.get(self.n)

    def __set__(self, o, v):
        if CUR is not None and CUR.cur is not None and not CUR.aborting:
            CUR.point('wr' + self.label)
        o.__dict__[self.n] = v


def shim_modules():
    """module objects to be put into sys.modules while the code under test is (re)loaded"""
    thr = types.ModuleType('threading')
    for n in dir(_rt):
        setattr(thr, n, getattr(_rt, n))
    thr.Thread = ShimThread
    thr.Event = ShimEvent
    qm = types.ModuleType('queue')
    qm.Queue = ShimQueue
    qm.Full = _realqueue.Full
    qm.Empty = _realqueue.Empty
    tm = types.ModuleType('time')
    for n in dir(_realtime):
        setattr(tm, n, getattr(_realtime, n))
    tm.sleep = shim_sleep
    return {'threading': thr, 'queue': qm, 'time': tm}


# ------------------------------------------------------------------------------------------
# preemption-bounded DFS

def preemption_costs(trace):
    """number of preemptions before each point"""
    out = []
    pre = 0
    for (n, c, running_enabled) in trace:
        out.append(pre)
        if running_enabled and c != 0:
            pre += 1
    return out


def children(prefix_len, sched, bound, seen=None):
    """the alternative prefixes below an executed schedule (each is a disjoint sub-tree).

    With `seen` (dict state signature -> largest remaining preemption budget already expanded):
    after the prefix the execution follows the deterministic default continuation, so from a
    global state that was expanded before with at least the same remaining budget, the rest of
    this execution and all its alternatives are identical to what was (or will be) explored from
    there; expansion stops at that point."""
    tr = sched.trace
    pres = preemption_costs(tr)
    taken = [c for (_, c, _) in tr]
    out = []
    for i in range(prefix_len, len(tr)):
        n, c, running_enabled = tr[i]
        if seen is not None and sched.sigs:
            remaining = bound - pres[i]
            sig = sched.sigs[i]
            if seen.get(sig, -1) >= remaining:
                break
            seen[sig] = remaining
        cost = pres[i] + (1 if running_enabled else 0)
        if cost > bound:
            continue
        for alt in range(1, n):
            out.append(taken[:i] + [alt])
    return out


def explore(run_one, bound, roots=([],), on_exec=None, max_execs=None, seen=None):
    """run_one(prefix) -> Sched (after execution). Explores every schedule below each root prefix
    with at most `bound` preemptions. Returns (executions, capped)."""
    stack = [list(r) for r in reversed(list(roots))]
    n = 0
    while stack:
        if max_execs is not None and n >= max_execs:
            return n, True
        prefix = stack.pop()
        s = run_one(prefix)
        n += 1
        if on_exec:
            on_exec(prefix, s)
        kids = children(len(prefix), s, bound, seen)
        stack.extend(reversed(kids))
    return n, False


def frontier(run_one, bound, target, on_exec=None, seen=None):
    """expand breadth-first from the empty prefix until at least `target` pending sub-trees exist
    (or the space is exhausted); returns the pending prefixes. Executed schedules are reported
    through on_exec, so nothing is explored twice."""
    import collections
    pending = collections.deque([[]])
    while pending and len(pending) < target:
        prefix = pending.popleft()
        s = run_one(prefix)
        if on_exec:
            on_exec(prefix, s)
        pending.extend(children(len(prefix), s, bound, seen))
    return list(pending)
