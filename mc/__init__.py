"""Bounded exhaustive exploration machinery for pywbem (see /verif/DESIGN.md).

Importing this package binds `pywbem` / `pywbem_mock` to the working tree named by
VERIF_REPO (default /repo) and aborts if they would come from anywhere else.
"""
import os
import sys

VERIF_DIR = os.path.dirname(os.path.dirname(os.path.abspath(__file__)))
REPO = os.path.abspath(os.environ.get('VERIF_REPO', '/repo'))
# evidence and replay files of runs against another tree (mutants, seeded changes) must not
# overwrite those of /repo
OUT_DIR = VERIF_DIR if REPO == '/repo' else os.path.join('/var/tmp', 'mc-altrepo-out')


def _bind_repo():
    # drop the editable-install finder so that VERIF_REPO decides
    sys.meta_path[:] = [f for f in sys.meta_path
                        if 'editable' not in getattr(f, '__name__', '').lower()
                        and 'Editable' not in getattr(f, '__name__', '')]
    if sys.path[0:1] != [REPO]:
        sys.path.insert(0, REPO)
    for m in list(sys.modules):
        if m == 'pywbem' or m.startswith('pywbem.') or m.startswith('pywbem_mock'):
            f = getattr(sys.modules[m], '__file__', None) or ''
            if not f.startswith(REPO + os.sep):
                del sys.modules[m]
    import warnings
    warnings.simplefilter('ignore')
    import pywbem
    import pywbem_mock
    for mod in (pywbem, pywbem_mock):
        if not os.path.abspath(mod.__file__).startswith(REPO + os.sep):
            raise SystemExit("mc: %s imported from %s, not from %s" %
                             (mod.__name__, mod.__file__, REPO))


_bind_repo()
