"""Independent XML checks: strict well-formedness (lxml, no recovery), XML 1.0 Char production,
DTD validity against DSP0203 (lxml.etree.DTD over /repo/tests/dtd/DSP0203_2.3.1.dtd)."""
import os
import re

from lxml import etree

from . import REPO

DTD_PATH = os.path.join(REPO, 'tests', 'dtd', 'DSP0203_2.3.1.dtd')
if not os.path.exists(DTD_PATH):
    DTD_PATH = '/repo/tests/dtd/DSP0203_2.3.1.dtd'
_dtd = None

# XML 1.0 Char ::= #x9 | #xA | #xD | [#x20-#xD7FF] | [#xE000-#xFFFD] | [#x10000-#x10FFFF]
_ILLEGAL = re.compile('[^\t\n\r\u0020-\ud7ff\ue000-\ufffd\U00010000-\U0010FFFF]')


def dtd():
    global _dtd
    if _dtd is None:
        _dtd = etree.DTD(DTD_PATH)
    return _dtd


def check(xml_bytes, fragment=False):
    """-> None if ok, else ('ill-formed'|'illegal-char'|'dtd-invalid'|'not-utf8', detail)"""
    if isinstance(xml_bytes, str):
        try:
            xml_bytes = xml_bytes.encode('utf-8')
        except UnicodeEncodeError as exc:
            return 'not-utf8', str(exc)[:100]
    try:
        text = xml_bytes.decode('utf-8')
    except UnicodeDecodeError as exc:
        return 'not-utf8', str(exc)[:100]
    m = _ILLEGAL.search(text)
    if m:
        return 'illegal-char', 'U+%04X at %d' % (ord(m.group(0)), m.start())
    parser = etree.XMLParser(recover=False, resolve_entities=False, no_network=True,
                             huge_tree=True)
    try:
        root = etree.fromstring(xml_bytes, parser)
    except etree.XMLSyntaxError as exc:
        return 'ill-formed', str(exc)[:160]
    d = dtd()
    if not d.validate(root):
        err = d.error_log.filter_from_errors()
        msg = str(err[0].message)[:200] if len(err) else 'invalid'
        # element name + coarse reason for signatures
        return 'dtd-invalid', msg
    return None


def dtd_error_class(msg):
    """coarse class of a DTD error message (element names kept, values dropped)"""
    m = re.search(r'Element ([\w.]+)', msg or '')
    el = m.group(1) if m else '?'
    if 'No declaration for attribute' in msg:
        a = re.search(r'attribute (\w+)', msg)
        return 'undeclared-attribute:%s@%s' % (a.group(1) if a else '?', el)
    if 'does not carry attribute' in msg:
        a = re.search(r'attribute (\w+)', msg)
        return 'missing-attribute:%s@%s' % (a.group(1) if a else '?', el)
    if 'content does not follow the DTD' in msg:
        return 'content-model:' + el
    if 'No declaration for element' in msg:
        return 'undeclared-element:' + (re.search(r'element ([\w.]+)', msg).group(1) if re.search(r'element ([\w.]+)', msg) else '?')
    if 'Value' in msg and 'for attribute' in msg:
        a = re.search(r'for attribute (\w+) of ([\w.]+)', msg)
        return 'attribute-value:%s@%s' % (a.group(1), a.group(2)) if a else 'attribute-value'
    return 'other:' + el
