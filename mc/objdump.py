"""Strict canonical dump of pywbem objects (exact Python/CIM type of every value, exact lexical
case of names, child order) and a structural diff. Stricter than pywbem's own ==."""
import math
import struct
from datetime import datetime, timedelta

from pywbem import (CIMInstanceName, CIMClassName, CIMInstance, CIMClass, CIMProperty, CIMMethod,
                    CIMParameter, CIMQualifier, CIMQualifierDeclaration, CIMDateTime)
from pywbem._cim_types import CIMInt, CIMFloat

ATTRS = {
    CIMInstanceName: ['classname', 'keybindings', 'namespace', 'host'],
    CIMClassName: ['classname', 'namespace', 'host'],
    CIMInstance: ['classname', 'properties', 'qualifiers', 'path'],
    CIMClass: ['classname', 'superclass', 'properties', 'methods', 'qualifiers', 'path'],
    CIMProperty: ['name', 'type', 'value', 'reference_class', 'embedded_object', 'is_array',
                  'array_size', 'class_origin', 'propagated', 'qualifiers'],
    CIMMethod: ['name', 'return_type', 'class_origin', 'propagated', 'parameters', 'qualifiers'],
    CIMParameter: ['name', 'type', 'reference_class', 'is_array', 'array_size', 'qualifiers',
                   'value', 'embedded_object'],
    CIMQualifier: ['name', 'type', 'value', 'propagated', 'overridable', 'tosubclass',
                   'toinstance', 'translatable'],
    CIMQualifierDeclaration: ['name', 'type', 'value', 'is_array', 'array_size', 'scopes',
                              'overridable', 'tosubclass', 'toinstance', 'translatable'],
}


def dump(o):
    """JSON-able strict dump"""
    if o is None:
        return None
    if isinstance(o, bool):
        return ['bool', o]
    if isinstance(o, CIMInt):
        return [type(o).__name__, int(o)]
    if isinstance(o, int):
        return ['int', o]
    if isinstance(o, (CIMFloat, float)):
        f = float(o)
        tag = type(o).__name__
        if tag == 'Real32':
            # a real32 is an IEEE single: compare at float32 precision (pywbem keeps a double
            # and prints 11 significant digits, which identifies the single exactly)
            try:
                f = struct.unpack('<f', struct.pack('<f', f))[0]
            except OverflowError:
                pass
        if math.isnan(f):
            return [tag, 'nan']
        if math.isinf(f):
            return [tag, 'inf' if f > 0 else '-inf']
        return [tag, f.hex()]
    if isinstance(o, str):
        return ['str', o]
    if isinstance(o, bytes):
        return ['bytes', o.decode('latin-1')]
    if isinstance(o, CIMDateTime):
        return ['CIMDateTime', str(o), o.is_interval, o.minutes_from_utc, o.precision]
    if isinstance(o, (datetime, timedelta)):
        return [type(o).__name__, repr(o)]
    if isinstance(o, (list, tuple)):
        return ['list' if isinstance(o, list) else 'tuple', [dump(x) for x in o]]
    t = type(o)
    if t in ATTRS:
        out = [t.__name__]
        for a in ATTRS[t]:
            if a == 'scopes':
                out.append([a, _scopes(getattr(o, a))])
            else:
                out.append([a, dump(getattr(o, a))])
        return out
    if hasattr(o, 'items'):   # NocaseDict / dict (ordered)
        return ['dict', [[k, dump(v)] for k, v in o.items()]]
    return ['other:' + t.__name__, repr(o)]


ALL_SCOPES = ['ASSOCIATION', 'CLASS', 'INDICATION', 'METHOD', 'PARAMETER', 'PROPERTY', 'REFERENCE']


def _scopes(sc):
    """scopes are a set of names (DSP0004 'any' = all of them); False entries = absent"""
    names = set()
    for k, v in (sc or {}).items():
        if v:
            if k.upper() == 'ANY':
                names.update(ALL_SCOPES)
            else:
                names.add(k.upper())
    return ['scopes', sorted(names)]


def diff(a, b, path=''):
    """first difference between two dumps -> (path, a_part, b_part) or None"""
    if type(a) is not type(b):
        return path, a, b
    if isinstance(a, list):
        if len(a) == 2 and len(b) == 2 and a[0] == 'str' and b[0] == 'str':
            return (path, a, b) if a != b else None
        if len(a) != len(b):
            # name the first differing position for dict-like child lists
            n = min(len(a), len(b))
            for i in range(n):
                d = diff(a[i], b[i], path + '/' + _seg(a, i))
                if d:
                    return d
            return path + '/len', len(a), len(b)
        for i in range(len(a)):
            d = diff(a[i], b[i], path + '/' + _seg(a, i))
            if d:
                return d
        return None
    if a != b:
        return path, a, b
    return None


def _seg(lst, i):
    x = lst[i]
    if isinstance(x, list) and len(x) == 2 and isinstance(x[0], str) and i > 0 and \
            isinstance(lst[0], str):
        return x[0]                      # attribute name inside an object dump
    return str(i)


def path_class(path):
    """coarse attribute-path kind: digits removed, so that positions do not matter"""
    return '/'.join(p for p in path.split('/') if p and not p.isdigit())


def string_transform(a, b):
    """classify how string a turned into string b"""
    if a == b:
        return 'same'
    if '\r' in a and a.replace('\r\n', '\n').replace('\r', '\n') == b:
        return 'CR->LF'
    if a.strip() == b or a.strip(' ') == b:
        return 'whitespace-stripped'
    if a.lower() == b.lower():
        return 'case-changed'
    if len(b) < len(a) and b in a:
        return 'truncated'
    return 'other'


# ------------------------------------------------------------------ DSP0201 defaults

def norm(d):
    """apply the DSP0201 defaults the parser is documented to apply to unspecified (None)
    attributes: propagated -> False; qualifier flavors -> overridable/tosubclass True,
    toinstance/translatable False."""
    if not isinstance(d, list):
        return d
    if d and isinstance(d[0], str) and d[0] in ('CIMProperty', 'CIMMethod', 'CIMQualifier',
                                                 'CIMQualifierDeclaration'):
        out = [d[0]]
        for a, v in d[1:]:
            if a == 'propagated' and v is None:
                v = ['bool', False]
            elif d[0] in ('CIMQualifier', 'CIMQualifierDeclaration') and v is None:
                if a in ('overridable', 'tosubclass'):
                    v = ['bool', True]
                elif a in ('toinstance', 'translatable'):
                    v = ['bool', False]
            out.append([a, norm(v)])
        return out
    return [norm(x) for x in d]
