"""Small generated CIM repositories on pywbem_mock.FakedWBEMConnection (shared by several checks)."""
import copy
import itertools

import pywbem
import pywbem_mock
from pywbem import CIMInstance, CIMInstanceName, CIMParameter, Uint8

QUALS = """
Qualifier Key : boolean = false, Scope(property, reference), Flavor(DisableOverride, ToSubclass);
Qualifier Association : boolean = false, Scope(association), Flavor(DisableOverride, ToSubclass);
Qualifier Description : string = null, Scope(any), Flavor(EnableOverride, ToSubclass, Translatable);
Qualifier In : boolean = true, Scope(parameter), Flavor(DisableOverride, ToSubclass);
Qualifier Out : boolean = false, Scope(parameter), Flavor(DisableOverride, ToSubclass);
Qualifier Static : boolean = false, Scope(property, method), Flavor(DisableOverride, ToSubclass);
Qualifier EmbeddedInstance : string = null, Scope(property, method, parameter);
Qualifier EmbeddedObject : boolean = false, Scope(property, method, parameter), Flavor(DisableOverride, ToSubclass);
Qualifier Indication : boolean = false, Scope(class, indication), Flavor(DisableOverride, ToSubclass);
"""

SCHEMA = """
[Description("base class <&>")]
class TST_Base {
    [Key] string k;
    uint8 p;
    string s[];
    datetime d;
    real32 r;
    boolean b;
    sint64 n;
    char16 c;
    [EmbeddedObject] string eo;
    [Description("echo")]
    uint32 Echo([In] string a, [In] uint8 u[], [In] boolean bo, [In] datetime dt,
                [In] TST_Base REF rf, [In(false), Out] string oa, [In(false), Out] uint8 ou[],
                [In(false), Out] boolean obo, [In(false), Out] datetime odt,
                [In(false), Out] TST_Base REF orf);
    [Static] boolean SEcho([In] boolean bo, [In(false), Out] boolean obo);
};
class TST_Sub : TST_Base {
    uint16 q;
};
class TST_Other {
    [Key] uint32 id;
    [Key] boolean f;
    string t;
};
[Association]
class TST_Assoc {
    [Key] TST_Base REF x;
    [Key] TST_Other REF y;
    string note;
};
"""

INSTANCES = """
instance of TST_Base as $b1 { k = "a"; p = 1; s = {"x", "y<&>"}; d = "20140924193040.654321+120";
    r = 1.5; b = true; n = -5; };
instance of TST_Base as $b2 { k = "B"; p = 255; s = {}; b = false; };
instance of TST_Sub as $s1 { k = "sub"; q = 7; p = 0; };
instance of TST_Other as $o1 { id = 1; f = true; t = "caf\\x00e9"; };
instance of TST_Other as $o2 { id = 2; f = false; };
instance of TST_Assoc { x = $b1; y = $o1; note = "n1"; };
instance of TST_Assoc { x = $s1; y = $o1; };
"""


class EchoProvider(pywbem_mock.MethodProvider):
    provider_classnames = 'TST_Base'

    def __init__(self, cimrepository):
        super().__init__(cimrepository)

    def InvokeMethod(self, methodname, localobject, params):
        out = []
        m = methodname.lower()
        if m == 'echo':
            for src, dst in (('a', 'oa'), ('u', 'ou'), ('bo', 'obo'), ('dt', 'odt'), ('rf', 'orf')):
                if src in params:
                    p = params[src]
                    out.append(CIMParameter(dst, p.type, value=p.value, is_array=p.is_array,
                                            reference_class=p.reference_class))
            return pywbem.Uint32(len(out)), out
        if m == 'secho':
            v = params['bo'].value if 'bo' in params else None
            return (not v) if v is not None else None, [CIMParameter('obo', 'boolean', value=v)]
        raise pywbem.CIMError(pywbem.CIM_ERR_METHOD_NOT_AVAILABLE)


def make_conn(default_namespace='root/cimv2', namespaces=('root/cimv2', 'root/other'),
              with_instances=True, with_provider=True):
    conn = pywbem_mock.FakedWBEMConnection(default_namespace=default_namespace)
    for ns in namespaces:
        if ns not in conn.namespaces:
            conn.add_namespace(ns)
        conn.compile_mof_string(QUALS + SCHEMA, namespace=ns)
        if with_instances:
            conn.compile_mof_string(INSTANCES, namespace=ns)
        if with_instances:
            # char16 and embedded object values (the MOF compiler keeps the quotes of char16 literals)
            emb = CIMInstance('TST_Other', {'id': pywbem.Uint32(9), 'f': True, 't': 'in<ner'})
            conn.CreateInstance(CIMInstance('TST_Base', {
                'k': 'c16', 'c': pywbem.CIMProperty('c', 'z', type='char16'),
                'eo': pywbem.CIMProperty('eo', emb, type='string', embedded_object='object')}),
                namespace=ns)
            # non-ASCII text beyond latin-1 and beyond the BMP (cut points for truncating observers)
            conn.CreateInstance(CIMInstance('TST_Other', {
                'id': pywbem.Uint32(3), 'f': True, 't': 'x\u20ac\U0001F600y\u00e9'}), namespace=ns)
            conn.CreateInstance(CIMInstance('TST_Assoc', {
                'x': pywbem.CIMInstanceName('TST_Base', {'k': 'a'}, namespace=ns),
                'y': pywbem.CIMInstanceName('TST_Other', {'id': pywbem.Uint32(3), 'f': True}, namespace=ns)}),
                namespace=ns)
    if with_provider:
        conn.register_provider(EchoProvider(conn.cimrepository), namespaces=list(namespaces))
    return conn


def clone(conn):
    return copy.deepcopy(conn)


# ------------------------------------------------------------------------------------------
# canonical repository dump (strict; used for state dedup and for "nothing changed" oracles)

def _values(store):
    # read the stored objects themselves (iter_values() deep-copies by default)
    try:
        return list(store.iter_values(copy=False))
    except TypeError:
        return list(store.iter_values())


def repo_dump(conn):
    from mc.objdump import dump
    rep = conn.cimrepository
    out = []
    for ns in sorted(rep.namespaces, key=lambda s: s.lower()):
        classes = sorted((dump(c) for c in _values(rep.get_class_store(ns))), key=repr)
        insts = sorted((dump(i) for i in _values(rep.get_instance_store(ns))), key=repr)
        quals = sorted((dump(q) for q in _values(rep.get_qualifier_store(ns))), key=repr)
        out.append([ns, classes, insts, quals])
    return out


def repo_key(conn):
    import json
    import hashlib
    return hashlib.sha1(json.dumps(repo_dump(conn), sort_keys=True, default=repr).encode()).hexdigest()
