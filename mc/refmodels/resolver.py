"""Reference model for C12: DSP0004 class resolution, written from the property statement only.

    "GetClass with LocalOnly=False exposes exactly the properties, methods, parameters and
     qualifiers of the class and of all its ancestors (the nearest declaration wins, qualifiers
     propagate per their flavors), class_origin names the ancestor that first introduced the
     element, elements the class does not redeclare are marked propagated and newly introduced
     ones are not"

Pure Python on plain dicts; nothing is imported from pywbem and nothing here was derived from
pywbem_mock/_resolvermixin.py.

Input
-----
qdecls   {qualifier name (lower): {'tosubclass': bool, 'overridable': bool}}
classes  list of class declarations, superclasses anywhere in the list:
           {'name': str, 'super': str|None,
            'quals': [[qname, value], ...],
            'props': [{'name': str, 'type': str, 'quals': [[qname, value], ...]}, ...],
            'meths': [{'name': str, 'rtype': str, 'quals': [...],
                       'params': [{'name': str, 'type': str, 'quals': [...]}, ...]}, ...]}
         All names are compared case-insensitively (CIM names are case-insensitive).

Output of resolve(classes, qdecls)[classname.lower()]  — the expected *full* view
(LocalOnly=False, IncludeQualifiers=True, IncludeClassOrigin=True):
   {'name', 'super', 'corner': bool,
    'quals': {qname_lower: Q},
    'props': {name_lower: E}, 'meths': {name_lower: E}}
   E = {'name': declared name of the nearest declaration, 'origin': class that first introduced it,
        'status': 'new' | 'inherited' | 'override'      (relative to this class),
        'type': ..., 'quals': {qname_lower: Q}, 'params': {name_lower: {'name','type','quals'}},
        'any': bool   (True: the input is not a valid DSP0004 declaration, nothing is demanded)}
   Q = {'presence': 'must' | 'optional' | 'any' | 'absent', 'value': v,
        'propagated': True | False | None (None = the statement does not fix it)}
   A qualifier that is not listed must be absent ('absent' entries name Restricted qualifiers of
   the overridden element that must not reach the redeclaration).

What the statement fixes, and what it leaves open (-> 'optional' / 'any' / propagated None):

* element not redeclared by the class: propagated must be True; newly introduced: must be false
  (False or unset); overriding redeclaration: not fixed (None).
* a qualifier set only locally (new element, or not present on the overridden element):
  present, local value, not propagated.
* a qualifier present on the inherited element and not re-specified:
    - flavor ToSubclass: present with the inherited value, propagated True;
    - flavor Restricted and the element is redeclared (override; the class itself): absent;
    - flavor Restricted and the element is NOT redeclared: 'optional' (the element shown in the
      subclass is literally the ancestor's declaration; DSP0004 is read both ways).
* a qualifier present on the inherited element and re-specified locally:
    - ToSubclass + EnableOverride: present with the LOCAL value (nearest declaration wins),
      propagated not fixed;
    - ToSubclass + DisableOverride: same value -> present with that value, propagated not fixed;
      different value -> invalid input, the server may reject; if it accepts: 'any' (corner);
    - Restricted: the inherited value does not reach the subclass, so this is a new local value,
      but servers differ in what they report (and may reject with DisableOverride): 'any' (corner).
* redeclaring an inherited property/method without the Override qualifier (or with an Override
  value that does not name it) is not a valid DSP0004 override: the server may reject; if it
  accepts nothing is demanded for that element (E['any']).
"""


def _low(s):
    return s.lower()


def _q(presence, value, propagated):
    return {'presence': presence, 'value': value, 'propagated': propagated}


def merge_quals(inherited, local, redeclared, qdecls):
    """Effective qualifiers of one element in a class.

    inherited   {qname_lower: Q} of the same element in the direct superclass ({} if none)
    local       {qname_lower: value} specified on the declaration in this class
    redeclared  True if this class declares the element itself (always True for the class level
                and for new elements)
    -> ({qname_lower: Q}, corner_seen)
    """
    out = {}
    corners = []
    for qn in list(inherited) + [q for q in local if q not in inherited]:
        decl = qdecls[qn]
        inh = inherited.get(qn)
        if inh is not None and inh['presence'] == 'absent':
            inh = None                                     # did not reach the superclass either
            if qn not in local:
                continue
        if qn in local:
            val = local[qn]
            if inh is None:
                out[qn] = _q('must', val, False)
            elif inh['presence'] != 'must':
                # the inherited one is itself uncertain (Restricted seen through a
                # non-redeclaring class, or an earlier corner)
                out[qn] = _q('any', val, None)
                corners.append(qn)
            elif not decl['tosubclass']:
                out[qn] = _q('any', val, None)            # Restricted, re-specified
                corners.append(qn)
            elif decl['overridable']:
                out[qn] = _q('must', val, None)           # nearest declaration wins
            elif val == inh['value']:
                out[qn] = _q('must', val, None)           # DisableOverride, same value repeated
            else:
                out[qn] = _q('any', val, None)            # DisableOverride violated
                corners.append(qn)
        else:
            if decl['tosubclass']:
                if inh['presence'] == 'must':
                    out[qn] = _q('must', inh['value'], True)
                else:
                    out[qn] = _q('any', inh['value'], None)
            else:
                if redeclared:
                    # Restricted: does not reach a redeclaration (listed so that a violation can
                    # be told apart from any other unexpected qualifier)
                    out[qn] = _q('absent', inh['value'], None)
                else:
                    out[qn] = _q('optional' if inh['presence'] != 'any' else 'any',
                                 inh['value'], None)
    # The Override qualifier (Restricted) is re-specified by every further override of the same
    # element; that is the normal case, not an input the statement is silent about. What the
    # server reports for the Override qualifier itself stays unconstrained ('any').
    return out, any(q != 'override' for q in corners)


def _local(quals):
    return {_low(n): v for n, v in quals}


def _resolve_one(decl, parent, qdecls):
    corner = False
    view = {'name': decl['name'], 'super': decl.get('super'), 'quals': {}, 'props': {}, 'meths': {}}
    view['quals'], c = merge_quals(parent['quals'] if parent else {}, _local(decl.get('quals', [])),
                                   True, qdecls)
    corner |= c
    for kind, dkey in (('props', 'props'), ('meths', 'meths')):
        inherited = parent[kind] if parent else {}
        declared = {}
        for d in decl.get(dkey, []):
            declared[_low(d['name'])] = d
        out = view[kind]
        for key, inh in inherited.items():
            if key in declared:
                continue
            # not redeclared: the ancestor's element, marked propagated
            e = {'name': inh['name'], 'origin': inh['origin'], 'status': 'inherited',
                 'type': inh['type'], 'any': inh['any'], 'params': {}}
            e['quals'], c = merge_quals(inh['quals'], {}, False, qdecls)
            corner |= c
            for pk, pv in inh['params'].items():
                pq, c = merge_quals(pv['quals'], {}, False, qdecls)
                corner |= c
                e['params'][pk] = {'name': pv['name'], 'type': pv['type'], 'quals': pq}
            out[key] = e
        for key, d in declared.items():
            loc = _local(d.get('quals', []))
            typ = d.get('type') if kind == 'props' else d.get('rtype')
            inh = inherited.get(key)
            if inh is None:
                e = {'name': d['name'], 'origin': decl['name'], 'status': 'new', 'type': typ,
                     'any': False, 'params': {}}
                e['quals'], c = merge_quals({}, loc, True, qdecls)
                corner |= c
                for p in d.get('params', []):
                    pq, c = merge_quals({}, _local(p.get('quals', [])), True, qdecls)
                    corner |= c
                    e['params'][_low(p['name'])] = {'name': p['name'], 'type': p['type'], 'quals': pq}
                out[key] = e
                continue
            # redeclaration of an inherited element
            ovr = loc.get('override')
            valid = isinstance(ovr, str) and _low(ovr) == key and typ == inh['type']
            e = {'name': d['name'], 'origin': inh['origin'], 'status': 'override', 'type': typ,
                 'any': inh['any'] or not valid, 'params': {}}
            if not valid:
                corner = True
            e['quals'], c = merge_quals(inh['quals'], loc, True, qdecls)
            corner |= c
            dparams = {_low(p['name']): p for p in d.get('params', [])}
            if set(dparams) != set(inh['params']):
                e['any'] = True                            # signature changed: not a valid override
                corner = True
            for pk, p in dparams.items():
                ip = inh['params'].get(pk)
                pq, c = merge_quals(ip['quals'] if ip else {}, _local(p.get('quals', [])), True, qdecls)
                corner |= c
                e['params'][pk] = {'name': p['name'], 'type': p['type'], 'quals': pq}
            out[key] = e
    view['corner'] = corner
    return view, corner


def resolve(classes, qdecls):
    """-> {classname_lower: expected full view}. Raises ValueError on a missing superclass or a
    cycle (harness error: the generator only makes forests)."""
    qdecls = {_low(k): v for k, v in qdecls.items()}
    by = {_low(c['name']): c for c in classes}
    done = {}

    def get(key, seen=()):
        if key in done:
            return done[key]
        if key in seen or key not in by:
            raise ValueError('not a forest: %r' % (key,))
        d = by[key]
        parent = get(_low(d['super']), seen + (key,)) if d.get('super') else None
        view, corner = _resolve_one(d, parent, qdecls)
        # a corner anywhere up the chain makes the views below it uncertain only where the
        # uncertain elements are inherited; that is carried by the 'any'/'optional' marks
        view['corner'] = corner or bool(parent and parent['corner'])
        done[key] = view
        return view

    for k in by:
        get(k)
    return done


# ------------------------------------------------------------------------------------------
# hierarchy

def children(classes, name):
    """direct subclasses of `name` (None: the roots), lower-cased names"""
    n = _low(name) if name is not None else None
    return sorted(_low(c['name']) for c in classes
                  if (_low(c['super']) if c.get('super') else None) == n)


def descendants(classes, name):
    """all direct and indirect subclasses of `name` (None: every class), excluding `name`"""
    out = []
    todo = children(classes, name)
    while todo:
        x = todo.pop()
        out.append(x)
        todo.extend(children(classes, x))
    return sorted(out)


def subtree(classes, name):
    return sorted(descendants(classes, name) + [_low(name)])


# ------------------------------------------------------------------------------------------
# self test (run by mc.selftest style callers and by the check at import in a cheap form)

def selftest():
    qd = {'key': {'tosubclass': True, 'overridable': False},
          'override': {'tosubclass': False, 'overridable': True},
          'd': {'tosubclass': True, 'overridable': True},
          'r': {'tosubclass': False, 'overridable': True}}
    cl = [
        {'name': 'A', 'super': None, 'quals': [['D', 'a'], ['R', 'ra']],
         'props': [{'name': 'k', 'type': 'string', 'quals': [['Key', True]]},
                   {'name': 'p', 'type': 'string', 'quals': [['D', 'pa'], ['R', 'rp']]}],
         'meths': [{'name': 'm', 'rtype': 'uint32', 'quals': [],
                    'params': [{'name': 'a', 'type': 'string', 'quals': [['D', 'aa']]}]}]},
        {'name': 'B', 'super': 'a', 'quals': [], 'props': [], 'meths': []},
        {'name': 'C', 'super': 'B', 'quals': [['D', 'c']],
         'props': [{'name': 'P', 'type': 'string', 'quals': [['Override', 'p']]}],
         'meths': [{'name': 'm', 'rtype': 'uint32', 'quals': [['Override', 'M']],
                    'params': [{'name': 'a', 'type': 'string', 'quals': []}]}]},
    ]
    v = resolve(cl, qd)
    a, b, c = v['a'], v['b'], v['c']
    assert a['props']['p']['status'] == 'new' and a['props']['p']['origin'] == 'A'
    assert b['quals'] == {'d': _q('must', 'a', True), 'r': _q('absent', 'ra', None)}, b['quals']
    assert 'r' not in c['quals']
    assert b['props']['p']['status'] == 'inherited'
    assert b['props']['p']['quals']['d'] == _q('must', 'pa', True)
    assert b['props']['p']['quals']['r']['presence'] == 'optional'
    assert b['props']['k']['quals']['key'] == _q('must', True, True)
    assert c['quals']['d'] == _q('must', 'c', None)
    cp = c['props']['p']
    assert cp['status'] == 'override' and cp['origin'] == 'A' and cp['name'] == 'P' and not cp['any']
    assert cp['quals']['d'] == _q('must', 'pa', True) and cp['quals']['r']['presence'] == 'absent'
    assert cp['quals']['override'] == _q('must', 'p', False)
    assert c['meths']['m']['params']['a']['quals']['d'] == _q('must', 'aa', True)
    assert not c['corner']
    assert children(cl, None) == ['a'] and descendants(cl, 'A') == ['b', 'c']
    assert subtree(cl, 'b') == ['b', 'c']
    bad = cl[:2] + [{'name': 'C', 'super': 'B', 'quals': [],
                     'props': [{'name': 'k', 'type': 'string',
                                'quals': [['Override', 'k'], ['Key', False]]}], 'meths': []}]
    v = resolve(bad, qd)
    assert v['c']['corner'] and v['c']['props']['k']['quals']['key']['presence'] == 'any'
    return True
