"""Independent reference reader for the DSP0004 datetime string format (no pywbem code is used).

DSP0004 (2.x, "Datetime type"):

  timestamp   yyyymmddhhmmss.mmmmmmsutc     s = '+' | '-', utc = offset from UTC in minutes (3 digits)
  interval    ddddddddhhmmss.mmmmmm:000

  * always exactly 25 characters, the decimal point is at index 14, the sign / ':' at index 21;
  * fields that are not significant are replaced by asterisks; that is only possible for an
    adjacent set of fields that starts with the least significant field (mmmmmm) and continues
    towards more significant fields; the granularity is the whole field, except for mmmmmm where
    it is the single digit; the utc field never contains asterisks; an interval ends in ':000';
  * field ranges: month 01..12, day 01..31 (and valid for the month when year and month are
    given), hour 00..23, minute 00..59, second 00..59.

parse(s) -> None if s is not such a string, else a dict
  kind       'timestamp' | 'interval'
  fields     list of ints (None for an asterisk field) without the microsecond field
  usec       the significant leading digits of the microsecond field (str, '' if all asterisks)
  precision  0-based index of the first asterisk, None without asterisks
  offset     signed UTC offset in minutes (0 for intervals)
"""
import re

_DIGITS = '0123456789'
TS_WIDTHS = (4, 2, 2, 2, 2, 2)
IV_WIDTHS = (8, 2, 2, 2)


def _is_digits(s):
    return all(c in _DIGITS for c in s)


def _days_in_month(year, month):
    if month in (1, 3, 5, 7, 8, 10, 12):
        return 31
    if month != 2:
        return 30
    if year is None:
        return 29
    leap = year % 4 == 0 and (year % 100 != 0 or year % 400 == 0)
    return 29 if leap else 28


def parse(s):
    if not isinstance(s, str) or len(s) != 25 or s[14] != '.':
        return None
    if s[21] == ':':
        kind, widths = 'interval', IV_WIDTHS
        if s[22:] != '000':
            return None
        offset = 0
    elif s[21] in '+-':
        kind, widths = 'timestamp', TS_WIDTHS
        if not _is_digits(s[22:]):
            return None
        offset = int(s[22:])
        if s[21] == '-':
            offset = -offset
    else:
        return None
    pos = 0
    fields = []
    precision = None
    for w in widths:
        f = s[pos:pos + w]
        if f == '*' * w:
            if precision is None:
                precision = pos
            fields.append(None)
        elif _is_digits(f) and precision is None:
            fields.append(int(f))
        else:
            return None
        pos += w
    if pos != 14:
        return None
    us = s[15:21]
    usec = us.rstrip('*')
    if not _is_digits(usec):
        return None
    if precision is not None and usec != '':
        return None                     # a more significant field is '*', so mmmmmm must be too
    if precision is None and len(usec) < 6:
        precision = 15 + len(usec)
    # field ranges
    if kind == 'timestamp':
        year, month, day, hour, minute, second = fields
        if month is not None and not 1 <= month <= 12:
            return None
        if day is not None and not 1 <= day <= _days_in_month(year, month):
            return None
    else:
        _, hour, minute, second = fields
    if hour is not None and hour > 23:
        return None
    if minute is not None and minute > 59:
        return None
    if second is not None and second > 59:
        return None
    return dict(kind=kind, fields=fields, usec=usec, precision=precision, offset=offset)


def _regexp():
    """the same syntax (without the field ranges) as one regular expression, built from the rule
    'digits up to some field boundary, asterisks from there on'"""
    def bodies(widths):
        alts = []
        for n in range(len(widths) + 1):            # n leading fields are digits
            if n == len(widths):
                head = ''.join(r'\d{%d}' % w for w in widths)
                for k in range(7):                  # k significant microsecond digits
                    alts.append(head + r'\.' + r'\d{%d}' % k + r'\*{%d}' % (6 - k))
            else:
                head = ''.join(r'\d{%d}' % w for w in widths[:n])
                stars = sum(widths[n:])
                alts.append(head + r'\*{%d}' % stars + r'\.' + r'\*{6}')
        return '(?:' + '|'.join(alts) + ')'
    return re.compile('^(?:' + bodies(TS_WIDTHS) + r'[+-]\d{3}|' + bodies(IV_WIDTHS) + ':000)$',
                      re.ASCII)


SYNTAX = _regexp()


def selftest():
    """small self-consistency test of the two formulations (raises AssertionError)"""
    good = ['20140924193040.654321+120', '00010101000000.000000-000', '99991231235959.999999-999',
            '20000229000000.000000+999', '2014092419****.******+000', '**************.******+000',
            '20140924193040.6*****+000', '20140924193040.******+000', '2014**********.******-060',
            '00000000000000.000000:000', '99999999235959.999999:000', '**************.******:000',
            '00000001******.******:000', '000000011325**.******:000', '00000183132542.23456*:000']
    bad_syntax = ['20140924193040.654321+12', '20140924193040.654321+1200',
                  '20140924193040,654321+120', '20140924193040.654321|120',
                  '20140924193040.654321 120', '20140924193040.654321:120',
                  '20140924193040.654321:001', '2014092419304*.******+000',
                  '20140924193040.*54321+000', '20140924193040.6*4321+000',
                  '201409241930**.000000+000', '2014092419**40.******+000',
                  '20140924193040.654321+1*0', '********000000.000000:000',
                  '0000000*******.******:000', '\u0662014092419304\u0660.654321+120', '']
    bad_range = ['20141324193040.654321+000', '20140931193040.654321+000',
                 '19000229000000.000000+000', '20140924243040.654321+000',
                 '20140924196040.654321+000', '20140924193060.654321+000',
                 '20140024193040.654321+000', '20140900193040.654321+000',
                 '00000001240000.000000:000', '00000001006000.000000:000']
    for s in good:
        assert parse(s) is not None, s
        assert SYNTAX.match(s), s
    for s in bad_syntax:
        assert parse(s) is None, s
        assert not SYNTAX.match(s), s
    for s in bad_range:
        assert parse(s) is None, s
        assert SYNTAX.match(s), s
    assert parse(None) is None and parse(5) is None
    assert parse('20140924193040.654***-060') == dict(
        kind='timestamp', fields=[2014, 9, 24, 19, 30, 40], usec='654', precision=18, offset=-60)
    assert parse('000000011325**.******:000') == dict(
        kind='interval', fields=[1, 13, 25, None], usec='', precision=12, offset=0)
    assert parse('20240229235959.999999+999')['precision'] is None
    assert parse('20140924193040.******+000')['precision'] == 15
    return True
