"""Reference model of the mock server's instance store (C10).

Deliberately boring and independent of pywbem: nothing is imported from it.  The model works on the
JSON event specifications of checks/c10_instance_store.py (plain lists / dicts / strings) and on
plain "views" the check derives from what the real connection returned.

State
    data : dict  key -> {lower-case property name: (type, is_array, value)}
    key  = (namespace.lower(), creation class.lower(), frozenset((key name.lower(), key value)))
    key values: ('s', str) | ('i', int) | ('b', bool) | ('n', None) |
                ('r', (namespace.lower() or None, class.lower(), frozenset(...)))   nested reference
    property values: scalars as str/int/bool, datetime as its string, arrays as tuples, references
    as the ('r', ...) form above, NULL as None.  ANY marks a value the documentation leaves open.

Names (namespace, class, property, key) compare case-insensitively, key VALUES exactly, the order
of keys does not matter.  The schema (class tree) is fixed per world and never changes.

Every operation is a pure function  expect_*(spec) -> Exp  that lists the ACCEPTABLE outcomes:

    Exp.codes    set of 'OK' / 'CIM_ERR_...' / 'LOCAL' (rejected by the client before the server is
                 called).  Several codes = the documentation does not say which one wins; any of them
                 is accepted and the case counts as trivial.
    Exp.silent   the documentation says nothing about this input: any CIM status or success is
                 accepted (an exception that is not a CIMError is still a complaint of the check)
    Exp.precond  the precondition class the model sees (goes into violation signatures)
    Exp.data     the state after the operation IF it succeeds (None: unchanged)
    Exp.result   the expected result if it succeeds (reads: list of (key, visible names); create: key)

Documented situations (pywbem_mock provider docstrings, docs/mockwbemserver.rst, the
WBEMConnection operation docstrings):

  all            namespace not in the repository                      CIM_ERR_INVALID_NAMESPACE
  Create         creation class not in the namespace                  CIM_ERR_INVALID_CLASS
                 property not exposed by the class / type or array-ness differs /
                 key property missing / association end point does not exist
                                                                      CIM_ERR_INVALID_PARAMETER
                 instance with that path exists                       CIM_ERR_ALREADY_EXISTS
  Modify         class names of instance and path differ, PropertyList names a property the class
                 does not expose, property not exposed / wrongly typed, key property value
                 changed                                              CIM_ERR_INVALID_PARAMETER
                 class missing                                        CIM_ERR_INVALID_CLASS
                 instance missing                                     CIM_ERR_NOT_FOUND
  Delete, Get    class missing CIM_ERR_INVALID_CLASS, instance missing CIM_ERR_NOT_FOUND
  Enumerate*     class missing                                        CIM_ERR_INVALID_CLASS

  namespace < class < instance is the order DSP0200 itself gives (NOT_FOUND = "class exists, instance
  does not"), all other combinations of simultaneously applicable codes are accepted in any order.
"""

OK = 'OK'
LOCAL = 'LOCAL'
INVNS = 'CIM_ERR_INVALID_NAMESPACE'
INVCLS = 'CIM_ERR_INVALID_CLASS'
INVPAR = 'CIM_ERR_INVALID_PARAMETER'
EXISTS = 'CIM_ERR_ALREADY_EXISTS'
NOTFOUND = 'CIM_ERR_NOT_FOUND'
ANY = '\x00any'          # compared with ==: the state is pickled and unpickled

INT_TYPES = ('uint8', 'uint16', 'uint32', 'uint64', 'sint8', 'sint16', 'sint32', 'sint64')


class PropDecl:
    def __init__(self, name, type, is_array=False, key=False, default=None, has_default=False):
        self.name = name
        self.type = type
        self.is_array = is_array
        self.key = key
        self.default = default           # normalised value
        self.has_default = has_default   # a default is declared in the class


class ClassDecl:
    def __init__(self, name, superclass=None, props=(), assoc=False):
        self.name = name
        self.superclass = superclass
        self.props = list(props)
        self.assoc = assoc


class Schema:
    """namespaces -> classes; never changes"""

    def __init__(self, namespaces, default_ns):
        # namespaces: {name: [ClassDecl, ...]}
        self.names = {ns.lower(): ns for ns in namespaces}
        self.classes = {ns.lower(): {c.name.lower(): c for c in decls}
                        for ns, decls in namespaces.items()}
        self.default_ns = default_ns

    def ns(self, name):
        """lower-case namespace key, or None if it does not exist (slashes at the ends are ignored)"""
        n = name.strip('/').lower()
        return n if n in self.classes else None

    def cls(self, ns_l, name):
        return self.classes[ns_l].get(name.lower())

    def exposed(self, ns_l, name):
        """{lower name: PropDecl} of all properties the class exposes (inherited ones included)"""
        chain = []
        c = self.cls(ns_l, name)
        while c is not None:
            chain.append(c)
            c = self.cls(ns_l, c.superclass) if c.superclass else None
        out = {}
        for c in reversed(chain):
            for p in c.props:
                out[p.name.lower()] = p
        return out

    def family(self, ns_l, name):
        """lower-case names of the class and all its direct and indirect subclasses"""
        out = {name.lower()}
        grew = True
        while grew:
            grew = False
            for c in self.classes[ns_l].values():
                if c.superclass and c.superclass.lower() in out and c.name.lower() not in out:
                    out.add(c.name.lower())
                    grew = True
        return out

    def roots(self, ns_l):
        return sorted(c.name for c in self.classes[ns_l].values() if not c.superclass)

    def declared_names(self, ns_l):
        """every name as declared (for the 'cased' feature of precondition classes)"""
        out = {self.names[ns_l]}
        for c in self.classes[ns_l].values():
            out.add(c.name)
            for p in c.props:
                out.add(p.name)
        return out


class Exp:
    def __init__(self, codes, precond, data=None, result=None, silent=False):
        self.codes = frozenset(codes)
        self.precond = precond
        self.data = data
        self.result = result
        self.silent = silent

    @property
    def determined(self):
        return len(self.codes) == 1 and not self.silent


# ------------------------------------------------------------------------------------------
# normalisation of event specifications (plain JSON data)

def key_value(ktype, v):
    if v is None:
        return ('n', None)
    if ktype == 'reference':
        return ('r', path_key(v, None, nested=True))
    if ktype == 'boolean':
        return ('b', bool(v))
    if ktype == 'string' or ktype == 'datetime':
        return ('s', v)
    return ('i', int(v))            # 'int' (untyped) and every intN type


def path_key(pspec, default_ns, nested=False):
    """pspec = {'cls', 'keys': [[name, ktype, value], ...], 'ns', 'host'} -> key.
    The host of the addressed path is ignored; a path that is the VALUE of a reference (nested)
    keeps its host (lower case) as a fourth element: values compare exactly."""
    ns = pspec.get('ns')
    if ns is None:
        ns = default_ns
    key = (ns.strip('/').lower() if ns is not None else None, pspec['cls'].lower(),
           frozenset((k[0].lower(), key_value(k[1], k[2])) for k in pspec['keys']))
    if nested:
        host = pspec.get('host')
        key += (host.lower() if host is not None else None,)
    return key


def prop_value(ptype, is_array, v):
    if v is None:
        return None
    if is_array:
        return tuple(prop_value(ptype, False, x) for x in v)
    if ptype == 'reference':
        return ('r', path_key(v, None, nested=True))
    if ptype in INT_TYPES:
        return int(v)
    return v


def key_of_value(ptype, v):
    """keybinding value derived from a (normalised) key property value"""
    if v is None:
        return ('n', None)
    if ptype == 'reference':
        return v
    if ptype == 'boolean':
        return ('b', v)
    if ptype in INT_TYPES:
        return ('i', v)
    return ('s', v)


def _names_of_path(pspec):
    """every name spelled in a path specification, nested reference values included"""
    out = [pspec['cls']] + [k[0] for k in pspec['keys']]
    if pspec.get('ns') is not None:
        out.append(pspec['ns'].strip('/'))
    for k in pspec['keys']:
        if k[1] == 'reference' and k[2] is not None:
            out.extend(_names_of_path(k[2]))
    return out


def _names_of_inst(inst):
    out = [inst['cls']] + [p[0] for p in inst['props']]
    for p in inst['props']:
        if p[1] == 'reference' and p[3] is not None and not p[2]:
            out.extend(_names_of_path(p[3]))
    return out


class Store:
    def __init__(self, schema):
        self.schema = schema
        self.data = {}

    # -------------------------------------------------------------- helpers
    def canon(self):
        return tuple(sorted(((k[0], k[1], tuple(sorted(k[2], key=repr))),
                             tuple(sorted(v.items(), key=repr))) for k, v in self.data.items()))

    def _cased(self, ns_l, names):
        """does the request spell a declared name in another lexical case?"""
        if ns_l is None:
            return False
        decl = self.schema.declared_names(ns_l)
        low = {d.lower() for d in decl}
        return any(n not in decl and n.lower() in low for n in names)

    @staticmethod
    def _pre(conds, feats):
        return ','.join(sorted(conds) + sorted(feats))

    def copies_of(self, key):
        """keys of all copies of a (possibly multi-namespace) association instance: the same
        class and keybindings in every namespace named by one of its reference properties"""
        entry = self.data.get(key)
        if entry is None:
            return [key]
        nss = {key[0]}
        for t, _a, v in entry.values():
            if t == 'reference' and v is not None and v != ANY and v[1][0] is not None:
                nss.add(v[1][0])
        return [k for k in ((ns, key[1], key[2]) for ns in sorted(nss)) if k in self.data]

    def _check_props(self, ns_l, exposed, props, conds):
        """type-level validation of the properties of an instance specification -> set of names
        (lower case) that are bad"""
        bad = set()
        for name, ptype, is_array, _v in props:
            d = exposed.get(name.lower())
            if d is None:
                conds.add('undeclared-property')
                bad.add(name.lower())
            elif ptype != d.type:
                conds.add('wrong-type')
                bad.add(name.lower())
            elif bool(is_array) != bool(d.is_array):
                conds.add('wrong-arrayness')
                bad.add(name.lower())
        return bad

    # -------------------------------------------------------------- CreateInstance
    def expect_create(self, ev):
        inst = ev['inst']
        ns = ev.get('ns')
        names = _names_of_inst(inst)
        if ns is None and inst.get('path') and inst['path'].get('ns') is not None:
            ns = inst['path']['ns']
        if ns is None:
            ns = self.schema.default_ns
        else:
            names.append(ns.strip('/'))
        ns_l = self.schema.ns(ns)
        if ns_l is None:
            return Exp({INVNS}, 'ns-unknown')
        feats = set()
        if self._cased(ns_l, names):
            feats.add('cased')
        if inst.get('path'):
            feats.add('with-path')
        if inst.get('quals'):
            feats.add('with-qualifiers')
        cd = self.schema.cls(ns_l, inst['cls'])
        if cd is None:
            return Exp({INVCLS}, self._pre({'class-unknown'}, feats))
        exposed = self.schema.exposed(ns_l, inst['cls'])
        conds = set()
        codes = set()
        silent = False
        if self._check_props(ns_l, exposed, inst['props'], conds):
            codes.add(INVPAR)
        given = {p[0].lower(): p for p in inst['props']}
        keyprops = [d for d in exposed.values() if d.key]
        missing = [d for d in keyprops if d.name.lower() not in given]
        if missing:
            conds.add('missing-key')
            codes.add(INVPAR)
        entry = {}
        for name, ptype, is_array, v in inst['props']:
            entry[name.lower()] = (ptype, bool(is_array), prop_value(ptype, is_array, v))
        newdata = None
        result = None
        if not missing and not codes:
            if any(entry[d.name.lower()][2] is None for d in keyprops):
                conds.add('null-key')
                silent = True
            key = (ns_l, cd.name.lower(),
                   frozenset((d.name.lower(), key_of_value(d.type, entry[d.name.lower()][2]))
                             for d in keyprops))
            nss = {ns_l}
            if cd.assoc:
                for name, ptype, _a, v in inst['props']:
                    if ptype != 'reference' or v is None:
                        continue
                    if v.get('host'):
                        conds.add('reference-with-host')
                        silent = True
                    rk = path_key(v, None)
                    if rk[0] is None:
                        conds.add('reference-without-namespace')
                        silent = True
                        continue
                    if rk not in self.data:
                        conds.add('dangling-reference')
                        codes.add(INVPAR)
                    if rk[0] != ns_l:
                        nss.add(rk[0])
                        feats.add('multi-namespace')
            for n in sorted(nss):
                if n not in self.schema.classes:
                    continue                      # covered by dangling-reference
                if self.schema.cls(n, cd.name) is None:
                    conds.add('class-unknown-in-referenced-namespace')
                    codes.add(INVCLS)
                if (n, key[1], key[2]) in self.data:
                    conds.add('exists')
                    codes.add(EXISTS)
            if not codes:
                newdata = dict(self.data)
                for n in sorted(nss):
                    newdata[(n, key[1], key[2])] = dict(entry)
                result = key
        if not codes:
            codes.add(OK)
        return Exp(codes, self._pre(conds or {'valid'}, feats), newdata, result, silent)

    # -------------------------------------------------------------- ModifyInstance
    def expect_modify(self, ev):
        inst = ev['inst']
        pl = ev.get('pl')
        path = inst.get('path')
        if path is None:
            return Exp({LOCAL}, 'no-path')
        names = _names_of_inst(inst) + _names_of_path(path) + list(pl or [])
        ns = path.get('ns')
        if ns is None:
            ns = self.schema.default_ns
        ns_l = self.schema.ns(ns)
        feats = set()
        if pl is not None:
            feats.add('pl-empty' if not pl else 'pl')
        if path.get('host'):
            feats.add('host')
        mismatch = inst['cls'].lower() != path['cls'].lower()
        if ns_l is None:
            codes = {INVNS} | ({INVPAR} if mismatch else set())
            return Exp(codes, self._pre({'ns-unknown'} | ({'classname-mismatch'} if mismatch else set()),
                                        feats))
        if self._cased(ns_l, names):
            feats.add('cased')
        if mismatch:
            # the documented requirement is violated; what else the server notices first is open
            codes = {INVPAR}
            for cname in (inst['cls'], path['cls']):
                if self.schema.cls(ns_l, cname) is None:
                    codes.add(INVCLS)
            if path_key(path, ns) not in self.data:
                codes.add(NOTFOUND)
            return Exp(codes, self._pre({'classname-mismatch'}, feats))
        cd = self.schema.cls(ns_l, inst['cls'])
        if cd is None:
            return Exp({INVCLS}, self._pre({'class-unknown'}, feats))
        exposed = self.schema.exposed(ns_l, inst['cls'])
        key = path_key(path, ns)
        stored = self.data.get(key)
        conds = set()
        must = set()
        opt = set()
        bad = self._check_props(ns_l, exposed, inst['props'], conds)
        designated = None if pl is None else {n.lower() for n in pl}
        if designated is not None and any(n not in exposed for n in designated):
            conds.add('undeclared-in-propertylist')
            must.add(INVPAR)
        for n in bad:
            if designated is None or n in designated:
                must.add(INVPAR)
            else:
                conds.add('bad-property-not-designated')
                opt.add(INVPAR)
        if stored is None:
            conds.add('not-found')
            return Exp({NOTFOUND} | must | opt, self._pre(conds, feats))
        new = dict(stored)
        silent = False
        for name, ptype, is_array, v in inst['props']:
            n = name.lower()
            if n in bad:
                continue
            d = exposed[n]
            val = prop_value(ptype, is_array, v)
            on = designated is None or n in designated
            if d.key:
                cur = stored.get(n)
                if cur is None or cur[2] == ANY:
                    continue
                if val != cur[2]:
                    if on:
                        conds.add('key-value-changed')
                        must.add(INVPAR)
                    else:
                        conds.add('key-value-changed-not-designated')
                        opt.add(INVPAR)
                continue
            if on:
                if cd.assoc and ptype == 'reference':
                    conds.add('reference-modified')
                    silent = True
                new[n] = (ptype, bool(is_array), val)
        if designated is not None:
            given = {p[0].lower() for p in inst['props']}
            for n in sorted(designated):
                if n in exposed and n not in given:
                    d = exposed[n]
                    if d.key:
                        # designated key property without a value: reject, or leave the key alone
                        conds.add('key-designated-without-value')
                        opt.add(INVPAR)
                    elif d.has_default:
                        conds.add('default-applied')
                        new[n] = (d.type, d.is_array, d.default)
                    else:
                        conds.add('designated-without-value-or-default')
                        new[n] = (d.type, d.is_array, ANY)
        if must:
            return Exp(must | opt, self._pre(conds, feats))
        newdata = dict(self.data)
        copies = self.copies_of(key)
        if len(copies) > 1:
            feats.add('multi-namespace')
        for k in copies:
            newdata[k] = dict(new)
        codes = {OK} | opt
        return Exp(codes, self._pre(conds or {'found'}, feats), newdata, None, silent)

    # -------------------------------------------------------------- DeleteInstance / GetInstance
    def _locate(self, path, extra_names=(), feats=None):
        names = _names_of_path(path) + list(extra_names)
        ns = path.get('ns')
        if ns is None:
            ns = self.schema.default_ns
        ns_l = self.schema.ns(ns)
        feats = set() if feats is None else feats
        if path.get('host'):
            feats.add('host')
        if ns_l is None:
            return None, None, None, Exp({INVNS}, self._pre({'ns-unknown'}, feats)), feats
        if self._cased(ns_l, names):
            feats.add('cased')
        cd = self.schema.cls(ns_l, path['cls'])
        if cd is None:
            return ns_l, None, None, Exp({INVCLS}, self._pre({'class-unknown'}, feats)), feats
        key = path_key(path, ns)
        if key not in self.data:
            return ns_l, cd, key, Exp({NOTFOUND}, self._pre({'not-found'}, feats)), feats
        return ns_l, cd, key, None, feats

    def expect_delete(self, ev):
        ns_l, cd, key, err, feats = self._locate(ev['path'])
        if err is not None:
            return err
        newdata = dict(self.data)
        copies = self.copies_of(key)
        if len(copies) > 1:
            feats.add('multi-namespace')
        for k in copies:
            del newdata[k]
        return Exp({OK}, self._pre({'found'}, feats), newdata)

    @staticmethod
    def _read_feats(params, feats):
        pl = params.get('PropertyList')
        if pl is not None:
            feats.add('pl-empty' if not pl else 'pl')
        if params.get('LocalOnly') is not None:
            feats.add('localonly')
        if params.get('IncludeClassOrigin') is not None:
            feats.add('classorigin')
        if params.get('IncludeQualifiers') is not None:
            feats.add('qualifiers')
        if params.get('DeepInheritance') is not None:
            feats.add('deep' if params['DeepInheritance'] else 'not-deep')

    def visible(self, ns_l, creation_class, params, request_class=None):
        """lower-case names of the properties a read may return for an instance"""
        vis = set(self.schema.exposed(ns_l, creation_class))
        pl = params.get('PropertyList')
        if pl is not None:
            vis &= {n.lower() for n in pl}
        if request_class is not None and params.get('DeepInheritance') is False:
            vis &= set(self.schema.exposed(ns_l, request_class))
        return vis

    def expect_get(self, ev):
        params = ev.get('params') or {}
        feats = set()
        self._read_feats(params, feats)
        ns_l, cd, key, err, feats = self._locate(ev['path'], params.get('PropertyList') or (), feats)
        if err is not None:
            return err
        return Exp({OK}, self._pre({'found'}, feats), None,
                   [(key, frozenset(self.visible(ns_l, key[1], params)))])

    # -------------------------------------------------------------- EnumerateInstances / Names
    def expect_enum(self, ev, with_props):
        params = ev.get('params') or {}
        ns = ev.get('ns')
        names = [ev['cls']] + list(params.get('PropertyList') or ())
        if ns is None:
            ns = self.schema.default_ns
        else:
            names.append(ns.strip('/'))
        ns_l = self.schema.ns(ns)
        feats = set()
        self._read_feats(params, feats)
        if ns_l is None:
            return Exp({INVNS}, self._pre({'ns-unknown'}, feats))
        if self._cased(ns_l, names):
            feats.add('cased')
        if self.schema.cls(ns_l, ev['cls']) is None:
            return Exp({INVCLS}, self._pre({'class-unknown'}, feats))
        fam = self.schema.family(ns_l, ev['cls'])
        res = []
        sub = False
        for key in self.data:
            if key[0] == ns_l and key[1] in fam:
                if key[1] != ev['cls'].lower():
                    sub = True
                vis = frozenset(self.visible(ns_l, key[1], params, ev['cls'])) if with_props else None
                res.append((key, vis))
        cond = 'empty' if not res else 'with-subclass-instances' if sub else 'instances'
        return Exp({OK}, self._pre({cond}, feats), None, res)

    # -------------------------------------------------------------- comparing what was read
    def compare_instance(self, key, vis, obs_props):
        """obs_props {lower name: (type, is_array, value)} of ONE returned instance against the
        model entry `key`, visible names `vis` -> list of (what, expected, observed)"""
        out = []
        entry = self.data[key]
        exposed = self.schema.exposed(key[0], key[1])
        for n in sorted(obs_props):
            if n not in vis:
                out.append(('unexpected-property', 'only %s' % sorted(vis), '%s=%r' % (n, obs_props[n])))
        for n in sorted(vis):
            m = entry.get(n)
            o = obs_props.get(n)
            if m is not None and m[2] == ANY:
                continue
            if m is None or m[2] is None:
                # never set / NULL: absent, NULL, or (never set) the declared class default
                if o is None or o[2] is None:
                    continue
                d = exposed[n]
                if m is None and (o[0], o[1], o[2]) == (d.type, d.is_array, d.default):
                    continue
                out.append(('value-differs', '%s NULL/unset' % n, '%s=%r' % (n, o)))
                continue
            if o is None or o[2] is None:
                out.append(('property-missing', '%s=%r' % (n, m), '%s absent or NULL' % n))
            elif (o[0], bool(o[1]), o[2]) != (m[0], bool(m[1]), m[2]):
                out.append(('value-differs', '%s=%r' % (n, m), '%s=%r' % (n, o)))
        return out

    def compare_result(self, expected, observed):
        """expected [(key, vis)], observed [(key, props or None)] as multisets
        -> list of (what, expected, observed)"""
        out = []
        exp = {}
        for key, vis in expected:
            exp[key] = vis
        seen = set()
        for key, props in observed:
            if key in seen:
                out.append(('instance-twice', 'each instance once', show_key(key)))
                continue
            seen.add(key)
            if key not in exp:
                out.append(('instance-unexpected', sorted(show_key(k) for k in exp), show_key(key)))
                continue
            if props is not None and exp[key] is not None:
                out.extend(self.compare_instance(key, exp[key], props))
        for key in exp:
            if key not in seen:
                out.append(('instance-missing', show_key(key), sorted(show_key(k) for k in seen)))
        return out


def show_key(key):
    if key is None:
        return 'None'

    def val(v):
        if v[0] == 'r':
            return '(' + show_key(v[1]) + (('@' + v[1][3]) if v[1][3] else '') + ')'
        return '%s:%r' % v
    keys = ','.join('%s=%s' % (n, val(v)) for n, v in sorted(key[2], key=repr))
    return '%s:%s.%s' % (key[0], key[1], keys)
