"""Reference model of the DSP0004 ValueMap/Values semantics for integer-typed elements (C20).

Deliberately boring and independent of pywbem (nothing is imported from it, no regular
expressions). It answers four questions about a (ValueMap, Values, values_default, type) tuple:

  build(...)            the tuple is malformed (raises Reject) or yields a Model
  Model.accept(v)       which Values strings are acceptable answers for tovalues(v)
  Model.claimers(v)     which Values strings belong to *any* entry claiming v (overlaps are not
                        defined by DSP0004, so any claiming entry is an acceptable owner)
  Model.entries         the entries in qualifier order with their value / range

Semantics implemented (the C20 statement, which follows DSP0004 5.6.3.55 and the pywbem docs):

  * integer literals per DSP0004 ANNEX A:
        binaryValue  = [+-] 1*(0|1) (b|B)
        octalValue   = [+-] "0" 1*(0..7)
        decimalValue = [+-] ( (1..9) *(0..9) | "0" )
        hexValue     = [+-] ("0x"|"0X") 1*hexDigit
  * an entry is a literal, a range "lo..hi" with either side optional, or the unclaimed marker ".."
  * an omitted lower bound is the previous entry's upper bound + 1, or the type minimum for the
    first entry; an omitted upper bound is the next entry's lower bound - 1, or the type maximum
    for the last entry
  * tovalues(v): an entry with exactly that value, else an enclosing range, else the unclaimed
    entry, else ValueError; within one of these levels any claiming entry is acceptable
  * no ValueMap: the entries are 0, 1, 2, ... (DSP0004 default)
  * a size mismatch is malformed unless values_default is given: then Values is padded with the
    default at the end, or surplus Values items are dropped

Where the statement is silent the model does not decide; it marks the entry `loose`:
  - an omitted bound whose neighbour is the unclaimed marker, or a range whose facing bound is
    itself omitted (mutual dependency, e.g. "5..", "..9"), or a neighbour whose facing bound lies
    outside the type
  - ranges that come out empty (lo > hi), e.g. "4..2" or "5", "..2"
A loose entry *must* claim nothing and *may* claim what its DSP0004 literal reading claims
("..9" = everything up to 9). A model with a loose entry, an entry outside the type's value range,
overlapping entries or several unclaimed markers is `silent`: rejecting it with
ModelError/ValueError is as acceptable as accepting it.
"""

TYPE_LIMITS = {
    'uint8': (0, 2 ** 8 - 1), 'uint16': (0, 2 ** 16 - 1),
    'uint32': (0, 2 ** 32 - 1), 'uint64': (0, 2 ** 64 - 1),
    'sint8': (-2 ** 7, 2 ** 7 - 1), 'sint16': (-2 ** 15, 2 ** 15 - 1),
    'sint32': (-2 ** 31, 2 ** 31 - 1), 'sint64': (-2 ** 63, 2 ** 63 - 1),
}

_DIGITS = {'0': 0, '1': 1, '2': 2, '3': 3, '4': 4, '5': 5, '6': 6, '7': 7, '8': 8, '9': 9,
           'a': 10, 'b': 11, 'c': 12, 'd': 13, 'e': 14, 'f': 15,
           'A': 10, 'B': 11, 'C': 12, 'D': 13, 'E': 14, 'F': 15}


class Reject(Exception):
    """the qualifier pair is malformed; .reason is one of
    'no-values' 'not-integer-type' 'bad-entry' 'size-mismatch' 'null-values' 'null-valuemap'"""

    def __init__(self, reason):
        Exception.__init__(self, reason)
        self.reason = reason


def _number(digits, base):
    """digits: non-empty string; -> int or None if a digit is not valid for the base"""
    if digits == '':
        return None
    n = 0
    for ch in digits:
        d = _DIGITS.get(ch)
        if d is None or d >= base:
            return None
        n = n * base + d
    return n


def parse_integer(text):
    """DSP0004 integerValue -> (int, notation) or None. notation in 'dec' 'bin' 'oct' 'hex'."""
    if not isinstance(text, str) or text == '':
        return None
    sign = 1
    body = text
    if body[0] == '+':
        body = body[1:]
    elif body[0] == '-':
        sign = -1
        body = body[1:]
    if body == '':
        return None
    n = None
    notation = None
    if len(body) >= 3 and body[0] == '0' and body[1] in 'xX':
        n, notation = _number(body[2:], 16), 'hex'
    elif body[-1] in 'bB':
        n, notation = _number(body[:-1], 2), 'bin'
    elif body[0] == '0' and len(body) >= 2:
        n, notation = _number(body[1:], 8), 'oct'
    elif body == '0':
        n, notation = 0, 'dec'
    elif body[0] in '123456789':
        n, notation = _number(body, 10), 'dec'
    if n is None:
        return None
    return sign * n, notation


def parse_entry(text):
    """-> ('single', n, notation) | ('range', lo|None, hi|None, notation) | ('unclaimed',) | None"""
    if not isinstance(text, str):
        return None
    if text == '..':
        return ('unclaimed',)
    pos = text.find('..')
    if pos < 0:
        p = parse_integer(text)
        if p is None:
            return None
        return ('single', p[0], p[1])
    lo_text, hi_text = text[:pos], text[pos + 2:]
    lo = hi = None
    notation = 'dec'
    if lo_text != '':
        p = parse_integer(lo_text)
        if p is None:
            return None
        lo = p[0]
        if p[1] != 'dec':
            notation = p[1]
    if hi_text != '':
        p = parse_integer(hi_text)
        if p is None:
            return None
        hi = p[0]
        if p[1] != 'dec':
            notation = p[1]
    return ('range', lo, hi, notation)


class Entry:
    """one ValueMap entry with its Values string.

    kind     'single' | 'range' | 'unclaimed'
    value    the integer (single)
    lo, hi   resolved bounds (range), None where the model does not decide
    must     (lo, hi) the entry certainly claims, or None
    may      (lo, hi) the entry possibly claims (superset of must), or None
    loose    True when the statement is silent about this entry's extent
    """

    def __init__(self, index, text, kind, string):
        self.index = index
        self.text = text
        self.kind = kind
        self.string = string
        self.value = None
        self.given_lo = None
        self.given_hi = None
        self.lo = None
        self.hi = None
        self.must = None
        self.may = None
        self.loose = False

    def binary(self):
        """the expected items()/tobinary() representation, or 'ANY' when not decided:
        None (unclaimed), n (single), (lo, hi)"""
        if self.kind == 'unclaimed':
            return None
        if self.kind == 'single':
            return self.value
        if self.loose or self.lo is None or self.hi is None:
            return 'ANY'
        return (self.lo, self.hi)


def _inside(v, rng):
    return rng is not None and rng[0] <= v <= rng[1]


class Model:
    def __init__(self, entries, limits):
        self.entries = entries
        self.tmin, self.tmax = limits
        self.unclaimed = [e for e in entries if e.kind == 'unclaimed']
        self.loose = any(e.loose for e in entries)
        self.overlap = self._has_overlap()
        self.duplicate_strings = len(set(e.string for e in entries)) != len(entries)
        out_of_type = False
        for e in entries:
            if e.kind == 'single' and not (self.tmin <= e.value <= self.tmax):
                out_of_type = True
            if e.kind == 'range':
                for b in (e.given_lo, e.given_hi):
                    if b is not None and not (self.tmin <= b <= self.tmax):
                        out_of_type = True
        self.out_of_type = out_of_type
        # rejecting is as good as accepting
        self.silent = self.loose or self.overlap or out_of_type or len(self.unclaimed) > 1
        # every answer is decided and unique
        self.clean = not self.silent and not self.duplicate_strings

    def _has_overlap(self):
        spans = []
        for e in self.entries:
            if e.kind == 'single':
                spans.append((e.value, e.value))
            elif e.kind == 'range' and e.may is not None:
                spans.append(e.may)
        spans.sort()
        for a, b in zip(spans, spans[1:]):
            if b[0] <= a[1]:
                return True
        return False

    # ---- tovalues
    def accept(self, v):
        """-> (strings, valueerror_ok, level, decided)
        strings: acceptable Values strings for tovalues(v); valueerror_ok: ValueError acceptable;
        level: 'exact' | 'range' | 'unclaimed' | 'ValueError' (the level the answer comes from);
        decided: False when a loose entry widened the answer"""
        exact = []
        degenerate = []
        rng_must = []
        rng_may = []
        for e in self.entries:
            if e.kind == 'single':
                if e.value == v:
                    exact.append(e.string)
            elif e.kind == 'range':
                if _inside(v, e.must):
                    if e.must[0] == e.must[1]:
                        degenerate.append(e.string)
                    else:
                        rng_must.append(e.string)
                if _inside(v, e.may):
                    rng_may.append(e.string)
        if exact:
            # a loose entry may just as well come out as the single value v (e.g. "-1", "..0" on
            # uint8 resolves to 0..0); the statement does not rank it against the literal
            loose = [e.string for e in self.entries
                     if e.kind == 'range' and e.loose and _inside(v, e.may)]
            return set(exact + degenerate + loose), False, 'exact', not loose
        if degenerate or rng_must:
            return set(rng_may), False, 'range', True
        if self.unclaimed:
            fallback, verr, level = set(e.string for e in self.unclaimed), False, 'unclaimed'
        else:
            fallback, verr, level = set(), True, 'ValueError'
        if rng_may:
            return fallback | set(rng_may), verr, level, False
        return fallback, verr, level, True

    # ---- tobinary
    def claimers(self, v):
        """Values strings of every entry that (possibly) claims v, at any level"""
        out = set()
        for e in self.entries:
            if e.kind == 'single' and e.value == v:
                out.add(e.string)
            elif e.kind == 'range' and _inside(v, e.may):
                out.add(e.string)
        return out

    def claimed_by_someone(self, v):
        for e in self.entries:
            if e.kind == 'single' and e.value == v:
                return True
            if e.kind == 'range' and (_inside(v, e.may)):
                return True
        return False

    def breakpoints(self):
        """every value at which an answer can change (bounds of all entries, +-1, type limits)"""
        pts = {self.tmin, self.tmin + 1, self.tmax - 1, self.tmax, 0, 1, -1}
        for e in self.entries:
            bs = []
            if e.kind == 'single':
                bs.append(e.value)
            elif e.kind == 'range':
                bs.extend(b for b in (e.given_lo, e.given_hi, e.lo, e.hi) if b is not None)
                for r in (e.must, e.may):
                    if r is not None:
                        bs.extend(r)
            for b in bs:
                pts.update((b - 1, b, b + 1))
        return sorted(p for p in pts if self.tmin <= p <= self.tmax)


def build(valuemap, values, values_default, typename):
    """valuemap: list of str or None (qualifier absent); values: list of str or None (absent);
    values_default: None or str; typename: CIM type name.  -> Model, or raises Reject"""
    if typename not in TYPE_LIMITS:
        raise Reject('not-integer-type')
    limits = TYPE_LIMITS[typename]
    if values is None:
        raise Reject('no-values')
    if values == 'NULL':
        raise Reject('null-values')
    if valuemap == 'NULL':
        raise Reject('null-valuemap')
    values = list(values)
    if valuemap is None:
        texts = [str(i) for i in range(len(values))]
    else:
        texts = list(valuemap)
    if len(texts) != len(values):
        if values_default is None:
            raise Reject('size-mismatch')
        if len(values) < len(texts):
            values = values + [values_default] * (len(texts) - len(values))
        else:
            values = values[:len(texts)]
    parsed = []
    for t in texts:
        p = parse_entry(t)
        if p is None:
            raise Reject('bad-entry')
        parsed.append(p)
    entries = []
    for i, p in enumerate(parsed):
        e = Entry(i, texts[i], p[0], values[i])
        if p[0] == 'single':
            e.value = p[1]
        elif p[0] == 'range':
            e.given_lo, e.given_hi = p[1], p[2]
        entries.append(e)
    tmin, tmax = limits
    for i, e in enumerate(entries):
        if e.kind != 'range':
            continue
        # lower bound
        if e.given_lo is not None:
            e.lo = e.given_lo
        elif i == 0:
            e.lo = tmin
        else:
            prev = entries[i - 1]
            facing = None
            if prev.kind == 'single':
                facing = prev.value
            elif prev.kind == 'range':
                facing = prev.given_hi
            if facing is None or not (tmin <= facing <= tmax):
                e.loose = True
            else:
                e.lo = facing + 1
        # upper bound
        if e.given_hi is not None:
            e.hi = e.given_hi
        elif i == len(entries) - 1:
            e.hi = tmax
        else:
            nxt = entries[i + 1]
            facing = None
            if nxt.kind == 'single':
                facing = nxt.value
            elif nxt.kind == 'range':
                facing = nxt.given_lo
            if facing is None or not (tmin <= facing <= tmax):
                e.loose = True
            else:
                e.hi = facing - 1
        # DSP0004 literal reading: an omitted bound reaches to the type limit
        literal = (e.given_lo if e.given_lo is not None else tmin,
                   e.given_hi if e.given_hi is not None else tmax)
        if literal[0] > literal[1]:
            literal = None
        if not e.loose and e.lo > e.hi:
            e.loose = True          # empty range: the statement does not say what it means
            if e.given_lo is not None and e.given_hi is not None:
                literal = None      # "4..2" claims nothing under any reading
        if e.loose:
            e.must = None
            e.may = literal
        else:
            e.must = (e.lo, e.hi)
            e.may = (e.lo, e.hi)
    return Model(entries, limits)


# --------------------------------------------------------------------------------------------
# self-consistency test (run by the check at import time; a failure is a harness fault)

def selftest():
    assert parse_integer('0') == (0, 'dec') and parse_integer('-0') == (0, 'dec')
    assert parse_integer('+2') == (2, 'dec') and parse_integer('-17') == (-17, 'dec')
    assert parse_integer('07') == (7, 'oct') and parse_integer('010') == (8, 'oct')
    assert parse_integer('00') == (0, 'oct') and parse_integer('-017') == (-15, 'oct')
    assert parse_integer('0101b') == (5, 'bin') and parse_integer('-1B') == (-1, 'bin')
    assert parse_integer('0x5') == (5, 'hex') and parse_integer('0XfF') == (255, 'hex')
    assert parse_integer('0x1b') == (27, 'hex') and parse_integer('0b') == (0, 'bin')
    for bad in ('', '+', '-', 'x', '08', '018', '2b', 'b', '0x', '0xg', '1 ', ' 1', '5\n', '1.',
                '1e3', '0x-1', '--1', '+-1', '١', '12a', None, 5):
        assert parse_integer(bad) is None, bad
    assert parse_entry('..') == ('unclaimed',)
    assert parse_entry('2..4') == ('range', 2, 4, 'dec')
    assert parse_entry('..0x10') == ('range', None, 16, 'hex')
    assert parse_entry('-3..') == ('range', -3, None, 'dec')
    for bad in ('1...2', '1..x', '...', '....', '1..2..3', 'x..', '.', '1.2', ''):
        assert parse_entry(bad) is None, bad
    # the example of the pywbem documentation / DSP0004
    m = build(['0', '2..4', '..6', '7..', '9', '..'],
              ['zero', 'two-four', 'five-six', 'seven-eight', 'nine', 'unclaimed'], None, 'uint16')
    want = {0: 'zero', 1: 'unclaimed', 2: 'two-four', 3: 'two-four', 4: 'two-four',
            5: 'five-six', 6: 'five-six', 7: 'seven-eight', 8: 'seven-eight', 9: 'nine',
            10: 'unclaimed', 11: 'unclaimed', 65535: 'unclaimed'}
    for v, s in want.items():
        assert m.accept(v)[0] == {s} and m.accept(v)[1] is False, (v, m.accept(v))
    assert [e.binary() for e in m.entries] == [0, (2, 4), (5, 6), (7, 8), 9, None]
    assert m.clean
    # DSP0004 example
    m = build(['..1', '2..40', '50', '..', '0x80..'], ['a', 'b', 'c', 'u', 'e'], None, 'uint8')
    assert m.accept(0)[0] == {'a'} and m.accept(41)[0] == {'u'} and m.accept(50)[0] == {'c'}
    assert m.accept(128)[0] == {'e'} and m.accept(255)[0] == {'e'} and m.accept(127)[0] == {'u'}
    # ".." is a neighbour without bounds: "0x80.." before it would be loose, after it is not
    assert m.entries[4].loose is False and m.entries[4].binary() == (128, 255)
    m = build(['1', '3'], ['a', 'b'], None, 'sint8')
    assert m.accept(2) == (set(), True, 'ValueError', True)
    m = build(None, ['a', 'b'], None, 'sint8')
    assert m.accept(1)[0] == {'b'} and m.accept(2)[1] is True
    m = build(['1', '5..', '..9'], ['a', 'b', 'c'], None, 'uint8')
    assert m.silent and m.entries[1].loose and m.entries[2].loose
    assert m.accept(7)[0] == {'b', 'c'} and m.accept(7)[1] is True and m.accept(7)[3] is False
    m = build(['2..4', '3'], ['r', 'x'], None, 'uint8')
    assert m.accept(3)[0] == {'x'} and m.claimers(3) == {'r', 'x'} and m.silent
    m = build(['0', '-1', '..0'], ['a', 'b', 'c'], None, 'uint8')
    assert m.accept(0)[0] == {'a', 'c'} and m.accept(0)[3] is False
    m = build(['1', '2'], ['a'], 'd', 'uint8')
    assert [e.string for e in m.entries] == ['a', 'd']
    m = build(['1'], ['a', 'b', 'c'], 'd', 'uint8')
    assert [e.string for e in m.entries] == ['a']
    for args, reason in (((['1'], ['a', 'b'], None, 'uint8'), 'size-mismatch'),
                         ((['1', '2'], ['a'], None, 'uint8'), 'size-mismatch'),
                         ((['1'], None, None, 'uint8'), 'no-values'),
                         ((['1'], ['a'], None, 'string'), 'not-integer-type'),
                         ((['08'], ['a'], None, 'uint8'), 'bad-entry'),
                         ((['1', None], ['a', 'b'], None, 'uint8'), 'bad-entry')):
        try:
            build(*args)
        except Reject as exc:
            assert exc.reason == reason, (args, exc.reason)
        else:
            raise AssertionError(args)
    return True


if __name__ == '__main__':
    selftest()
    print('refmodels.valuemap selftest ok')
