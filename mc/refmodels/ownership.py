"""Reference model for C18: which indication instance in which server belongs to whom.

Nothing here imports pywbem.  The model is a set of instance keys per server, each with an owner
tag, plus the set of servers every manager is registered with.  Keys are opaque strings made by the
check from the instance paths found in the server (`F:<Name>`, `D:<Name>` and
`S:<filter key>|<destination key>`).

    owner tag   'mgr:<manager id>'   created through that manager with owned=True
                'permanent'          created through a manager with owned=False
                'static'             pre-loaded, never created or deleted by a client
                'foreign'            created by some other client, not through a manager

The methods named like the manager's operations answer "what do the documents say happens":
they return an Expect (allowed outcome tags + the instance to be created) and, for removals,
apply the documented effect to the model.  Outcome tags:

    ok          the call returns (removals, add_server, ...)
    created     the call returns a newly created instance
    existing    the call returns an instance that is already registered (nothing created)
    ValueError  documented local refusal
    CIMError    documented refusal (client side guard or server), nothing changes

Where the documents leave a choice (a Name that is taken AND an owned destination with the same URL)
both answers are allowed.
"""

PERMANENT = 'permanent'
STATIC = 'static'
FOREIGN = 'foreign'
DEST, FILTER, SUB = 'destination', 'filter', 'subscription'
KINDS = (DEST, FILTER, SUB)


def mgr(mid):
    return 'mgr:' + mid


def subkey(fkey, dkey):
    return 'S:%s|%s' % (fkey, dkey)


class Entry:
    __slots__ = ('kind', 'owner', 'name', 'url', 'ptype', 'filt', 'dest')

    def __init__(self, kind, owner, name=None, url=None, ptype=None, filt=None, dest=None):
        self.kind = kind
        self.owner = owner
        self.name = name      # Name property (filters, destinations)
        self.url = url        # Destination property (destinations)
        self.ptype = ptype    # PersistenceType property (destinations)
        self.filt = filt      # key of the referenced filter (subscriptions)
        self.dest = dest      # key of the referenced destination (subscriptions)

    def dump(self):
        return (self.kind, self.owner, self.name, self.url, self.ptype, self.filt, self.dest)


class Expect:
    __slots__ = ('allowed', 'new', 'existing', 'note')

    def __init__(self, allowed, new=None, existing=None, note=''):
        self.allowed = tuple(allowed)
        self.new = new              # Entry to be committed under the key the server chose
        self.existing = existing    # keys of the instances an 'existing' answer may return
        self.note = note


class Ownership:
    def __init__(self, nservers):
        self.inst = [dict() for _ in range(nservers)]      # server -> {key: Entry}
        self.reg = {}                                        # manager id -> set(server)
        self.gone = [[] for _ in range(nservers)]          # keys removed through a manager (oldest first)

    # ------------------------------------------------------------------ queries
    def registered(self, mid, s):
        return s in self.reg.get(mid, ())

    def owned(self, s, mid, kind=None):
        tag = mgr(mid)
        return {k for k, e in self.inst[s].items()
                if e.owner == tag and (kind is None or e.kind == kind)}

    def keys(self, s, kind=None):
        return {k for k, e in self.inst[s].items() if kind is None or e.kind == kind}

    def entry(self, s, key):
        return self.inst[s].get(key)

    def referencing(self, s, key):
        """subscriptions referencing the filter / destination `key`"""
        return {k for k, e in self.inst[s].items()
                if e.kind == SUB and key in (e.filt, e.dest)}

    def find_sub(self, s, fkey, dkey):
        for k, e in self.inst[s].items():
            if e.kind == SUB and e.filt == fkey and e.dest == dkey:
                return k
        return None

    def name_taken(self, s, kind, name):
        for k, e in self.inst[s].items():
            if e.kind == kind and e.name == name:
                return k
        return None

    def blocked(self, s, mid):
        """owned filters/destinations of `mid` that are referenced by a subscription `mid` does not
        own: automatic removal cannot delete them (the server refuses)"""
        tag = mgr(mid)
        out = set()
        for e in self.inst[s].values():
            if e.kind == SUB and e.owner != tag:
                for ref in (e.filt, e.dest):
                    r = self.inst[s].get(ref)
                    if r is not None and r.owner == tag:
                        out.add(ref)
        return out

    def owner_class(self, s, key, mid):
        """how the instance `key` relates to manager `mid`"""
        e = self.inst[s].get(key)
        if e is None:
            return 'absent'
        if e.owner == mgr(mid):
            return 'own'
        if e.owner.startswith('mgr:'):
            return 'other-managers'
        return e.owner

    # ------------------------------------------------------------------ plain updates
    def preload(self, s, key, entry):
        self.inst[s][key] = entry

    def commit(self, s, key, entry):
        self.inst[s][key] = entry
        if key in self.gone[s]:
            self.gone[s].remove(key)

    def delete(self, s, key):
        del self.inst[s][key]
        if key not in self.gone[s]:
            self.gone[s].append(key)

    # ------------------------------------------------------------------ documented behaviour
    def add_server(self, mid, s):
        if self.registered(mid, s):
            return Expect(['ValueError'])
        self.reg.setdefault(mid, set()).add(s)
        return Expect(['ok'])

    def restart(self, mid, s):
        """a new manager object with the same id, registered with server s only"""
        self.reg[mid] = {s}
        return Expect(['ok'])

    def add_destination(self, mid, s, owned, ident, url, ptype, valid_args=True):
        """ident: destination_id (owned) / name (permanent); url: normalised URL or None if the
        URL is not acceptable; ptype: None | 'permanent' | 'transient'"""
        if not valid_args or url is None or not self.registered(mid, s):
            return Expect(['ValueError'])
        if ptype is not None and ptype.lower() not in ('permanent', 'transient'):
            return Expect(['ValueError'])
        pt = {'permanent': 2, 'transient': 3}.get((ptype or '').lower())
        if owned:
            name = 'pywbemdestination:%s:%s' % (mid, ident)
            if pt is None:
                pt = 3
        else:
            name = ident
            if pt is None:
                pt = 2      # "most WBEM servers set 2 if no value is provided"; the mock does
        allowed = []
        if self.name_taken(s, DEST, name) is not None:
            allowed.append('CIMError')
        same = []
        if owned:
            same = [k for k in sorted(self.owned(s, mid, DEST))
                    if self.inst[s][k].url == url and self.inst[s][k].ptype == pt]
            if same:
                allowed.append('existing')
        if allowed:
            if owned and ':' in ident:
                allowed.append('ValueError')   # an id the documentation forbids may always be refused
            return Expect(allowed, existing=same)
        new = Entry(DEST, mgr(mid) if owned else PERMANENT, name=name, url=url, ptype=pt)
        if owned and ':' in ident:
            # documented as not allowed, but not promised to be rejected: if the manager takes
            # the id, the destination is an owned destination like any other
            return Expect(['ValueError', 'created'], new=new)
        return Expect(['created'], new=new)

    def add_filter(self, mid, s, owned, ident, valid_args=True):
        if not valid_args or not self.registered(mid, s):
            return Expect(['ValueError'])
        if owned and ':' in ident:
            return Expect(['ValueError'])
        name = 'pywbemfilter:%s:%s' % (mid, ident) if owned else ident
        if self.name_taken(s, FILTER, name) is not None:
            return Expect(['CIMError'])
        return Expect(['created'], new=Entry(FILTER, mgr(mid) if owned else PERMANENT, name=name))

    def add_subscription(self, mid, s, fkey, dkey, owned):
        """one filter, one destination (lists are handled by the caller, one after the other)"""
        if not self.registered(mid, s):
            return Expect(['ValueError'])
        if not owned:
            if fkey in self.owned(s, mid, FILTER) or dkey in self.owned(s, mid, DEST):
                return Expect(['ValueError'])
        k = self.find_sub(s, fkey, dkey)
        if k is not None:
            if owned and self.inst[s][k].owner == mgr(mid):
                return Expect(['existing'], existing=[k])
            return Expect(['CIMError'])
        if fkey not in self.inst[s] or dkey not in self.inst[s]:
            # a subscription on an instance that is not there: the server may take it or not
            return Expect(['CIMError', 'created'],
                          new=Entry(SUB, mgr(mid) if owned else PERMANENT, filt=fkey, dest=dkey))
        return Expect(['created'],
                      new=Entry(SUB, mgr(mid) if owned else PERMANENT, filt=fkey, dest=dkey))

    def remove(self, mid, s, key):
        """remove_destinations / remove_filter / remove_subscriptions with one path"""
        if not self.registered(mid, s):
            return Expect(['ValueError'])
        e = self.inst[s].get(key)
        if e is None:
            return Expect(['CIMError'], note='absent')
        if e.kind != SUB and self.referencing(s, key):
            return Expect(['CIMError'], note='referenced')
        self.delete(s, key)
        return Expect(['ok'])

    def remove_server(self, mid, s):
        """-> Expect; with note='blocked' nothing was applied: any subset of the owned instances may
        be gone and the call fails with CIMError"""
        if not self.registered(mid, s):
            return Expect(['ValueError'])
        if self.blocked(s, mid):
            return Expect(['CIMError', 'ok'], note='blocked')
        for k in sorted(self.owned(s, mid)):
            self.delete(s, k)
        self.reg[mid].discard(s)
        return Expect(['ok'])

    def remove_all_servers(self, mid):
        servers = sorted(self.reg.get(mid, ()))
        if any(self.blocked(s, mid) for s in servers):
            return Expect(['CIMError', 'ok'], note='blocked')
        for s in servers:
            for k in sorted(self.owned(s, mid)):
                self.delete(s, k)
        self.reg[mid] = set()
        return Expect(['ok'])

    # ------------------------------------------------------------------ bookkeeping
    def canon(self, with_gone=True):
        """with_gone=False: the removed keys do not matter (no event uses them)"""
        return (tuple(tuple(sorted((k, e.dump()) for k, e in d.items())) for d in self.inst),
                tuple(sorted((m, tuple(sorted(ss))) for m, ss in self.reg.items())),
                tuple(tuple(sorted(g)) for g in self.gone) if with_gone else None)


def selftest():
    """tiny self-consistency test of the model (run by the check once per process)"""
    m = Ownership(1)
    m.preload(0, 'F:sf', Entry(FILTER, STATIC, name='sf'))
    m.preload(0, 'D:sd', Entry(DEST, STATIC, name='sd', url='http://s:1', ptype=2))
    assert m.add_filter('a', 0, True, 'f1').allowed == ('ValueError',)
    assert m.add_server('a', 0).allowed == ('ok',)
    assert m.add_server('a', 0).allowed == ('ValueError',)
    x = m.add_filter('a', 0, True, 'f1')
    assert x.allowed == ('created',) and x.new.name == 'pywbemfilter:a:f1'
    m.commit(0, 'F:pywbemfilter:a:f1', x.new)
    assert m.add_filter('a', 0, True, 'f1').allowed == ('CIMError',)
    assert m.add_filter('a', 0, True, 'x:y').allowed == ('ValueError',)
    x = m.add_destination('a', 0, True, 'd1', 'http://l:1', None)
    m.commit(0, 'D:pywbemdestination:a:d1', x.new)
    assert x.new.ptype == 3
    x = m.add_destination('a', 0, True, 'd2', 'http://l:1', None)
    assert x.allowed == ('existing',) and x.existing == ['D:pywbemdestination:a:d1']
    x = m.add_destination('a', 0, True, 'd1', 'http://l:1', None)
    assert set(x.allowed) == {'CIMError', 'existing'}
    assert m.add_destination('a', 0, True, 'd2', 'http://l:1', 'permanent').allowed == ('created',)
    assert m.add_subscription('a', 0, 'F:pywbemfilter:a:f1', 'D:sd', False).allowed == ('ValueError',)
    x = m.add_subscription('a', 0, 'F:pywbemfilter:a:f1', 'D:sd', True)
    k = subkey('F:pywbemfilter:a:f1', 'D:sd')
    m.commit(0, k, x.new)
    assert m.add_subscription('a', 0, 'F:pywbemfilter:a:f1', 'D:sd', True).allowed == ('existing',)
    assert m.remove('a', 0, 'F:pywbemfilter:a:f1').note == 'referenced'
    m.add_server('b', 0)
    assert m.add_subscription('b', 0, 'F:pywbemfilter:a:f1', 'D:sd', True).allowed == ('CIMError',)
    x = m.add_subscription('b', 0, 'F:pywbemfilter:a:f1', 'D:pywbemdestination:a:d1', False)
    m.commit(0, subkey('F:pywbemfilter:a:f1', 'D:pywbemdestination:a:d1'), x.new)
    assert m.blocked(0, 'a') == {'F:pywbemfilter:a:f1', 'D:pywbemdestination:a:d1'}
    assert m.remove_server('a', 0).note == 'blocked'
    assert m.remove('b', 0, subkey('F:pywbemfilter:a:f1', 'D:pywbemdestination:a:d1')).allowed == ('ok',)
    assert m.remove_server('a', 0).allowed == ('ok',)
    assert m.keys(0) == {'F:sf', 'D:sd'} and not m.registered('a', 0)
    assert m.owner_class(0, 'F:sf', 'a') == 'static' and m.owner_class(0, k, 'a') == 'absent'
    return True
