"""Brute-force reference model of association traversal (C13).

Deliberately boring and independent of pywbem: nothing is imported from it. The caller converts
what it read RAW from the mock repository's instance stores into plain data:

  classes   {lower-case class name: lower-case superclass name or None}      (the class world)
  insts     list of Inst(ns, key, cls, refs) -- one per stored instance that has reference
            properties; `ns` is the namespace of the store it was read from (lower case),
            `key` the canonical key of its own path (see pkey()), `cls` its creation class,
            `refs` a list of (property name, canonical key of the referenced path or None for a
            NULL reference, class name written in the referenced path or None)

Semantics (exactly the C13 statement):

  associators(x):  y != x is an associator of x  iff  some stored association instance has two
                   DIFFERENT reference properties r1 != r2 with value(r1) == x and value(r2) == y
                   such that
                       AssocClass  is None or class(instance) is AssocClass or a subclass of it
                       ResultClass is None or class(y)        is ResultClass or a subclass of it
                       Role        is None or name(r1) == Role          (case-insensitive)
                       ResultRole  is None or name(r2) == ResultRole    (case-insensitive)
                   All stores are searched (an association instance "is stored" no matter in which
                   namespace), so a missing shadow copy of a cross-namespace association shows up as
                   a difference.
  references(x):   the association instances stored in x's own namespace that have a reference
                   property r1 with value(r1) == x such that
                       ResultClass is None or class(instance) is ResultClass or a subclass of it
                       Role        is None or name(r1) == Role
  A class filter naming a class that does not exist has no subclasses, not even itself: nothing
  satisfies it. All names compare case-insensitively; key VALUES compare exactly.

Canonical path keys are strings  "<namespace>:<class>.<k1>=<v1>,<k2>=<v2>"  with namespace, class
and key names lower-cased, key names sorted, nested references in parentheses. The host is not part
of the key (the statement's object identity is namespace + class + keys).
"""
import collections

Inst = collections.namedtuple('Inst', 'ns key cls refs')


def pkey(namespace, classname, keybindings):
    """canonical key from plain data; keybindings: iterable of (name, value) where value is a str
    (already canonical for nested references: use '(' + pkey(...) + ')')"""
    kbs = sorted((str(k).lower(), v) for k, v in keybindings)
    return '%s:%s.%s' % ((namespace or '').lower(), classname.lower(),
                         ','.join('%s=%s' % kv for kv in kbs))


def subclasses(classes, name):
    """lower-case names of `name` and all its direct and indirect subclasses; empty set if the
    class does not exist"""
    if name is None:
        return None
    name = name.lower()
    if name not in classes:
        return set()
    out = {name}
    grew = True
    while grew:
        grew = False
        for c in sorted(classes):
            if c not in out and classes[c] is not None and classes[c] in out:
                out.add(c)
                grew = True
    return out


def _name_ok(flt, name):
    return flt is None or flt.lower() == name.lower()


def _class_ok(classes, flt, classname):
    if flt is None:
        return True
    if classname is None:
        return False
    return classname.lower() in subclasses(classes, flt)


def associators(classes, insts, x, assoc_class=None, result_class=None, role=None,
                result_role=None):
    """set of canonical keys of the associators of x (a canonical key)"""
    out = set()
    for inst in insts:
        if not _class_ok(classes, assoc_class, inst.cls):
            continue
        for i1, (n1, v1, _c1) in enumerate(inst.refs):
            if v1 is None or v1 != x or not _name_ok(role, n1):
                continue
            for i2, (n2, v2, c2) in enumerate(inst.refs):
                if i2 == i1 or v2 is None or v2 == x:
                    continue
                if not _name_ok(result_role, n2):
                    continue
                if not _class_ok(classes, result_class, c2):
                    continue
                out.add(v2)
    return out


def references(classes, insts, x_ns, x, result_class=None, role=None):
    """set of canonical keys of the association instances stored in namespace x_ns that
    reference x"""
    out = set()
    for inst in insts:
        if inst.ns != x_ns.lower():
            continue
        if not _class_ok(classes, result_class, inst.cls):
            continue
        for n1, v1, _c1 in inst.refs:
            if v1 is not None and v1 == x and _name_ok(role, n1):
                out.add(inst.key)
                break
    return out


def selftest():
    """small self-consistency test (run by the check at import time; cheap)"""
    classes = {'a': None, 'a1': 'a', 'b': None, 'r': None, 'r1': 'r', 'q': None, 't': None}
    a1, a2, a3, b1 = 'n:a.k=a1', 'n:a.k=a2', 'n:a1.k=a3', 'n:b.k=b1'
    insts = [
        Inst('n', 'n:r.1', 'R', [('x', a1, 'A'), ('y', b1, 'B')]),
        Inst('n', 'n:r1.2', 'R1', [('x', a3, 'A1'), ('y', b1, 'B')]),
        Inst('n', 'n:q.3', 'Q', [('l', a1, 'A'), ('r', a1, 'A')]),
        Inst('n', 'n:q.4', 'Q', [('l', a1, 'A'), ('r', a2, 'A')]),
        Inst('n', 'n:t.5', 'T', [('a', a1, 'A'), ('b', b1, 'B'), ('c', a1, 'A')]),
        Inst('n', 'n:q.6', 'Q', [('l', a2, 'A'), ('r', None, None)]),
    ]
    assert subclasses(classes, 'R') == {'r', 'r1'} and subclasses(classes, 'nosuch') == set()
    assert associators(classes, insts, a1) == {b1, a2}
    assert associators(classes, insts, a1, assoc_class='r') == {b1}
    assert associators(classes, insts, a1, assoc_class='R1') == set()
    assert associators(classes, insts, b1) == {a1, a3}
    assert associators(classes, insts, b1, result_class='A1') == {a3}
    assert associators(classes, insts, b1, result_class='a') == {a1, a3}
    assert associators(classes, insts, b1, assoc_class='R', result_class='A') == {a1, a3}
    assert associators(classes, insts, a1, role='L') == {a2}
    assert associators(classes, insts, a1, role='r') == set()
    assert associators(classes, insts, a1, role='c') == {b1}
    assert associators(classes, insts, a1, role='a', result_role='c') == set()
    assert associators(classes, insts, a2) == {a1}
    assert associators(classes, insts, a1, result_class='NoSuch') == set()
    assert references(classes, insts, 'n', a1) == {'n:r.1', 'n:q.3', 'n:q.4', 'n:t.5'}
    assert references(classes, insts, 'n', a1, role='c') == {'n:t.5'}
    assert references(classes, insts, 'n', a3, result_class='R') == {'n:r1.2'}
    assert references(classes, insts, 'm', a1) == set()
    assert references(classes, insts, 'n', a2) == {'n:q.4', 'n:q.6'}
    # laws the statement names: monotone in every filter, symmetric without filters
    nodes = [a1, a2, a3, b1]
    for x in nodes:
        base = associators(classes, insts, x)
        for kw in (dict(assoc_class='Q'), dict(result_class='A'), dict(role='l'),
                   dict(result_role='r')):
            assert associators(classes, insts, x, **kw) <= base
        for y in nodes:
            assert (y in associators(classes, insts, x)) == (x in associators(classes, insts, y))
    return True
