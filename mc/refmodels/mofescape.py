"""Reference model of DSP0004 MOF string-literal escaping, both directions (C08).

Deliberately boring and independent of pywbem (nothing imported from it, no regular expressions).

DSP0004 (ANNEX A, stringValue / escape sequences):

    stringValue   = 1*( DOUBLEQUOTE *stringChar DOUBLEQUOTE )      ; parts are concatenated
    stringChar    = "\\" escape / any UCS character except DOUBLEQUOTE and BACKSLASH
    escape        = b t n f r DOUBLEQUOTE SINGLEQUOTE BACKSLASH     -> U+0008 09 0A 0C 0D 22 27 5C
                  / ("x" / "X") 1*4hexDigit                          -> that UCS-2 code position
    charValue     = SINGLEQUOTE char16Char SINGLEQUOTE  (same escapes, SINGLEQUOTE instead of
                    DOUBLEQUOTE must be escaped)

Writing:   write(s, style, cuts, sep)  -> literal text (one or several parts) denoting s
Reading:   denoted(text)               -> the characters a (multi-part) literal text denotes
           unescape(body)              -> the characters one part body denotes
Units:     units(s)                    -> the escape units of s in the conventional full style
                                          (simple escapes, \\xHHHH for other control characters),
                                          used to tell whether a fold position is inside a unit.

Raw LF / CR are never written inside a part by this model (whether DSP0004 allows them raw is
disputed); every other character may be written raw or escaped, depending on the style.
"""

SIMPLE = {'\b': 'b', '\t': 't', '\n': 'n', '\f': 'f', '\r': 'r', '"': '"', "'": "'", '\\': '\\'}
SIMPLE_REV = {v: k for k, v in SIMPLE.items()}
HEXDIGITS = '0123456789abcdefABCDEF'

# full      simple escapes for b t n f r " ' \ and \xHHHH for the other control characters
# minimal   only " \ LF CR are escaped, everything else (TAB, U+0001, ') is written raw
# hexshort  control characters as \x + 1..4 lower-case digits (short where unambiguous)
# HEXSHORT  the same with \X and upper-case digits
# hexall    every character <= U+FFFF as \xHHHH
STYLES = ['full', 'minimal', 'hexshort', 'HEXSHORT', 'hexall']


class Malformed(ValueError):
    pass


def _hex(cp, style, next_ch):
    """hex escape of code position cp; short forms only where the next character of the same
    part cannot be read as a further hex digit"""
    x = 'X' if style == 'HEXSHORT' else 'x'
    if style in ('hexshort', 'HEXSHORT'):
        digits = ('%X' if style == 'HEXSHORT' else '%x') % cp
        if len(digits) < 4 and next_ch is not None and next_ch in HEXDIGITS:
            digits = digits.rjust(4, '0')
    else:
        digits = '%04X' % cp
    return '\\' + x + digits


def unit(ch, style='full', next_ch=None, quote='"'):
    """how character ch is written in a literal of the given style. next_ch is the *raw text*
    character that will follow in the same part (None at the end of a part)."""
    cp = ord(ch)
    if style == 'hexall':
        if cp <= 0xFFFF:
            return '\\x%04X' % cp
        return ch
    if ch == '\\':
        return '\\\\'
    if ch == quote:
        return '\\' + ch
    if ch in ('"', "'"):                      # the other quote character
        return ('\\' + ch) if style == 'full' else ch
    if ch in '\n\r':
        if style in ('hexshort', 'HEXSHORT'):
            return _hex(cp, style, next_ch)
        return '\\' + SIMPLE[ch]
    if ch in '\b\t\f':
        if style == 'minimal':
            return ch
        if style in ('hexshort', 'HEXSHORT'):
            return _hex(cp, style, next_ch)
        return '\\' + SIMPLE[ch]
    if cp < 0x20:
        if style == 'minimal':
            return ch
        return _hex(cp, style, next_ch)
    return ch


def units(s, style='full', quote='"'):
    """escape units of s, one per character (style 'full' is also what pywbem documents)"""
    return [unit(c, style, None, quote) for c in s]


def write(s, style='full', cuts=(), sep=' ', quote='"'):
    """literal text for s: parts are cut *before* the character indexes in `cuts`
    (0 < index < len(s)); an empty s is written as one empty part."""
    cuts = set(cuts)
    parts = []
    cur = []
    n = len(s)
    for i, ch in enumerate(s):
        if i in cuts and i > 0:
            parts.append(''.join(cur))
            cur = []
        # what raw text follows in the same part decides whether a short hex form is safe
        if i + 1 < n and (i + 1) not in cuts:
            nxt = unit(s[i + 1], style, None, quote)[0]
        else:
            nxt = None
        cur.append(unit(ch, style, nxt, quote))
    parts.append(''.join(cur))
    return sep.join(quote + p + quote for p in parts)


def unescape(body):
    """characters denoted by one part body (text between the quotes)"""
    out = []
    i = 0
    n = len(body)
    while i < n:
        ch = body[i]
        if ch != '\\':
            out.append(ch)
            i += 1
            continue
        i += 1
        if i >= n:
            raise Malformed('backslash at end of part')
        e = body[i]
        if e in SIMPLE_REV:
            out.append(SIMPLE_REV[e])
            i += 1
        elif e in 'xX':
            i += 1
            j = i
            while j < n and j - i < 4 and body[j] in HEXDIGITS:
                j += 1
            if j == i:
                raise Malformed('hex escape without digits')
            out.append(chr(int(body[i:j], 16)))
            i = j
        else:
            raise Malformed('unknown escape \\%s' % e)
    return ''.join(out)


def split_parts(text, quote='"'):
    """bodies of the parts of a multi-part literal text (parts separated by white space)"""
    bodies = []
    i = 0
    n = len(text)
    while i < n:
        while i < n and text[i] in ' \t\r\n':
            i += 1
        if i >= n:
            break
        if text[i] != quote:
            raise Malformed('expected opening quote at %d' % i)
        i += 1
        start = i
        while True:
            if i >= n:
                raise Malformed('unterminated part')
            if text[i] == '\\':
                i += 2
                continue
            if text[i] == quote:
                break
            i += 1
        bodies.append(text[start:i])
        i += 1
    if not bodies:
        raise Malformed('no part')
    return bodies


def denoted(text, quote='"'):
    return ''.join(unescape(b) for b in split_parts(text, quote))


def selftest():
    atoms = ['a', 'f', '1', ' ', '"', "'", '\\', '\b', '\t', '\n', '\f', '\r', '\x01', '\x1f',
             'é', '\U0001F600']
    import itertools
    n = 0
    for ln in range(0, 4):
        for tup in itertools.product(atoms, repeat=ln):
            s = ''.join(tup)
            if ln == 3 and n % 7:
                n += 1
                continue
            n += 1
            for style in STYLES:
                for cuts in [()] + [(i,) for i in range(1, len(s))] + [tuple(range(1, len(s)))]:
                    for sep in (' ', '\n   '):
                        t = write(s, style, cuts, sep)
                        assert denoted(t) == s, (s, style, cuts, t)
                        assert len(split_parts(t)) == len(set(cuts)) + 1
    assert ''.join(units('a"\x01\n')) == 'a\\"\\x0001\\n'
    assert unescape('\\x1a') == '\x1a' and unescape('\\x0001a') == '\x01a'
    assert write('\x01a', 'hexshort') == '"\\x0001a"' and write('\x01g', 'hexshort') == '"\\x1g"'
    assert write('\x01a', 'hexshort', cuts=(1,)) == '"\\x1" "a"'
    assert write("'", 'full', quote="'") == "'\\''" and denoted("'\\''", "'") == "'"
    for bad in ('\\', '\\q', '\\x', '\\xg'):
        try:
            unescape(bad)
        except Malformed:
            continue
        raise AssertionError(bad)
    return True
