"""Object-level helpers shared by checks that reason about whole CIM objects (C05).

* build(spec)      superset of mc.domains.build: adds NocaseDict, Char16, CIMDateTime from Python
                   datetime/timedelta, qualifier declarations with ordered scopes
* canon(obj, loose) reference model of CIM object equality computed from PUBLIC attributes only
* dump(obj)        exact, order/case/type preserving rendering of the public state
* mutations(obj, mode) / apply_mutation(obj, mut)   single-mutation alphabet over public API

Extra spec forms (all JSON-able):
  ['c16', 'a']                              Char16
  ['dtd', [Y,M,D,h,m,s,us], offset|None|'tz:<minutes>']   CIMDateTime(datetime)  (None = naive,
                                            int = MinutesFromUTC, 'tz:N' = datetime.timezone)
  ['dti', days, seconds, microseconds]      CIMDateTime(timedelta)
  ['ncd', [[key, vspec], ...]]              pywbem NocaseDict from (key, value) pairs
  ['ncdk', [objspec, ...]]                  pywbem NocaseDict from objects keyed by .name
  ['qdecl', name, type, {..., 'scopes': [[name, bool], ...]}]
"""
import datetime as _dt
from fractions import Fraction

from pywbem import (CIMInstanceName, CIMClassName, CIMInstance, CIMClass, CIMProperty, CIMMethod,
                    CIMParameter, CIMQualifier, CIMQualifierDeclaration, CIMDateTime, Char16,
                    MinutesFromUTC)
from pywbem._nocasedict import NocaseDict
from pywbem._vendor.nocasedict import NocaseDict as VendorNocaseDict

from mc import domains as D
from mc.core import HarnessError

CIM_CLASSES = (CIMInstanceName, CIMClassName, CIMInstance, CIMClass, CIMProperty, CIMMethod,
               CIMParameter, CIMQualifier, CIMQualifierDeclaration)

# public attributes (the documented lists of the __eq__ docstrings == the settable properties)
ATTRS = {
    'CIMInstanceName': ['classname', 'keybindings', 'namespace', 'host'],
    'CIMClassName': ['classname', 'namespace', 'host'],
    'CIMInstance': ['classname', 'properties', 'qualifiers', 'path'],
    'CIMClass': ['classname', 'superclass', 'properties', 'methods', 'qualifiers', 'path'],
    'CIMProperty': ['name', 'value', 'type', 'class_origin', 'array_size', 'propagated',
                    'is_array', 'reference_class', 'qualifiers', 'embedded_object'],
    'CIMMethod': ['name', 'return_type', 'parameters', 'class_origin', 'propagated', 'qualifiers'],
    'CIMParameter': ['name', 'type', 'reference_class', 'is_array', 'array_size', 'qualifiers',
                     'value', 'embedded_object'],
    'CIMQualifier': ['name', 'value', 'type', 'propagated', 'overridable', 'tosubclass',
                     'toinstance', 'translatable'],
    'CIMQualifierDeclaration': ['name', 'type', 'value', 'is_array', 'array_size', 'scopes',
                                'overridable', 'tosubclass', 'toinstance', 'translatable'],
    'CIMDateTime': ['is_interval', 'datetime', 'timedelta', 'minutes_from_utc', 'precision'],
}
# attributes holding CIM names / host / namespace: lexical case is ignorable (documented per
# init parameter: "Object comparison and hash value calculation are performed case-insensitively")
NAME_ATTRS = {'classname', 'name', 'namespace', 'host', 'superclass', 'class_origin',
              'reference_class'}
# child collections whose order and key case are ignorable (statement: keybindings, properties,
# methods, parameters, qualifiers)
DICT_ATTRS = {'keybindings', 'properties', 'methods', 'parameters', 'qualifiers'}


# ------------------------------------------------------------------------------------------
# build

def _kw(kw):
    out = {}
    for k, v in (kw or {}).items():
        if k == 'qualifiers':
            out[k] = [build(q) for q in v] if v is not None else None
        elif k in ('value', 'path'):
            out[k] = build(v) if v is not None else None
        elif k == 'scopes':
            out[k] = None if v is None else NocaseDict([(a, b) for a, b in v])
        else:
            out[k] = v
    return out


def build(s):
    t = s[0]
    if t in ('n', 's', 'b', 'i', 'r', 'dt'):
        return D.build(s)
    if t == 'c16':
        return Char16(s[1])
    if t == 'dtd':
        off = s[2]
        if off is None:
            tz = None
        elif isinstance(off, str):
            tz = _dt.timezone(_dt.timedelta(minutes=int(off[3:])))
        else:
            tz = MinutesFromUTC(off)
        return CIMDateTime(_dt.datetime(*s[1], tzinfo=tz))
    if t == 'dti':
        return CIMDateTime(_dt.timedelta(days=s[1], seconds=s[2], microseconds=s[3]))
    if t == 'a':
        return [build(x) for x in s[1]]
    if t == 'ncd':
        return NocaseDict([(k, build(v)) for k, v in s[1]])
    if t == 'ncdk':
        return NocaseDict([build(v) for v in s[1]])
    if t == 'ipath':
        kbs = None if s[2] is None else [(k, build(v)) for k, v in s[2]]
        return CIMInstanceName(s[1], keybindings=kbs, namespace=s[3], host=s[4])
    if t == 'cpath':
        return CIMClassName(s[1], namespace=s[2], host=s[3])
    if t == 'qual':
        return CIMQualifier(s[1], build(s[2]), **_kw(s[3] if len(s) > 3 else None))
    if t == 'prop':
        return CIMProperty(s[1], build(s[2]), **_kw(s[3] if len(s) > 3 else None))
    if t == 'param':
        return CIMParameter(s[1], s[2], **_kw(s[3] if len(s) > 3 else None))
    if t == 'meth':
        return CIMMethod(s[1], s[2], parameters=[build(p) for p in s[3]],
                         **_kw(s[4] if len(s) > 4 else None))
    if t == 'inst':
        return CIMInstance(s[1], properties=[build(p) for p in s[2]],
                           path=build(s[3]) if s[3] is not None else None,
                           **_kw(s[4] if len(s) > 4 else None))
    if t == 'class':
        return CIMClass(s[1], properties=[build(p) for p in s[2]],
                        methods=[build(m) for m in s[3]],
                        **_kw(s[4] if len(s) > 4 else None))
    if t == 'qdecl':
        return CIMQualifierDeclaration(s[1], s[2], **_kw(s[3] if len(s) > 3 else None))
    raise ValueError('bad spec %r' % (s,))


def kind_of(obj):
    if isinstance(obj, VendorNocaseDict):
        return 'NocaseDict'
    return type(obj).__name__


# ------------------------------------------------------------------------------------------
# reference model of equality

def name_canon(s, loose):
    """strict: equal iff the documented case-insensitive comparison cannot disagree with any
    reasonable reading of 'lexical case'; loose: equal whenever some reading of 'case' merges them"""
    if s is None:
        return None
    if loose:
        return s.upper().casefold()
    return (s.lower(), s.casefold())


def has_nan(o):
    if isinstance(o, float):
        return o != o
    if isinstance(o, (list, tuple)):
        return any(has_nan(x) for x in o)
    if isinstance(o, VendorNocaseDict):
        return any(has_nan(v) for v in o.values())
    if isinstance(o, CIM_CLASSES):
        return any(has_nan(getattr(o, a)) for a in ATTRS[type(o).__name__])
    return False


def _utc_tuple(d):
    off = d.utcoffset() or _dt.timedelta(0)
    td = (d.replace(tzinfo=None) - _dt.datetime(1, 1, 1)) - off     # may leave year 1..9999
    return (td.days, td.seconds, td.microseconds)


def canon(o, loose=False):
    """hashable canonical form; two objects are expected equal iff their strict forms are equal,
    expected unequal iff their loose forms differ, unspecified in between"""
    if o is None:
        return ('none',)
    if isinstance(o, bool):
        return ('num', Fraction(int(o))) if loose else ('bool', o)
    if isinstance(o, (int, float)):
        if isinstance(o, float) and (o != o or o in (float('inf'), float('-inf'))):
            v = repr(float(o))
        else:
            v = Fraction(o)
        if loose:
            return ('num', v)
        # -0.0 == 0.0 in Python and the docs say nothing: the sign of zero is not strict either
        return (type(o).__name__, v)
    if isinstance(o, str):
        return ('str', str(o)) if loose else (type(o).__name__, str(o))
    if isinstance(o, bytes):
        return ('bytes', o)
    if isinstance(o, CIMDateTime):
        return ('CIMDateTime', o.is_interval,
                _utc_tuple(o.datetime) if o.datetime is not None else None,
                (o.timedelta.days, o.timedelta.seconds, o.timedelta.microseconds)
                if o.timedelta is not None else None,
                o.minutes_from_utc, o.precision)
    if isinstance(o, (list, tuple)):
        return ('list', tuple(canon(x, loose) for x in o))
    if isinstance(o, VendorNocaseDict):
        items = [(name_canon(k, loose), canon(v, loose)) for k, v in o.items()]
        return ('dict', tuple(sorted(items, key=repr)))
    if isinstance(o, CIM_CLASSES):
        cn = type(o).__name__
        return (cn, tuple((a, canon_attr(cn, a, getattr(o, a), loose)) for a in ATTRS[cn]))
    raise HarnessError('canon: unexpected %r' % (type(o),))


def canon_attr(cn, attr, v, loose):
    if attr in NAME_ATTRS:
        return ('name', name_canon(v, loose))
    if attr == 'scopes':
        # order and key case of scopes are not in the statement's ignorable list, but the attribute
        # is a NocaseDict whose own == ignores both: unspecified
        if loose:
            return ('scopes', tuple(sorted((k.upper(), bool(x)) for k, x in v.items())))
        return ('scopes', tuple((k, x) for k, x in v.items()))
    return canon(v, loose)


def top_diff(a, b, loose):
    """names of the top-level public attributes whose canonical forms differ"""
    ka, kb = kind_of(a), kind_of(b)
    if ka != kb:
        return ['<kind>']
    if ka == 'NocaseDict':
        ca = dict(canon(a, loose)[1])
        cb = dict(canon(b, loose)[1])
        if set(ca) != set(cb):
            return ['<keys>']
        return ['<value>'] if ca != cb else []
    if ka == 'CIMDateTime':
        out = []
        ca, cb = canon(a), canon(b)
        for i, n in ((1, 'is_interval'), (2, 'datetime'), (3, 'timedelta'),
                     (4, 'minutes_from_utc'), (5, 'precision')):
            if ca[i] != cb[i]:
                out.append(n)
        return out
    return [at for at in ATTRS[ka]
            if canon_attr(ka, at, getattr(a, at), loose) != canon_attr(ka, at, getattr(b, at), loose)]


# ------------------------------------------------------------------------------------------
# exact dump of the public state (types, order and lexical case preserved)

def dump(o):
    if o is None or isinstance(o, (bool, bytes)):
        return (type(o).__name__, o)
    if isinstance(o, float):
        return (type(o).__name__, float.__repr__(o))
    if isinstance(o, int):
        return (type(o).__name__, int(o))
    if isinstance(o, str):
        return (type(o).__name__, str(o))
    if isinstance(o, CIMDateTime):
        return canon(o) + (str(o),)
    if isinstance(o, (list, tuple)):
        return (type(o).__name__, tuple(dump(x) for x in o))
    if isinstance(o, VendorNocaseDict):
        return ('NocaseDict', tuple((dump(k), dump(v)) for k, v in o.items()))
    if isinstance(o, CIM_CLASSES):
        cn = type(o).__name__
        return (cn, tuple((a, dump(getattr(o, a))) for a in ATTRS[cn]))
    raise HarnessError('dump: unexpected %r' % (type(o),))


def dump_diff(da, db, path=''):
    """path of the first difference between two dumps (for signatures / messages)"""
    if da == db:
        return None
    if isinstance(da, tuple) and isinstance(db, tuple) and len(da) == 2 and len(db) == 2 \
            and da[0] == db[0] and isinstance(da[1], tuple) and isinstance(db[1], tuple):
        if da[0] in ATTRS:
            for (an, av), (bn, bv) in zip(da[1], db[1]):
                d = dump_diff(av, bv, path + '.' + an)
                if d:
                    return d
        if len(da[1]) != len(db[1]):
            return (path + '[len]').lstrip('.')
        for x, y in zip(da[1], db[1]):
            d = dump_diff(x, y, path + '[*]')
            if d:
                return d
    return (path or '<top>').lstrip('.')


# ------------------------------------------------------------------------------------------
# single-mutation alphabet

def _new_child(dattr, key):
    if dattr == 'keybindings':
        return 'zz-new'
    if dattr == 'properties':
        return CIMProperty(key, 'zz-new')
    if dattr == 'qualifiers':
        return CIMQualifier(key, 'zz-new')
    if dattr == 'methods':
        return CIMMethod(key, 'uint8')
    if dattr == 'parameters':
        return CIMParameter(key, 'uint8')
    if dattr == 'scopes':
        return True
    return 'zz-new'


def _alt(obj, attr):
    """a value different from the current one that the setter accepts (best effort)"""
    cur = getattr(obj, attr)
    if attr in NAME_ATTRS:
        return 'zz' if cur != 'zz' else 'zy'
    if attr in ('propagated', 'overridable', 'tosubclass', 'toinstance', 'translatable', 'is_array'):
        return (not cur) if isinstance(cur, bool) else True
    if attr == 'array_size':
        return 7 if cur != 7 else 8
    if attr in ('type', 'return_type'):
        return 'uint16' if cur != 'uint16' else 'uint8'
    if attr == 'embedded_object':
        return 'object' if cur != 'object' else 'instance'
    if attr == 'value':
        return None if cur is not None else []
    if attr in DICT_ATTRS or attr == 'scopes':
        if len(cur):
            return None
        if attr == 'scopes':
            return {'ANY': True}
        if attr == 'keybindings':
            return {'zz': 'v'}
        return [_new_child(attr, 'zz')]
    if attr == 'path':
        if cur is not None:
            return None
        return CIMInstanceName('zz') if isinstance(obj, CIMInstance) else CIMClassName('zz')
    raise HarnessError('no alternative for %s.%s' % (type(obj).__name__, attr))


def _dict_ops(d, path, dattr):
    yield [path, 'dict-add', None]
    for k in list(d.keys()):
        yield [path, 'dict-del', k]
        yield [path, 'dict-replace', k]
    if len(d):
        yield [path, 'dict-clear', None]
        yield [path, 'dict-popitem', None]


def _list_ops(lst, path):
    yield [path, 'list-append', None]
    if lst:
        yield [path, 'list-set', 0]
        yield [path, 'list-set', len(lst) - 1]
        yield [path, 'list-del', 0]
        yield [path, 'list-reverse', None]
        yield [path, 'list-clear', None]


def mutations(o, mode, path=None, level=0):
    """every single mutation of o reachable through the public API.
    mode 'shallow': re-assignment of the top-level attributes only
    mode 'middle' : additionally in-place changes of the attribute values themselves (dict and
                    list containers, the path object / a mutable value object and its containers),
                    not of the children inside the containers
    mode 'deep'   : every depth"""
    path = path or []
    if isinstance(o, VendorNocaseDict):
        if mode != 'shallow':
            dattr = path[-1] if path and isinstance(path[-1], str) else '<dict>'
            yield from _dict_ops(o, path, dattr)
            if mode == 'deep':
                for k, v in o.items():
                    yield from mutations(v, mode, path + [['key', k]], level + 1)
        return
    if isinstance(o, list):
        if mode != 'shallow':
            yield from _list_ops(o, path)
            if mode == 'deep':
                for i, v in enumerate(o):
                    yield from mutations(v, mode, path + [['idx', i]], level + 1)
        return
    if not isinstance(o, CIM_CLASSES):
        return          # immutable leaf (str, numbers, CIMDateTime, None)
    cn = type(o).__name__
    for attr in ATTRS[cn]:
        yield [path, 'set', attr]
        if mode == 'shallow':
            continue
        v = getattr(o, attr)
        sub = path + [attr]
        if isinstance(v, (VendorNocaseDict, list)):
            if mode == 'deep':
                yield from mutations(v, mode, sub, level + 1)
            elif isinstance(v, list):
                yield from _list_ops(v, sub)
                if level == 0:
                    # mutable objects as items of an array value (embedded objects, references)
                    # are "mutable types in attributes" and not among the documented exceptions
                    for i, item in enumerate(v):
                        if isinstance(item, CIM_CLASSES):
                            yield from mutations(item, 'shallow', sub + [['idx', i]], level + 1)
            else:
                yield from _dict_ops(v, sub, attr)
        elif isinstance(v, CIM_CLASSES):
            if mode == 'deep':
                yield from mutations(v, mode, sub, level + 1)
            elif level == 0:
                # the attribute value itself is a mutable object: its own attributes and its own
                # containers belong to the documented depth, their contents do not
                yield from mutations(v, 'middle', sub, level + 1)


def _navigate(o, path):
    for step in path:
        if isinstance(step, str):
            o = getattr(o, step)
        elif step[0] == 'key':
            o = o[step[1]]
        else:
            o = o[step[1]]
    return o


def apply_mutation(root, mut):
    """apply mut to root (in place). Raises ValueError/TypeError if pywbem rejects the change."""
    path, op, arg = mut
    tgt = _navigate(root, path)
    if op == 'set':
        setattr(tgt, arg, _alt(tgt, arg))
        return
    dattr = '<dict>'
    for step in reversed(path):
        if isinstance(step, str):
            dattr = step
            break
    if op == 'dict-add':
        k = 'zz_new'
        while k in tgt:
            k += '_'
        tgt[k] = _new_child(dattr, k)
    elif op == 'dict-del':
        del tgt[arg]
    elif op == 'dict-replace':
        cur = tgt[arg]
        if isinstance(cur, bool):
            tgt[arg] = not cur
        elif dattr in DICT_ATTRS and dattr != 'keybindings' and arg is not None:
            tgt[arg] = _new_child(dattr, arg)
        else:
            tgt[arg] = 'zz-new' if cur != 'zz-new' else 'zz-new2'
    elif op == 'dict-clear':
        tgt.clear()
    elif op == 'dict-popitem':
        tgt.popitem()
    elif op == 'list-append':
        tgt.append(tgt[0] if tgt else None)
    elif op == 'list-set':
        tgt[arg] = None if tgt[arg] is not None else (tgt[0] if tgt[0] is not None else 'zz')
    elif op == 'list-del':
        del tgt[arg]
    elif op == 'list-reverse':
        if len(tgt) < 2 or tgt == tgt[::-1]:
            tgt.append(None)
        else:
            tgt.reverse()
    elif op == 'list-clear':
        del tgt[:]
    else:
        raise HarnessError('unknown mutation %r' % (mut,))


def where_class(mut):
    """abstract position of a mutation: container path without keys / indexes"""
    path, op, arg = mut
    parts = []
    for step in path:
        if isinstance(step, str):
            parts.append(step)
        else:
            parts.append('[*]')
    return ''.join(('.' + p if p != '[*]' else p) for p in parts).lstrip('.') or '<top>'
