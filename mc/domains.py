"""Spec language for CIM values/objects and the shared atom alphabets.

A *spec* is JSON-able nested lists; build(spec) makes the pywbem object. Enumerators yield specs,
so every explored case can be written to a replay file and rebuilt without the explorer.

  ['n']                          None
  ['s', 'text']                  str
  ['b', True]                    bool
  ['i', 'uint8'|None, 5]         Uint8(5) | int
  ['r', 'real32'|'real64'|None, '0x1.8p+0'|'inf'|'-inf'|'nan']   RealNN | float
  ['dt', '20140924193040.654321+120']    CIMDateTime
  ['a', [spec, ...]]             list
  ['ipath', classname, [[key, spec], ...], namespace, host]
  ['cpath', classname, namespace, host]
  ['qual', name, vspec, {kwargs}]            CIMQualifier
  ['prop', name, vspec, {kwargs}]            CIMProperty     (kwargs may hold 'qualifiers': [qual specs])
  ['param', name, type, {kwargs}]            CIMParameter    (kwargs 'value': vspec, 'qualifiers')
  ['meth', name, return_type, [param specs], {kwargs}]
  ['inst', classname, [prop specs], pathspec|None, {kwargs}]
  ['class', classname, [prop specs], [meth specs], {kwargs}]  (kwargs 'path': cpath spec)
  ['qdecl', name, type, {kwargs}]            (kwargs 'value': vspec)
"""
import itertools
import struct

from pywbem import (CIMInstanceName, CIMClassName, CIMInstance, CIMClass, CIMProperty, CIMMethod,
                    CIMParameter, CIMQualifier, CIMQualifierDeclaration, CIMDateTime,
                    Uint8, Uint16, Uint32, Uint64, Sint8, Sint16, Sint32, Sint64, Real32, Real64)

INT_TYPES = {'uint8': Uint8, 'uint16': Uint16, 'uint32': Uint32, 'uint64': Uint64,
             'sint8': Sint8, 'sint16': Sint16, 'sint32': Sint32, 'sint64': Sint64}
REAL_TYPES = {'real32': Real32, 'real64': Real64}
INT_RANGE = {'uint8': (0, 2**8 - 1), 'uint16': (0, 2**16 - 1), 'uint32': (0, 2**32 - 1),
             'uint64': (0, 2**64 - 1), 'sint8': (-2**7, 2**7 - 1), 'sint16': (-2**15, 2**15 - 1),
             'sint32': (-2**31, 2**31 - 1), 'sint64': (-2**63, 2**63 - 1)}
ALL_TYPES = ['boolean', 'string', 'char16', 'datetime', 'uint8', 'uint16', 'uint32', 'uint64',
             'sint8', 'sint16', 'sint32', 'sint64', 'real32', 'real64', 'reference']


def fspec(f, typ=None):
    """float -> real spec (exact, JSON-able)."""
    if f != f:
        return ['r', typ, 'nan']
    if f in (float('inf'), float('-inf')):
        return ['r', typ, 'inf' if f > 0 else '-inf']
    return ['r', typ, f.hex()]


def _float(s):
    if s in ('nan', 'inf', '-inf'):
        return float(s)
    return float.fromhex(s)


def _kw(kw):
    out = {}
    for k, v in (kw or {}).items():
        if k == 'qualifiers':
            out[k] = [build(q) for q in v] if v is not None else None
        elif k in ('value', 'path'):
            out[k] = build(v)
        else:
            out[k] = v
    return out


def build(s):
    t = s[0]
    if t == 'n':
        return None
    if t == 's':
        return s[1]
    if t == 'b':
        return bool(s[1])
    if t == 'i':
        return INT_TYPES[s[1]](s[2]) if s[1] else int(s[2])
    if t == 'r':
        f = _float(s[2])
        return REAL_TYPES[s[1]](f) if s[1] else f
    if t == 'dt':
        return CIMDateTime(s[1])
    if t == 'a':
        return [build(x) for x in s[1]]
    if t == 't':
        return tuple(build(x) for x in s[1])
    if t == 'j':
        return s[1]
    if t == 'ipath':
        kbs = None if s[2] is None else [(k, build(v)) for k, v in s[2]]
        return CIMInstanceName(s[1], keybindings=kbs, namespace=s[3], host=s[4])
    if t == 'cpath':
        return CIMClassName(s[1], namespace=s[2], host=s[3])
    if t == 'qual':
        return CIMQualifier(s[1], build(s[2]), **_kw(s[3] if len(s) > 3 else None))
    if t == 'prop':
        return CIMProperty(s[1], build(s[2]), **_kw(s[3] if len(s) > 3 else None))
    if t == 'param':
        return CIMParameter(s[1], s[2], **_kw(s[3] if len(s) > 3 else None))
    if t == 'meth':
        return CIMMethod(s[1], s[2], parameters=[build(p) for p in s[3]],
                         **_kw(s[4] if len(s) > 4 else None))
    if t == 'inst':
        inst = CIMInstance(s[1], properties=[build(p) for p in s[2]],
                           **_kw(s[4] if len(s) > 4 else None))
        if s[3] is not None:
            # the path is attached last: the constructor would silently copy key property values
            # into the keybindings of a path given to it (deprecated behaviour of __setitem__), and
            # a spec whose key property differs from its path would not be built as written
            inst.path = build(s[3])
        return inst
    if t == 'class':
        return CIMClass(s[1], properties=[build(p) for p in s[2]],
                        methods=[build(m) for m in s[3]],
                        **_kw(s[4] if len(s) > 4 else None))
    if t == 'qdecl':
        return CIMQualifierDeclaration(s[1], s[2], **_kw(s[3] if len(s) > 3 else None))
    raise ValueError('bad spec %r' % (s,))


def key(spec):
    """hashable canonical form of a spec"""
    if isinstance(spec, list):
        return tuple(key(x) for x in spec)
    if isinstance(spec, dict):
        return tuple(sorted((k, key(v)) for k, v in spec.items()))
    return spec


# ------------------------------------------------------------------------------------------
# atom alphabets

NAMES = ['Foo', 'FOO', 'foo', 'F_1']
NAMES_UNI = ['Ünï']          # non-ASCII name

STRING_ATOMS = ['a', ' ', '\t', '\n', '\r', '<', '>', '&', '"', "'", '\\', ']]>', '&amp;',
                'é', '€', '\U0001F600']
XML_ILLEGAL_ATOMS = ['\x00', '\x01', '\x0b', '\x1f', '\ud800', '\ufffe', '\uffff']


def strings_over(atoms, maxlen, minlen=0):
    """all sequences of length minlen..maxlen over atoms, shortest first"""
    for n in range(minlen, maxlen + 1):
        for tup in itertools.product(atoms, repeat=n):
            yield ''.join(tup)


def int_lattice(typ):
    lo, hi = INT_RANGE[typ]
    return sorted({v for v in (lo, lo + 1, -1, 0, 1, hi - 1, hi) if lo <= v <= hi})


def float32_round(f):
    try:
        return struct.unpack('<f', struct.pack('<f', f))[0]
    except OverflowError:
        return float('inf') if f > 0 else float('-inf')


def real_lattice(bits, mantissas=None, exps=None):
    """every sign x exponent field x mantissa pattern (as Python floats)"""
    if bits == 32:
        ebits, mbits, fmt, ifmt = 8, 23, '<f', '<I'
    else:
        ebits, mbits, fmt, ifmt = 11, 52, '<d', '<Q'
    full = (1 << mbits) - 1
    pats = [0, 1, full, 1 << (mbits - 1), 1 << (mbits // 2), 2, full - 1,
            int('55' * 8, 16) & full, int('AA' * 8, 16) & full, (1 << (mbits - 1)) | 1,
            full >> 1, 3]
    if mantissas is not None:
        pats = pats[:mantissas]
    out = []
    erange = range(1 << ebits) if exps is None else exps
    for sign in (0, 1):
        for e in erange:
            for m in pats:
                word = (sign << (ebits + mbits)) | (e << mbits) | m
                out.append(struct.unpack(fmt, struct.pack(ifmt, word))[0])
    return out


def decimal_lattice(bits):
    """decimal "round" reals: short significands x every decimal exponent of the type (the values
    whose printed form has no fraction digits, or switches between fixed and exponent notation)"""
    lo, hi = (-46, 39) if bits == 32 else (-325, 309)
    out = []
    for sig in ('1', '2', '5', '9', '1.5', '12', '99', '123456789', '1.2345678901234567'):
        for e in range(lo, hi + 1):
            for sign in ('', '-'):
                try:
                    f = float('%s%se%d' % (sign, sig, e))
                except (ValueError, OverflowError):
                    continue
                if bits == 32:
                    f = float32_round(f)
                if f == f and f not in (float('inf'), float('-inf')):
                    out.append(f)
    return out


# a small decimal lattice for the checks in which every real is a whole case (C01, C07, C08)
DECIMAL_REALS = [float('%s%se%d' % (sg, sig, e)) for sig in ('1', '2', '1.5') for sg in ('', '-')
                 for e in (-300, -30, -9, -8, -5, -4, -3, -1, 0, 1, 3, 4, 5, 8, 15, 16, 17, 21, 22, 23, 30, 300)]
DECIMAL_REALS32 = [f for f in DECIMAL_REALS if 1e-37 < abs(f) < 1e38]


DATETIMES = ['20140924193040.654321+120', '00010101000000.000000+000', '99991231235959.999999-999',
             '20000229000000.000000+999', '2014092419****.******+000', '19700101******.******+000',
             '20140924193040.654***-060']
INTERVALS = ['00000000000000.000000:000', '99999999235959.999999:000', '00000183132542.234567:000',
             '00000001******.******:000', '000000011325**.******:000']

HOSTS = [None, 'h', 'H.x:5988', '[::1]', '[fe80::1-eth0]:5989', 'my-host', 'u:p@h']
NAMESPACES = [None, 'a', 'A/b', 'root/CIMv2']


# ------------------------------------------------------------------------------------------
# spec validity (the minimiser must stay inside the spec language and inside the CIM domain:
# non-empty CIM names, known type names, well-formed nodes)

import re as _re
_NAME_RE = _re.compile(r'^[^\W\d]\w*$', _re.UNICODE)
_KW = {
    'qual': {'type', 'propagated', 'overridable', 'tosubclass', 'toinstance', 'translatable'},
    'prop': {'type', 'class_origin', 'array_size', 'propagated', 'is_array', 'reference_class',
             'qualifiers', 'embedded_object'},
    'param': {'reference_class', 'is_array', 'array_size', 'qualifiers', 'value', 'embedded_object'},
    'meth': {'class_origin', 'propagated', 'qualifiers'},
    'inst': {'qualifiers', 'property_list'},
    'class': {'superclass', 'qualifiers', 'path'},
    'qdecl': {'value', 'is_array', 'array_size', 'scopes', 'overridable', 'tosubclass',
              'toinstance', 'translatable'},
}


def _name_ok(n):
    return isinstance(n, str) and bool(_NAME_RE.match(n))


def _kw_ok(tag, kw):
    if kw is None:
        return True
    if not isinstance(kw, dict) or not set(kw) <= _KW[tag]:
        return False
    for k, v in kw.items():
        if k == 'qualifiers':
            if v is not None and not (isinstance(v, list) and all(valid(q) and q[0] == 'qual' for q in v)):
                return False
        elif k == 'value':
            if not valid_value(v):
                return False
        elif k == 'path':
            if not (valid(v) and v[0] in ('cpath', 'n')):
                return False
        elif k in ('class_origin', 'reference_class', 'superclass'):
            if v is not None and not _name_ok(v):
                return False
        elif k == 'type':
            if v is not None and v not in ALL_TYPES:
                return False
    return True


def _char16_ok(v):
    if v[0] == 's':
        return len(v) == 2 and isinstance(v[1], str) and len(v[1]) == 1 and ord(v[1]) <= 0xFFFF
    if v[0] == 'a':
        return all(isinstance(x, list) and _char16_ok(x) for x in v[1])
    return True


def valid_value(s):
    if not valid(s):
        return False
    if s[0] == 'a':
        return True
    return s[0] in ('n', 's', 'b', 'i', 'r', 'dt', 'ipath', 'cpath', 'inst', 'class', 't', 'j', 'param')


def valid(s):
    try:
        if not isinstance(s, list) or not s or not isinstance(s[0], str):
            return False
        t = s[0]
        if t == 'n':
            return len(s) == 1
        if t == 's':
            return len(s) == 2 and isinstance(s[1], str)
        if t == 'b':
            return len(s) == 2 and isinstance(s[1], bool)
        if t == 'i':
            return len(s) == 3 and (s[1] is None or s[1] in INT_TYPES) and isinstance(s[2], int) \
                and not isinstance(s[2], bool)
        if t == 'r':
            if len(s) != 3 or not (s[1] is None or s[1] in REAL_TYPES) or not isinstance(s[2], str):
                return False
            _float(s[2])
            return True
        if t == 'dt':
            return len(s) == 2 and isinstance(s[1], str) and len(s[1]) == 25
        if t == 'a':
            return len(s) == 2 and isinstance(s[1], list) and all(valid_value(x) for x in s[1])
        if t == 't':
            return len(s) == 2 and isinstance(s[1], list) and all(valid(x) for x in s[1])
        if t == 'j':
            return len(s) == 2
        if t == 'ipath':
            if len(s) != 5 or not _name_ok(s[1]) or s[3] == '' or s[4] == '':
                return False
            if not isinstance(s[2], list) or not s[2]:
                return False
            for kb in s[2]:
                if not (isinstance(kb, list) and len(kb) == 2 and _name_ok(kb[0]) and
                        valid(kb[1]) and kb[1][0] in ('s', 'b', 'i', 'r', 'dt', 'ipath')):
                    return False
            return all(x is None or isinstance(x, str) for x in s[3:5])
        if t == 'cpath':
            return len(s) == 4 and _name_ok(s[1]) and s[2] != '' and s[3] != '' and \
                all(x is None or isinstance(x, str) for x in s[2:4])
        if t in ('qual', 'prop', 'param', 'qdecl'):
            kw = s[3] if len(s) > 3 else None
            typ = s[2] if t in ('param', 'qdecl') else (kw or {}).get('type')
            val = s[2] if t in ('qual', 'prop') else (kw or {}).get('value')
            if typ == 'char16' and isinstance(val, list) and not _char16_ok(val):
                return False
        if t in ('qual', 'prop'):
            return len(s) in (3, 4) and _name_ok(s[1]) and valid_value(s[2]) and \
                _kw_ok(t, s[3] if len(s) > 3 else None)
        if t == 'param':
            return len(s) in (3, 4) and _name_ok(s[1]) and s[2] in ALL_TYPES and \
                _kw_ok(t, s[3] if len(s) > 3 else None)
        if t == 'meth':
            return len(s) in (4, 5) and _name_ok(s[1]) and (s[2] is None or s[2] in ALL_TYPES) and \
                isinstance(s[3], list) and all(valid(p) and p[0] == 'param' for p in s[3]) and \
                _kw_ok(t, s[4] if len(s) > 4 else None)
        if t == 'inst':
            return len(s) in (4, 5) and _name_ok(s[1]) and isinstance(s[2], list) and \
                all(valid(p) and p[0] == 'prop' for p in s[2]) and \
                (s[3] is None or (valid(s[3]) and s[3][0] == 'ipath')) and \
                _kw_ok(t, s[4] if len(s) > 4 else None)
        if t == 'class':
            return len(s) in (4, 5) and _name_ok(s[1]) and isinstance(s[2], list) and \
                all(valid(p) and p[0] == 'prop' for p in s[2]) and isinstance(s[3], list) and \
                all(valid(m) and m[0] == 'meth' for m in s[3]) and \
                _kw_ok(t, s[4] if len(s) > 4 else None)
        if t == 'qdecl':
            return len(s) in (3, 4) and _name_ok(s[1]) and s[2] in ALL_TYPES and \
                _kw_ok(t, s[3] if len(s) > 3 else None)
        return False
    except (TypeError, ValueError, IndexError, KeyError, OverflowError):
        return False
