"""requests transport adapters mounted on WBEMConnection.session (the HTTP seam).

Scripted   returns a given (status, reason, headers, body) or raises a given exception
Capturing  records the PreparedRequest and answers with a responder callback
"""
import io

import requests
from requests.adapters import BaseAdapter
from requests.structures import CaseInsensitiveDict

import pywbem


class _Raw(io.BytesIO):
    version = 11
    reason = 'OK'

    def release_conn(self):
        pass


def make_response(request, status=200, reason='OK', headers=None, body=b''):
    resp = requests.Response()
    resp.status_code = status
    resp.reason = reason
    resp.headers = CaseInsensitiveDict(headers or {})
    resp._content = body
    resp._content_consumed = True
    resp.raw = _Raw(body)
    resp.url = request.url
    resp.request = request
    resp.encoding = 'utf-8'
    return resp


class Adapter(BaseAdapter):
    """handler(request) -> (status, reason, headers, body) | raises"""

    def __init__(self, handler):
        super().__init__()
        self.handler = handler
        self.requests = []

    def send(self, request, **kwargs):
        self.requests.append(request)
        status, reason, headers, body = self.handler(request)
        return make_response(request, status, reason, headers, body)

    def close(self):
        pass


def connect(handler, url='http://h:5988', **kw):
    """WBEMConnection whose HTTP traffic goes to handler; returns (conn, adapter)"""
    conn = pywbem.WBEMConnection(url, **kw)
    ad = Adapter(handler)
    conn.session.mount('http://', ad)
    conn.session.mount('https://', ad)
    return conn, ad


def request_body(request):
    b = request.body
    if isinstance(b, str):
        b = b.encode('utf-8')
    return b or b''


OK_HEADERS = {'Content-type': 'application/xml; charset="utf-8"', 'CIMOperation': 'MethodResponse'}
