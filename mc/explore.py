"""Explicit-state breadth-first exploration of event histories on a LIVE object (mode H).

The explored object is the real implementation (e.g. a pywbem_mock.FakedWBEMConnection plus a
small reference model that the check keeps next to it).  Nothing here knows about pywbem.

    res = bfs(init, enabled, step, canon, max_depth, snap=PickleSnap(), invariant=None,
              on_transition=None, max_states=None, reuse_unchanged=True)

    init            the initial live state (any object the snapshot strategy can copy)
    enabled(state)  -> list of events (JSON-able values, deterministic order) possible in `state`
    step(state, ev) -> executes ONE event with the real code, in place, on the live `state` and
                       returns a StepResult (or None): outcome class, non-triviality and the
                       oracle's problems for exactly this transition.  Exceptions of the code
                       under test are the check's business (catch what is an expected answer);
                       whatever propagates out of step() is a harness fault and aborts the run.
    canon(state)    -> hashable canonical form; two states with the same canon are treated as the
                       same state (dedup), so canon must contain everything that can influence
                       future behaviour or the oracle (live object state AND model state).
    invariant(state)-> iterable of Problem, evaluated once in every newly reached state (and in
                       the initial state)
    on_transition(parent_key, depth, event, result, child_key)   bookkeeping hook (Acc.case ...)

A state is materialised by restoring a snapshot of the live object (deepcopy, pickle round trip,
or replay of the event history from a fresh initial state - see the *Snap classes).  With
reuse_unchanged=True a working copy whose canon did not change by an event is used for the next
event as well (sound under the same assumption dedup already makes: equal canon = same state).

BFS order gives shortest histories for free: the first time a state - and therefore the first
time a violation signature - is seen, its history has minimal length.  Ties are broken by the
order of `enabled`, so the result does not depend on hashing or on how work is sharded.

    run_history(state, step, events, invariant=None) -> [(event, StepResult)], problems
re-executes one recorded history (replay of a counterexample) with the same callbacks.
"""
import copy
import json
import pickle


class Problem:
    """One oracle complaint about one transition (or one state, for invariants)."""
    __slots__ = ('sig', 'expected', 'observed')

    def __init__(self, sig, expected=None, observed=None):
        self.sig = {k: str(v) for k, v in sig.items()}
        self.expected = expected
        self.observed = observed

    def key(self):
        return json.dumps(self.sig, sort_keys=True, ensure_ascii=True)

    def __repr__(self):
        return 'Problem(%s)' % self.key()


class StepResult:
    """What step() reports about one executed event."""
    __slots__ = ('outcome', 'nontrivial', 'problems', 'obs')

    def __init__(self, outcome, nontrivial=True, problems=(), obs=None):
        self.outcome = outcome          # small vocabulary of observed result classes
        self.nontrivial = nontrivial    # False: rejected locally / nothing to compare
        self.problems = list(problems)  # list of Problem
        self.obs = obs                  # free-form observation (for samples / debugging)


# ------------------------------------------------------------------------------------------
# snapshot strategies: token = save(state, history); state = load(token)

class DeepcopySnap:
    """token is a private deep copy of the live object"""
    def save(self, state, history):
        return copy.deepcopy(state)

    def load(self, token):
        return copy.deepcopy(token)


class PickleSnap:
    """token is the pickled live object (compact; unpickling is usually faster than deepcopy)"""
    def save(self, state, history):
        return pickle.dumps(state, pickle.HIGHEST_PROTOCOL)

    def load(self, token):
        return pickle.loads(token)


class ReplaySnap:
    """token is the event history; the state is rebuilt by replaying it on factory().
    The fallback for live objects that can be neither deep-copied nor pickled."""
    def __init__(self, factory, step):
        self.factory = factory
        self.step = step

    def save(self, state, history):
        return tuple(history)

    def load(self, token):
        state = self.factory()
        for ev in token:
            self.step(state, ev)
        return state


class Result:
    def __init__(self):
        self.states = 0            # distinct canonical states reached
        self.transitions = 0       # events executed with the real code
        self.depth = 0             # deepest level whose states were expanded + 1 (= longest history)
        self.fixpoint = False      # True: every reachable state was expanded (bound not binding)
        self.capped = None         # text if max_states stopped the search
        self.violations = {}       # sig key -> dict(sig, history, expected, observed, count)
        self.outcomes = {}         # outcome class -> count
        self.state_keys = None     # the canonical keys (set), for cross-shard dedup

    def _problem(self, p, history):
        k = p.key()
        cur = self.violations.get(k)
        if cur is None:
            self.violations[k] = dict(sig=p.sig, history=[e for e in history],
                                      expected=p.expected, observed=p.observed, count=1)
        else:
            cur['count'] += 1


def history_of(parents, key):
    """event list leading from the initial state to the state `key` (shortest, by BFS)"""
    out = []
    while True:
        par = parents[key]
        if par is None:
            break
        key, ev = par
        out.append(ev)
    out.reverse()
    return out


def bfs(init, enabled, step, canon, max_depth, snap=None, invariant=None, on_transition=None,
        max_states=None, reuse_unchanged=True):
    snap = snap or PickleSnap()
    res = Result()
    k0 = canon(init)
    parents = {k0: None}
    if invariant is not None:
        for p in invariant(init) or ():
            res._problem(p, [])
    frontier = [(k0, snap.save(init, ()))]
    depth = 0
    while frontier and depth < max_depth:
        nxt = []
        for key, token in frontier:
            hist = history_of(parents, key)
            work = snap.load(token)
            events = enabled(work)
            for i, ev in enumerate(events):
                r = step(work, ev)
                res.transitions += 1
                k2 = canon(work)
                if r is not None:
                    res.outcomes[r.outcome] = res.outcomes.get(r.outcome, 0) + 1
                    for p in r.problems:
                        res._problem(p, hist + [ev])
                if on_transition is not None:
                    on_transition(key, depth, ev, r, k2)
                if k2 == key:
                    if reuse_unchanged:
                        continue
                elif k2 not in parents:
                    parents[k2] = (key, ev)
                    if invariant is not None:
                        for p in invariant(work) or ():
                            res._problem(p, hist + [ev])
                    nxt.append((k2, snap.save(work, hist + [ev])))
                    if max_states is not None and len(parents) >= max_states:
                        res.capped = 'max_states=%d reached at depth %d' % (max_states, depth + 1)
                        break
                if i + 1 < len(events):
                    work = snap.load(token)
            if res.capped:
                break
        depth += 1
        frontier = nxt
        if res.capped:
            break
    res.depth = depth
    res.fixpoint = not frontier and not res.capped
    res.states = len(parents)
    res.state_keys = set(parents)
    return res


def run_history(state, step, events, invariant=None):
    """Execute `events` in order on the live `state`; -> ([(event, StepResult)], [Problem])."""
    trace = []
    problems = []
    if invariant is not None:
        problems.extend(invariant(state) or ())
    for ev in events:
        r = step(state, ev)
        trace.append((ev, r))
        if r is not None:
            problems.extend(r.problems)
        if invariant is not None:
            problems.extend(invariant(state) or ())
    return trace, problems
