"""Accumulator shared by all checks: counts, outcome digests, violations, samples.

One Acc per shard; the runner merges them, so verdict and counts do not depend on the
number of worker processes.
"""
import json
import traceback


def jsonable(x):
    """Best-effort conversion of a case / observation into JSON-serialisable data."""
    if x is None or isinstance(x, (bool, int, str)):
        return x
    if isinstance(x, float):
        return x if x == x and x not in (float('inf'), float('-inf')) else repr(x)
    if isinstance(x, bytes):
        return {'__bytes__': x.decode('latin-1')}
    if isinstance(x, (list, tuple)):
        return [jsonable(i) for i in x]
    if isinstance(x, (set, frozenset)):
        return sorted((jsonable(i) for i in x), key=repr)
    if isinstance(x, dict):
        return {str(k): jsonable(v) for k, v in x.items()}
    return repr(x)


def unjson(x):
    """Inverse of jsonable() for bytes markers (lists stay lists)."""
    if isinstance(x, dict):
        if set(x) == {'__bytes__'}:
            return x['__bytes__'].encode('latin-1')
        return {k: unjson(v) for k, v in x.items()}
    if isinstance(x, list):
        return [unjson(i) for i in x]
    return x


def sigkey(sig):
    return json.dumps(sig, sort_keys=True, ensure_ascii=True)


class HarnessError(Exception):
    """Raised for faults of the harness itself (never reported as a violation)."""


class Acc:
    MAX_SAMPLES = 6

    def __init__(self):
        self.evaluations = 0          # cases generated / executions run
        self.calls = 0                # pywbem calls / events executed ("transitions")
        self.nontrivial = set()       # 64-bit hashes of distinct non-trivial cases
        self.trivial = 0
        self.states = 0               # mode H/S: canonical states; E/D: filled from distinct cases
        self.state_hashes = None      # optional set for cross-shard dedup of states
        self.outcomes = {}            # outcome class -> count
        self.violations = {}          # sigkey -> dict(sig, count, case, expected, observed, size)
        self.samples = []
        self.caps = []
        self.extra = {}               # check specific counters (summed) / notes
        self.errors = []              # harness errors (abort the run)

    # ------------------------------------------------------------------ recording
    def case(self, key, nontrivial=True, outcome=None, calls=1, sample=None):
        """Record one explored case. `key` is a hashable canonical form of the input."""
        reset_library_caches()      # the next case starts without memo state of this one
        self.evaluations += 1
        self.calls += calls
        if nontrivial:
            self.nontrivial.add(hash(key))
        else:
            self.trivial += 1
        if outcome is not None:
            self.outcomes[outcome] = self.outcomes.get(outcome, 0) + 1
        if sample is not None and len(self.samples) < self.MAX_SAMPLES:
            self.samples.append(jsonable(sample))

    def outcome(self, outcome):
        self.outcomes[outcome] = self.outcomes.get(outcome, 0) + 1

    def count(self, name, n=1):
        self.extra[name] = self.extra.get(name, 0) + n

    def violation(self, sig, case, expected=None, observed=None):
        """Record a violation. `sig` is a flat dict of strings identifying the failure class;
        the smallest witness per signature is kept."""
        sig = {k: str(v) for k, v in sig.items()}
        k = sigkey(sig)
        case = jsonable(case)
        size = len(json.dumps(case, ensure_ascii=True))
        cur = self.violations.get(k)
        if cur is None:
            self.violations[k] = dict(sig=sig, count=1, case=case, size=size,
                                      expected=jsonable(expected), observed=jsonable(observed))
        else:
            cur['count'] += 1
            if (size, json.dumps(case, sort_keys=True)) < (cur['size'], json.dumps(cur['case'], sort_keys=True)):
                cur.update(case=case, size=size, expected=jsonable(expected),
                           observed=jsonable(observed))

    def cap(self, text):
        if text not in self.caps:
            self.caps.append(text)

    def harness_error(self, where, exc=None):
        self.errors.append('%s: %s' % (where, traceback.format_exc() if exc is not None else ''))

    # ------------------------------------------------------------------ merging
    def merge(self, o):
        self.evaluations += o.evaluations
        self.calls += o.calls
        self.nontrivial |= o.nontrivial
        self.trivial += o.trivial
        self.states += o.states
        if o.state_hashes is not None:
            if self.state_hashes is None:
                self.state_hashes = set()
            self.state_hashes |= o.state_hashes
        for k, v in o.outcomes.items():
            self.outcomes[k] = self.outcomes.get(k, 0) + v
        for k, v in o.violations.items():
            cur = self.violations.get(k)
            if cur is None:
                self.violations[k] = dict(v)
            else:
                cnt = cur['count'] + v['count']
                if (v['size'], json.dumps(v['case'], sort_keys=True)) < \
                        (cur['size'], json.dumps(cur['case'], sort_keys=True)):
                    cur.update(v)
                cur['count'] = cnt
        for s in o.samples:
            if len(self.samples) < self.MAX_SAMPLES:
                self.samples.append(s)
        for c in o.caps:
            self.cap(c)
        for k, v in o.extra.items():
            if isinstance(v, (int, float)):
                self.extra[k] = self.extra.get(k, 0) + v
            else:
                self.extra.setdefault(k, v)
        self.errors.extend(o.errors)
        return self


# ------------------------------------------------------------------------------------------
# library-global memo caches: a case must not see what an earlier case of the same worker process
# left in a functools cache of the library (otherwise a violation depends on the shard history and
# cannot be replayed alone). Checks call reset_library_caches() at the start of a case; the
# in-case oracles (e.g. C07 "second parse after mutating the first result") still see the cache.

_CACHES = {'nmods': -1, 'found': []}


def reset_library_caches():
    import sys
    if len(sys.modules) != _CACHES['nmods']:
        mods = [m for n, m in list(sys.modules.items())
                if m is not None and (n == 'pywbem' or n.startswith('pywbem.') or n == 'pywbem_mock' or
                                      n.startswith('pywbem_mock.'))]
        found, seen = [], set()

        def consider(obj):
            f = getattr(obj, '__func__', obj)
            if hasattr(f, 'cache_clear') and hasattr(f, 'cache_info') and id(f) not in seen:
                seen.add(id(f))
                found.append(f)
        for m in mods:
            for v in list(vars(m).values()):
                consider(v)
                if isinstance(v, type) and getattr(v, '__module__', '').startswith('pywbem'):
                    for a in list(vars(v).values()):
                        consider(a)
        _CACHES['nmods'] = len(sys.modules)
        _CACHES['found'] = found
    for f in _CACHES['found']:
        f.cache_clear()
    return len(_CACHES['found'])
