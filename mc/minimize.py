"""Deterministic greedy minimisation of a JSON-able case (delta debugging on the JSON tree).

Used to turn any failing case into a small canonical witness, so that one root cause yields one
signature no matter which of the many enumerated inputs exposed it.
"""
import copy


def _paths(node, prefix=()):
    """all paths to nodes in pre-order"""
    yield prefix
    if isinstance(node, list):
        for i, x in enumerate(node):
            yield from _paths(x, prefix + (i,))
    elif isinstance(node, dict):
        for k in sorted(node):
            yield from _paths(node[k], prefix + (k,))


def _get(node, path):
    for p in path:
        node = node[p]
    return node


def _set(root, path, value):
    root = copy.deepcopy(root)
    if not path:
        return value
    node = root
    for p in path[:-1]:
        node = node[p]
    node[path[-1]] = value
    return root


def _del(root, path):
    root = copy.deepcopy(root)
    node = root
    for p in path[:-1]:
        node = node[p]
    del node[path[-1]]
    return root


def _candidates(root, path, frozen):
    """simpler replacements for the node at path (simplest first)"""
    node = _get(root, path)
    if path and isinstance(_get(root, path[:-1]), list) and \
            not (path[-1] == 0 and isinstance(node, str)):
        # list element (not the tag at index 0): try dropping it
        yield _del(root, path)
    if isinstance(node, str):
        if path and path[-1] == 0 and isinstance(_get(root, path[:-1]), list):
            return  # spec tags stay
        if node in frozen:
            return
        if node != '':
            yield _set(root, path, '')
        if node not in ('a', ''):
            yield _set(root, path, 'a')
        if len(node) > 1:
            for i in range(len(node)):
                yield _set(root, path, node[:i] + node[i + 1:])
            half = len(node) // 2
            if half > 1:
                yield _set(root, path, node[:half])
                yield _set(root, path, node[half:])
    elif isinstance(node, bool):
        return
    elif isinstance(node, int):
        for v in (0, 1):
            if abs(v) < abs(node):
                yield _set(root, path, v)
    elif isinstance(node, dict):
        for k in sorted(node):
            yield _del(root, path + (k,))
    elif node is not None and not isinstance(node, list):
        yield _set(root, path, None)
    if node is not None and not isinstance(node, (bool, dict)) and path:
        parent = _get(root, path[:-1])
        if not (isinstance(parent, list) and path[-1] == 0):
            yield _set(root, path, None)


def minimize(case, still_fails, frozen=(), max_rounds=50, max_tests=4000):
    """Greedy fix-point: apply the first simplification that keeps still_fails(case) true.
    `frozen` strings are never altered (format names, check names...)."""
    tests = 0
    frozen = set(frozen)
    for _ in range(max_rounds):
        changed = False
        for path in list(_paths(case)):
            try:
                _get(case, path)
            except (KeyError, IndexError, TypeError):
                continue
            progress = True
            while progress:
                progress = False
                try:
                    cands = list(_candidates(case, path, frozen))
                except (KeyError, IndexError, TypeError):
                    break
                for cand in cands:
                    tests += 1
                    if tests > max_tests:
                        return case
                    try:
                        ok = still_fails(cand)
                    except Exception:
                        ok = False
                    if ok:
                        case = cand
                        changed = True
                        progress = True
                        break
        if not changed:
            break
    return case
