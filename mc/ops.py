"""The 41 public operation methods of WBEMConnection with small parameter domains.

Every argument is a spec (mc.domains.build), so calls are JSON-able and replayable.
The first value of each domain is the default (a minimal valid argument).
"""
import inspect

from mc import domains as D

S = lambda x: ['s', x]            # noqa: E731
N = ['n']
B = lambda b: ['j', b]            # noqa: E731

IPATH0 = ['ipath', 'Foo', [['k', ['s', 'x']]], None, None]
INST0 = ['inst', 'Foo', [['prop', 'k', ['s', 'x'], {}], ['prop', 'p', ['i', 'uint8', 1], {}]], None]
INST0P = ['inst', 'Foo', [['prop', 'k', ['s', 'x'], {}], ['prop', 'p', ['i', 'uint8', 1], {}]], IPATH0]
CLASS0 = ['class', 'Foo', [['prop', 'k', ['n'], {'type': 'string', 'qualifiers': [['qual', 'Key', ['b', True], {}]]}]], [], {}]
QDECL0 = ['qdecl', 'Q', 'string', {'scopes': {'CLASS': True}}]

WEIRD = ['a b', 'a"b', 'a<b', '\u00e9', '', 'a&b', "a'b", 'a\x01', '\ud800', 'a\ufffeb']
ILLEGAL_STRS = ['a\x00b', 'a\x01', '\x0b', '\x1f', '\ud800', '\ufffe', '\uffff', ']]>', '<![CDATA[x]]>',
                '\r', '\u00e9\u20ac\U0001F600', ' lead', 'trail ', '&amp;']

# namespaces inside path objects (the statement quantifies over "namespaces with unusual characters";
# the empty namespace is the one value that is falsy but not None)
PATH_NS = ['', '/', 'a//b', 'a b', 'a"<', '\u00e9']
_IP_NS = [['ipath', 'Foo', [['k', ['s', 'x']]], ns, h] for ns in PATH_NS for h in (None, 'h')]
_CP_NS = [['cpath', 'Foo', ns, h] for ns in PATH_NS for h in (None, 'h')]

# array-valued method parameters: every ordered pair of item kinds (homogeneous, heterogeneous, with
# NULL entries) - an array that CIM-XML cannot carry must be refused locally
_ITEM_KINDS = [S('a'), ['i', 'uint8', 1], ['b', True], ['dt', D.DATETIMES[0]], ['r', 'real64', (1.5).hex()],
               IPATH0, ['cpath', 'Foo', 'a', 'h'], INST0, CLASS0, N]
_PAIR_ARRAYS = [['a', [['t', [S('PA'), ['a', [x, y]]]]]] for x in _ITEM_KINDS for y in _ITEM_KINDS]

DOM = {
    'ClassName': [S('Foo'), ['cpath', 'Foo', None, None], ['cpath', 'Foo', 'a/b', None],
                  ['cpath', 'Foo', 'a', 'h']] + [S(w) for w in WEIRD] + _CP_NS,
    'ClassNameOpt': [N, S('Foo'), ['cpath', 'Foo', 'a/b', None], ['cpath', 'Foo', 'a', 'h']] +
                    [S(w) for w in WEIRD[:4]],
    'namespace': [N, S('a'), S('a/b/c'), S('/a/'), S('a//b'), S('a b'), S('a"b<'), S('é'), S(''),
                  S('a\x01'), S('\ud800')],
    'InstanceName': [IPATH0,
                     ['ipath', 'Foo', [['k', ['s', 'x']]], 'a/b', None],
                     ['ipath', 'Foo', [['k', ['s', 'x']]], 'a', 'h'],
                     ['ipath', 'Foo', [['k', ['i', 'uint8', 5]], ['B', ['b', True]], ['d', ['dt', D.DATETIMES[0]]],
                                       ['r', ['r', 'real32', (1.5).hex()]]], None, None],
                     ['ipath', 'Foo', [['r', ['ipath', 'In', [['k', ['s', 'a"<&>\'b']]], 'n', 'h']]], None, None],
                     ['ipath', 'Foo', [['k', ['i', None, 5]], ['f', ['r', None, (1.5).hex()]]], None, None],
                     ['ipath', 'a b', [['k<', ['s', 'x']]], None, None],
                     ['ipath', 'Foo', None, None, None]] +
                    [['ipath', 'Foo', [['k', S(w)]], None, None] for w in ILLEGAL_STRS] + _IP_NS,
    'ObjectName': [IPATH0, S('Foo'), ['cpath', 'Foo', 'a/b', None], ['cpath', 'Foo', 'a', 'h'],
                   ['ipath', 'Foo', [['k', ['s', 'x']]], 'a/b', 'h'],
                   ['ipath', 'Foo', [['k', S('a\x01')]], None, None], S('a b'), S('a\x01')] + _IP_NS + _CP_NS,
    'MethodObjectName': [IPATH0, S('Foo'), ['cpath', 'Foo', 'a/b', None], ['cpath', 'Foo', 'a', 'h'],
                         ['ipath', 'Foo', [['k', ['s', 'a"b']], ['n', ['i', 'uint8', 1]]], 'a/b', 'h'],
                         ['ipath', 'Foo', [['k', S('a\x01')]], None, None], S('a b')] + _IP_NS + _CP_NS,
    'NewInstance': [INST0, INST0P,
                    ['inst', 'Foo', [['prop', 'p', N, {'type': 'string'}],
                                     ['prop', 'A', ['a', [['i', 'uint8', 1], N]], {'type': 'uint8'}],
                                     ['prop', 'R', IPATH0, {'type': 'reference'}],
                                     ['prop', 'E', INST0, {'type': 'string', 'embedded_object': 'instance'}],
                                     ['prop', 'D', ['dt', D.INTERVALS[2]], {}],
                                     ['prop', 'Q', S('q'), {'qualifiers': [['qual', 'Key', ['b', True], {}]]}]],
                     None],
                    ['inst', 'a b', [['prop', 'p<', S('x'), {}]], None]] +
                   [['inst', 'Foo', [['prop', 'p', S(w), {}]], None] for w in ILLEGAL_STRS] +
                   [['inst', 'Foo', [['prop', 'c', S('\x01'), {'type': 'char16'}]], None],
                    ['inst', 'Foo', [['prop', 'E', ['inst', 'In', [['prop', 'p', S('a\x01'), {}]], None],
                                      {'type': 'string', 'embedded_object': 'instance'}]], None]],
    'ModifiedInstance': [INST0P,
                         ['inst', 'Foo', [['prop', 'p', S('y'), {}]], ['ipath', 'Foo', [['k', ['s', 'x']]], 'a/b', 'h']],
                         INST0] +
                        [['inst', 'Foo', [['prop', 'p', S(w), {}]], IPATH0] for w in ILLEGAL_STRS[:5]],
    'NewClass': [CLASS0,
                 ['class', 'Foo', [['prop', 'p', S('d'), {'type': 'string', 'class_origin': 'Foo', 'propagated': False}],
                                   ['prop', 'a', N, {'type': 'uint8', 'is_array': True, 'array_size': 3}],
                                   ['prop', 'r', N, {'type': 'reference', 'reference_class': 'Bar'}]],
                  [['meth', 'M', 'uint32', [['param', 'A', 'string', {}],
                                            ['param', 'R', 'reference', {'reference_class': 'Bar', 'is_array': True}]],
                    {'qualifiers': [['qual', 'Description', S('a<b'), {}]]}]],
                  {'superclass': 'Base', 'qualifiers': [['qual', 'Association', ['b', True], {'overridable': False}]]}],
                 ['class', 'a b', [], [], {}],
                 ['class', 'Foo', [['prop', 'p', S('a\x01'), {'type': 'string'}]], [], {}],
                 ['class', 'Foo', [], [], {'qualifiers': [['qual', 'D', S('\ufffe'), {}]]}]],
    'QualifierDeclaration': [QDECL0,
                             ['qdecl', 'Q', 'uint8', {'is_array': True, 'array_size': 2, 'value': ['a', [['i', 'uint8', 1]]],
                                                      'scopes': {'ANY': True}, 'overridable': False,
                                                      'tosubclass': True, 'toinstance': True, 'translatable': True}],
                             ['qdecl', 'Q', 'string', {'value': S('a\x01')}],
                             ['qdecl', 'Q', 'boolean', {'scopes': {'CLASS': True, 'ANY': False}}],
                             ['qdecl', 'a b', 'boolean', {}]],
    'QualifierName': [S('Q'), S('a b'), S('a"<'), S(''), S('a\x01')],
    'PropertyList': [N, ['a', []], S('p'), ['a', [S('p'), S('Q')]], ['t', [S('p')]], ['a', [S('a b')]],
                     ['a', [S('')]], ['a', [S('é')]], ['a', [S('a\x01')]], ['a', [S('a<"')]]],
    'bool': [N, B(True), B(False)],
    'AssocClass': [N, S('Foo'), ['cpath', 'Foo', 'a', None], S('a b'), S('a\x01')],
    'Role': [N, S('r'), S('a"<&'), S(''), S('a\x01')],
    'QueryLanguage': [S('WQL'), S('DMTF:CQL'), S('a\x01'), S('')],
    'Query': [S('SELECT * FROM Foo'), S('a<b&c>"d\''), S('a\x01'), S(']]>'), S(''), S('\ud800')],
    'FilterQueryLanguageOpt': [N, S('DMTF:FQL'), S('a\x01')],
    'FilterQueryOpt': [N, S('p = 1'), S('a<b'), S('a\x01')],
    'MaxObjectCountOpt': [N, ['j', 0], ['j', 1], ['j', 4294967295], ['j', -1], ['j', 4294967296], S('1')],
    'MaxObjectCount': [['j', 1], ['j', 0], ['j', 4294967295], N, ['j', -1], S('1')],
    'OperationTimeout': [N, ['j', 0], ['j', 5], ['j', 4294967296], ['j', -1]],
    'context': [['t', [S('ctx'), S('a')]], ['t', [S('a<b&"'), S('a/b')]], ['t', [S('a\x01'), S('a')]],
                ['t', [S('ctx'), S('a b')]], N, ['t', [S('ctx')]], S('ctx')],
    'MethodName': [S('M'), S('a b'), S(''), S('a"<'), S('a\x01'), S('é')],
    'Params': [N, ['a', []],
               ['a', [['t', [S('P'), S('x')]], ['t', [S('N'), ['i', 'uint8', 1]]], ['t', [S('Bo'), ['b', True]]],
                      ['t', [S('D'), ['dt', D.DATETIMES[0]]]], ['t', [S('F'), ['r', 'real64', (1.5).hex()]]]]],
               ['a', [['t', [S('A'), ['a', [['i', 'sint16', -1], N]]]], ['t', [S('SA'), ['a', [S('a'), S('b')]]]],
                      ['t', [S('EA'), ['a', []]]]]],
               ['a', [['t', [S('R'), IPATH0]], ['t', [S('RC'), ['cpath', 'Foo', 'a', 'h']]],
                      ['t', [S('RA'), ['a', [IPATH0, IPATH0]]]]]],
               ['a', [['t', [S('E'), INST0]], ['t', [S('EC'), CLASS0]], ['t', [S('EA'), ['a', [INST0]]]]]],
               ['a', [['t', [S('Nul'), N]]]],
               ['a', [['param', 'P', 'string', {'value': S('x')}], ['param', 'N', 'uint8', {'value': N}],
                      ['param', 'A', 'uint8', {'value': ['a', [['i', 'uint8', 1]]], 'is_array': True}],
                      ['param', 'E', 'string', {'value': INST0, 'embedded_object': 'instance'}]]],
               ['a', [['t', [S('a b'), S('x')]]]], ['a', [['t', [S('P'), S('a\x01')]]]],
               ['a', [['t', [S('P'), S('\ud800')]]]], ['a', [['t', [S('I'), ['i', None, 5]]]]],
               ['a', [['t', [S('Fl'), ['r', None, (1.5).hex()]]]]]] + _PAIR_ARRAYS,
    'NewIndication': [['inst', 'CIM_AlertIndication', [['prop', 'Description', S('d'), {}]], None],
                      ['inst', 'CIM_AlertIndication', [['prop', 'p', S('a\x01'), {}]], None],
                      ['inst', 'a b', [], None], INST0P],
}

# operation -> [(parameter name, domain key)]
OPS = {
    'EnumerateInstances': [('ClassName', 'ClassName'), ('namespace', 'namespace'), ('LocalOnly', 'bool'),
                           ('DeepInheritance', 'bool'), ('IncludeQualifiers', 'bool'),
                           ('IncludeClassOrigin', 'bool'), ('PropertyList', 'PropertyList')],
    'EnumerateInstanceNames': [('ClassName', 'ClassName'), ('namespace', 'namespace')],
    'GetInstance': [('InstanceName', 'InstanceName'), ('LocalOnly', 'bool'), ('IncludeQualifiers', 'bool'),
                    ('IncludeClassOrigin', 'bool'), ('PropertyList', 'PropertyList')],
    'ModifyInstance': [('ModifiedInstance', 'ModifiedInstance'), ('IncludeQualifiers', 'bool'),
                       ('PropertyList', 'PropertyList')],
    'CreateInstance': [('NewInstance', 'NewInstance'), ('namespace', 'namespace')],
    'DeleteInstance': [('InstanceName', 'InstanceName')],
    'Associators': [('ObjectName', 'ObjectName'), ('AssocClass', 'AssocClass'), ('ResultClass', 'AssocClass'),
                    ('Role', 'Role'), ('ResultRole', 'Role'), ('IncludeQualifiers', 'bool'),
                    ('IncludeClassOrigin', 'bool'), ('PropertyList', 'PropertyList')],
    'AssociatorNames': [('ObjectName', 'ObjectName'), ('AssocClass', 'AssocClass'),
                        ('ResultClass', 'AssocClass'), ('Role', 'Role'), ('ResultRole', 'Role')],
    'References': [('ObjectName', 'ObjectName'), ('ResultClass', 'AssocClass'), ('Role', 'Role'),
                   ('IncludeQualifiers', 'bool'), ('IncludeClassOrigin', 'bool'),
                   ('PropertyList', 'PropertyList')],
    'ReferenceNames': [('ObjectName', 'ObjectName'), ('ResultClass', 'AssocClass'), ('Role', 'Role')],
    'InvokeMethod': [('MethodName', 'MethodName'), ('ObjectName', 'MethodObjectName'), ('Params', 'Params')],
    'ExecQuery': [('QueryLanguage', 'QueryLanguage'), ('Query', 'Query'), ('namespace', 'namespace')],
    'IterEnumerateInstances': [('ClassName', 'ClassName'), ('namespace', 'namespace'), ('LocalOnly', 'bool'),
                               ('DeepInheritance', 'bool'), ('IncludeQualifiers', 'bool'),
                               ('IncludeClassOrigin', 'bool'), ('PropertyList', 'PropertyList'),
                               ('FilterQueryLanguage', 'FilterQueryLanguageOpt'), ('FilterQuery', 'FilterQueryOpt'),
                               ('OperationTimeout', 'OperationTimeout'), ('ContinueOnError', 'bool'),
                               ('MaxObjectCount', 'MaxObjectCount')],
    'IterEnumerateInstancePaths': [('ClassName', 'ClassName'), ('namespace', 'namespace'),
                                   ('FilterQueryLanguage', 'FilterQueryLanguageOpt'),
                                   ('FilterQuery', 'FilterQueryOpt'), ('OperationTimeout', 'OperationTimeout'),
                                   ('ContinueOnError', 'bool'), ('MaxObjectCount', 'MaxObjectCount')],
    'IterAssociatorInstances': [('InstanceName', 'InstanceName'), ('AssocClass', 'AssocClass'),
                                ('ResultClass', 'AssocClass'), ('Role', 'Role'), ('ResultRole', 'Role'),
                                ('IncludeQualifiers', 'bool'), ('IncludeClassOrigin', 'bool'),
                                ('PropertyList', 'PropertyList'),
                                ('FilterQueryLanguage', 'FilterQueryLanguageOpt'),
                                ('FilterQuery', 'FilterQueryOpt'), ('OperationTimeout', 'OperationTimeout'),
                                ('ContinueOnError', 'bool'), ('MaxObjectCount', 'MaxObjectCount')],
    'IterAssociatorInstancePaths': [('InstanceName', 'InstanceName'), ('AssocClass', 'AssocClass'),
                                    ('ResultClass', 'AssocClass'), ('Role', 'Role'), ('ResultRole', 'Role'),
                                    ('FilterQueryLanguage', 'FilterQueryLanguageOpt'),
                                    ('FilterQuery', 'FilterQueryOpt'),
                                    ('OperationTimeout', 'OperationTimeout'), ('ContinueOnError', 'bool'),
                                    ('MaxObjectCount', 'MaxObjectCount')],
    'IterReferenceInstances': [('InstanceName', 'InstanceName'), ('ResultClass', 'AssocClass'), ('Role', 'Role'),
                               ('IncludeQualifiers', 'bool'), ('IncludeClassOrigin', 'bool'),
                               ('PropertyList', 'PropertyList'),
                               ('FilterQueryLanguage', 'FilterQueryLanguageOpt'),
                               ('FilterQuery', 'FilterQueryOpt'), ('OperationTimeout', 'OperationTimeout'),
                               ('ContinueOnError', 'bool'), ('MaxObjectCount', 'MaxObjectCount')],
    'IterReferenceInstancePaths': [('InstanceName', 'InstanceName'), ('ResultClass', 'AssocClass'),
                                   ('Role', 'Role'), ('FilterQueryLanguage', 'FilterQueryLanguageOpt'),
                                   ('FilterQuery', 'FilterQueryOpt'), ('OperationTimeout', 'OperationTimeout'),
                                   ('ContinueOnError', 'bool'), ('MaxObjectCount', 'MaxObjectCount')],
    'IterQueryInstances': [('FilterQueryLanguage', 'QueryLanguage'), ('FilterQuery', 'Query'),
                           ('namespace', 'namespace'), ('ReturnQueryResultClass', 'bool'),
                           ('OperationTimeout', 'OperationTimeout'), ('ContinueOnError', 'bool'),
                           ('MaxObjectCount', 'MaxObjectCount')],
    'OpenEnumerateInstances': [('ClassName', 'ClassName'), ('namespace', 'namespace'),
                               ('DeepInheritance', 'bool'),
                               ('IncludeClassOrigin', 'bool'), ('PropertyList', 'PropertyList'),
                               ('FilterQueryLanguage', 'FilterQueryLanguageOpt'), ('FilterQuery', 'FilterQueryOpt'),
                               ('OperationTimeout', 'OperationTimeout'), ('ContinueOnError', 'bool'),
                               ('MaxObjectCount', 'MaxObjectCountOpt')],
    'OpenEnumerateInstancePaths': [('ClassName', 'ClassName'), ('namespace', 'namespace'),
                                   ('FilterQueryLanguage', 'FilterQueryLanguageOpt'),
                                   ('FilterQuery', 'FilterQueryOpt'), ('OperationTimeout', 'OperationTimeout'),
                                   ('ContinueOnError', 'bool'), ('MaxObjectCount', 'MaxObjectCountOpt')],
    'OpenAssociatorInstances': [('InstanceName', 'InstanceName'), ('AssocClass', 'AssocClass'),
                                ('ResultClass', 'AssocClass'), ('Role', 'Role'), ('ResultRole', 'Role'),
                                ('IncludeClassOrigin', 'bool'),
                                ('PropertyList', 'PropertyList'),
                                ('FilterQueryLanguage', 'FilterQueryLanguageOpt'),
                                ('FilterQuery', 'FilterQueryOpt'), ('OperationTimeout', 'OperationTimeout'),
                                ('ContinueOnError', 'bool'), ('MaxObjectCount', 'MaxObjectCountOpt')],
    'OpenAssociatorInstancePaths': [('InstanceName', 'InstanceName'), ('AssocClass', 'AssocClass'),
                                    ('ResultClass', 'AssocClass'), ('Role', 'Role'), ('ResultRole', 'Role'),
                                    ('FilterQueryLanguage', 'FilterQueryLanguageOpt'),
                                    ('FilterQuery', 'FilterQueryOpt'),
                                    ('OperationTimeout', 'OperationTimeout'), ('ContinueOnError', 'bool'),
                                    ('MaxObjectCount', 'MaxObjectCountOpt')],
    'OpenReferenceInstances': [('InstanceName', 'InstanceName'), ('ResultClass', 'AssocClass'), ('Role', 'Role'),
                               ('IncludeClassOrigin', 'bool'),
                               ('PropertyList', 'PropertyList'),
                               ('FilterQueryLanguage', 'FilterQueryLanguageOpt'),
                               ('FilterQuery', 'FilterQueryOpt'), ('OperationTimeout', 'OperationTimeout'),
                               ('ContinueOnError', 'bool'), ('MaxObjectCount', 'MaxObjectCountOpt')],
    'OpenReferenceInstancePaths': [('InstanceName', 'InstanceName'), ('ResultClass', 'AssocClass'),
                                   ('Role', 'Role'), ('FilterQueryLanguage', 'FilterQueryLanguageOpt'),
                                   ('FilterQuery', 'FilterQueryOpt'), ('OperationTimeout', 'OperationTimeout'),
                                   ('ContinueOnError', 'bool'), ('MaxObjectCount', 'MaxObjectCountOpt')],
    'OpenQueryInstances': [('FilterQueryLanguage', 'QueryLanguage'), ('FilterQuery', 'Query'),
                           ('namespace', 'namespace'), ('ReturnQueryResultClass', 'bool'),
                           ('OperationTimeout', 'OperationTimeout'), ('ContinueOnError', 'bool'),
                           ('MaxObjectCount', 'MaxObjectCountOpt')],
    'PullInstancesWithPath': [('context', 'context'), ('MaxObjectCount', 'MaxObjectCount')],
    'PullInstancePaths': [('context', 'context'), ('MaxObjectCount', 'MaxObjectCount')],
    'PullInstances': [('context', 'context'), ('MaxObjectCount', 'MaxObjectCount')],
    'CloseEnumeration': [('context', 'context')],
    'EnumerateClasses': [('namespace', 'namespace'), ('ClassName', 'ClassNameOpt'), ('DeepInheritance', 'bool'),
                         ('LocalOnly', 'bool'), ('IncludeQualifiers', 'bool'), ('IncludeClassOrigin', 'bool')],
    'EnumerateClassNames': [('namespace', 'namespace'), ('ClassName', 'ClassNameOpt'),
                            ('DeepInheritance', 'bool')],
    'GetClass': [('ClassName', 'ClassName'), ('namespace', 'namespace'), ('LocalOnly', 'bool'),
                 ('IncludeQualifiers', 'bool'), ('IncludeClassOrigin', 'bool'),
                 ('PropertyList', 'PropertyList')],
    'ModifyClass': [('ModifiedClass', 'NewClass'), ('namespace', 'namespace')],
    'CreateClass': [('NewClass', 'NewClass'), ('namespace', 'namespace')],
    'DeleteClass': [('ClassName', 'ClassName'), ('namespace', 'namespace')],
    'EnumerateQualifiers': [('namespace', 'namespace')],
    'GetQualifier': [('QualifierName', 'QualifierName'), ('namespace', 'namespace')],
    'SetQualifier': [('QualifierDeclaration', 'QualifierDeclaration'), ('namespace', 'namespace')],
    'DeleteQualifier': [('QualifierName', 'QualifierName'), ('namespace', 'namespace')],
    'ExportIndication': [('NewIndication', 'NewIndication')],
}


def check_signatures(conn_cls):
    """the table must name exactly the parameters of the real methods (harness self-test)"""
    problems = []
    for op, params in OPS.items():
        sig = inspect.signature(getattr(conn_cls, op))
        real = [p for p in sig.parameters if p not in ('self', 'params')]
        mine = [p for p, _ in params]
        if real != mine:
            problems.append((op, real, mine))
    return problems


def default_args(op):
    return {p: DOM[d][0] for p, d in OPS[op]}


def arg_sets(op, budget):
    """all argument dicts (of specs) with at most `budget` parameters away from their default"""
    import itertools
    params = OPS[op]
    base = default_args(op)
    yield dict(base)
    for k in range(1, budget + 1):
        for combo in itertools.combinations(range(len(params)), k):
            alts = [DOM[params[i][1]][1:] for i in combo]
            for vals in itertools.product(*alts):
                a = dict(base)
                for i, v in zip(combo, vals):
                    a[params[i][0]] = v
                yield a


def call(conn, op, args):
    """build the argument objects and call the operation; Iter* generators are exhausted"""
    kw = {k: D.build(v) for k, v in args.items()}
    r = getattr(conn, op)(**kw)
    if op == 'IterQueryInstances':
        # returns an object with a generator attribute (and the query result class)
        r = [r.query_result_class] + list(r.generator)
    elif op.startswith('Iter'):
        r = list(r)
    return r
