"""A CIM-XML server facade over pywbem_mock.FakedWBEMConnection (harness code).

decode: request body -> (kind, methodname, namespace | local object, params) using pywbem's
        server-side parse functions (parse_cim .. parse_imethodcall/parse_methodcall/
        parse_iparamvalue/parse_paramvalue) plus the DSP0200 parameter-type table below
execute: the same _imeth_* / _meth_InvokeMethod adapter of a FakedWBEMConnection
encode: result tuples -> IMETHODRESPONSE / METHODRESPONSE with pywbem._cim_xml and the DSP0200
        return-element table below; CIMError -> <ERROR CODE=...>
"""
import copy

from pywbem import (CIMInstance, CIMInstanceName, CIMClass, CIMClassName, CIMQualifierDeclaration,
                    CIMError, CIMParameter, CIMDateTime, cimtype)
from pywbem import _cim_xml as X
from pywbem._cim_obj import tocimxml, cimvalue
from pywbem._cim_types import atomic_to_cim_xml
from pywbem._tupletree import xml_to_tupletree_sax
from pywbem._tupleparse import TupleParser
from pywbem._nocasedict import NocaseDict

from mc.core import HarnessError

# DSP0200: types of the intrinsic parameters that travel as untyped VALUE text
BOOL_PARAMS = {'localonly', 'deepinheritance', 'includequalifiers', 'includeclassorigin',
               'continueonerror', 'returnqueryresultclass'}
UINT_PARAMS = {'maxobjectcount', 'operationtimeout'}


def decode_request(body):
    """-> ('imethod', name, namespace, params) | ('method', name, localobject, params)
    params: dict name -> value (exact names as sent)"""
    tt = xml_to_tupletree_sax(body, 'request')
    tp = TupleParser()
    cim = tp.parse_cim(tt)                  # ('CIM', attrs, ('MESSAGE', attrs, ('SIMPLEREQ', attrs, call)))
    msg = cim[2]
    req = msg[2]
    if req[0] != 'SIMPLEREQ':
        raise HarnessError('facade: not a SIMPLEREQ: %r' % (req[0],))
    call = req[2]
    if call[0] == 'IMETHODCALL':
        _, attrs, namespace, plist = call
        params = {}
        for name, value in plist:
            params[name] = _type_iparam(name, value)
        return 'imethod', attrs['NAME'], namespace, params
    if call[0] == 'METHODCALL':
        _, attrs, path, plist = call
        return 'method', attrs['NAME'], path, plist
    raise HarnessError('facade: unexpected call element %r' % (call[0],))


def _type_iparam(name, value):
    ln = name.lower()
    if isinstance(value, str):
        if ln in BOOL_PARAMS:
            if value.lower() not in ('true', 'false'):
                raise HarnessError('facade: bad boolean %r=%r' % (name, value))
            return value.lower() == 'true'
        if ln in UINT_PARAMS:
            return int(value)
    return value


def _inst_xml(inst):
    return inst.tocimxml(ignore_path=True)


def _iname_xml(path):
    return path.tocimxml(ignore_host=True, ignore_namespace=True)


FACADE_HOST = 'facadehost'


def _with_host(path):
    """INSTANCEPATH/CLASSPATH must carry a host: like a real server, the facade supplies its own
    host name where the repository object has none (the comparison maps it back)"""
    if path.namespace is None:
        raise HarnessError('facade: path without namespace where a full path is required: %r' % (path,))
    if path.host is None:
        path = path.copy()
        path.host = FACADE_HOST
    return path


def _instancepath_xml(path):
    return _with_host(path).tocimxml()


def _classpath_xml(path):
    return _with_host(path).tocimxml()


def _obj_with_path(obj):
    """VALUE.OBJECTWITHPATH for full paths, VALUE.OBJECTWITHLOCALPATH when the host is missing"""
    if isinstance(obj, CIMInstance):
        p = obj.path
        if p is None or p.namespace is None:
            raise HarnessError('facade: association result without namespace in path')
        if p.host is None:
            return X.VALUE_OBJECTWITHLOCALPATH(p.tocimxml(), _inst_xml(obj))
        return X.VALUE_OBJECTWITHPATH(p.tocimxml(), _inst_xml(obj))
    cp, cls = obj
    if cp.namespace is None:
        raise HarnessError('facade: class association result without namespace')
    if cp.host is None:
        return X.VALUE_OBJECTWITHLOCALPATH(cp.tocimxml(), cls.tocimxml())
    return X.VALUE_OBJECTWITHPATH(cp.tocimxml(), cls.tocimxml())


def _objectpath(path):
    return X.OBJECTPATH(_with_host(path).tocimxml())


def _named_instance(inst):
    if inst.path is None:
        raise HarnessError('facade: VALUE.NAMEDINSTANCE needs a path')
    return X.VALUE_NAMEDINSTANCE(_iname_xml(inst.path), _inst_xml(inst))


def _inst_with_path(inst):
    return X.VALUE_INSTANCEWITHPATH(_instancepath_xml(inst.path), _inst_xml(inst))


def _qdecl_xml(q):
    """SCOPE has no ANY attribute: a server never sends ANY="false" (pywbem's own tocimxml() would,
    known finding KF-C03-scope-any; the facade must produce valid CIM-XML)"""
    if any(k.upper() == 'ANY' and not v for k, v in q.scopes.items()):
        q = q.copy()
        for k in [k for k in q.scopes if k.upper() == 'ANY']:
            del q.scopes[k]
    return q.tocimxml()


def _unwrap(o):
    # association adapters wrap each object as ('OBJECTPATH', {}, obj)
    if isinstance(o, tuple) and len(o) == 3 and o[0] == 'OBJECTPATH':
        return o[2]
    return o


# DSP0200 return elements per intrinsic operation
RETURN_ELEMENT = {
    'GetInstance': _inst_xml,
    'EnumerateInstances': _named_instance,
    'EnumerateInstanceNames': _iname_xml,
    'CreateInstance': _iname_xml,
    'ExecQuery': lambda o: X.VALUE_OBJECT(_inst_xml(o)),
    'Associators': lambda o: _obj_with_path(_unwrap(o)),
    'References': lambda o: _obj_with_path(_unwrap(o)),
    'AssociatorNames': lambda o: _objectpath(_unwrap(o)),
    'ReferenceNames': lambda o: _objectpath(_unwrap(o)),
    'EnumerateClasses': lambda o: o.tocimxml(),
    'EnumerateClassNames': lambda o: o.tocimxml(ignore_host=True, ignore_namespace=True),
    'GetClass': lambda o: o.tocimxml(),
    'EnumerateQualifiers': lambda o: _qdecl_xml(o),
    'GetQualifier': lambda o: _qdecl_xml(o),
    'OpenEnumerateInstances': _inst_with_path,
    'OpenAssociatorInstances': _inst_with_path,
    'OpenReferenceInstances': _inst_with_path,
    'PullInstancesWithPath': _inst_with_path,
    'OpenEnumerateInstancePaths': _instancepath_xml,
    'OpenAssociatorInstancePaths': _instancepath_xml,
    'OpenReferenceInstancePaths': _instancepath_xml,
    'PullInstancePaths': _instancepath_xml,
    'OpenQueryInstances': _inst_xml,
    'PullInstances': _inst_xml,
}


def encode_imethod_result(methodname, result):
    children = []
    for node in result or []:
        if node[0] == 'IRETURNVALUE':
            conv = RETURN_ELEMENT.get(methodname)
            if conv is None:
                raise HarnessError('facade: no return element for %s' % methodname)
            children.append(X.IRETURNVALUE([conv(o) for o in node[2]]))
        else:
            name, _, value = node
            if isinstance(value, bool):
                children.append(X.PARAMVALUE(name, X.VALUE('TRUE' if value else 'FALSE'), 'boolean'))
            elif isinstance(value, str):
                children.append(X.PARAMVALUE(name, X.VALUE(value), 'string'))
            elif isinstance(value, CIMClass):
                children.append(X.PARAMVALUE(name, value.tocimxml()))
            elif value is None:
                children.append(X.PARAMVALUE(name, None, 'string'))
            else:
                raise HarnessError('facade: output parameter %r of type %s' % (name, type(value)))
    return _envelope(X.IMETHODRESPONSE(methodname, children))


def encode_method_result(methodname, result):
    """result = (returnvalue, [ (name, CIMParameter) ... ] | dict) as _meth_InvokeMethod returns"""
    children = []
    rv, outparams = result
    if rv is not None:
        children.append(X.RETURNVALUE(tocimxml(rv), cimtype(rv)))
    if isinstance(outparams, (dict, NocaseDict)):
        items = list(outparams.items())
    else:
        items = [(p.name, p) for p in (outparams or [])]
    for name, p in items:
        if isinstance(p, CIMParameter):
            children.append(p.tocimxml(as_value=True))
        elif p is None:
            children.append(X.PARAMVALUE(name, None))
        else:
            first = p[0] if isinstance(p, list) and p else p
            ptype = 'reference' if isinstance(first, (CIMInstanceName, CIMClassName)) else cimtype(p)
            children.append(CIMParameter(name, ptype, value=p).tocimxml(as_value=True))
    return _envelope(X.METHODRESPONSE(methodname, children))


def encode_error(kind, methodname, exc):
    err = X.ERROR(str(exc.status_code), exc.status_description,
                  [i.tocimxml(ignore_path=True) for i in (exc.instances or [])])
    if kind == 'imethod':
        return _envelope(X.IMETHODRESPONSE(methodname, err))
    return _envelope(X.METHODRESPONSE(methodname, err))


def _envelope(resp):
    doc = X.CIM(X.MESSAGE(X.SIMPLERSP(resp), '1001', '1.0'), '2.0', '2.0')
    return b'<?xml version="1.0" encoding="utf-8" ?>\n' + doc.toxml().encode('utf-8')


class Facade:
    """transport handler: executes each request on `mock` (a FakedWBEMConnection)"""

    def __init__(self, mock):
        self.mock = mock
        self.log = []          # (kind, methodname, namespace/localobject, params) as decoded

    def __call__(self, request):
        from mc.transport import request_body, OK_HEADERS
        body = request_body(request)
        kind, name, target, params = decode_request(body)
        # (a copy: the mock's adapters complete the decoded objects in place, e.g. set the namespace)
        self.log.append((kind, name, copy.deepcopy(target), copy.deepcopy(params)))
        try:
            if kind == 'imethod':
                res = getattr(self.mock, '_imeth_' + name)(target, **params)
                out = encode_imethod_result(name, res)
            else:
                pdict = NocaseDict()
                for pname, ptype, pvalue in params:
                    pdict[pname] = CIMParameter(pname, ptype, value=_type_param(pvalue, ptype))
                res = self.mock._meth_InvokeMethod(name, target, pdict)
                out = encode_method_result(name, res)
        except CIMError as exc:
            out = encode_error(kind, name, exc)
        return 200, 'OK', dict(OK_HEADERS), out


def _type_param(value, ptype):
    if ptype is None or ptype == 'reference' or value is None:
        return value
    if isinstance(value, (CIMInstance, CIMClass, CIMInstanceName, CIMClassName)):
        return value
    if isinstance(value, list) and value and isinstance(value[0], (CIMInstance, CIMClass)):
        return value
    try:
        from pywbem._cim_operations import _cimvalue_from_cimxml
        return _cimvalue_from_cimxml(value, ptype)
    except ImportError:
        return cimvalue(value, ptype)
