"""Known findings: signature matching against /verif/known_findings.json (read-only at run time)."""
import json
import os

from . import VERIF_DIR

PATH = os.path.join(VERIF_DIR, 'known_findings.json')


def load(prop):
    if not os.path.exists(PATH):
        return []
    with open(PATH, encoding='utf-8') as f:
        data = json.load(f)
    return [e for e in data.get('findings', []) if e.get('property') == prop]


def _field_matches(pattern, value):
    if pattern == '*':
        return True
    return value in str(pattern).split('|')


def matches(entry, sig):
    """A violation matches an open entry iff every field of the entry's signature matches the
    violation's signature ('*' and 'a|b' are the only wildcards). Fields the entry does not
    name must not exist in the violation either, unless the entry lists them under
    'ignore_fields'."""
    if entry.get('status') != 'open':
        return False
    esig = entry.get('signature', {})
    ignore = set(entry.get('ignore_fields', []))
    for k, v in sig.items():
        if k in ignore:
            continue
        if k not in esig:
            return False
        if not _field_matches(esig[k], v):
            return False
    for k in esig:
        if k not in sig and esig[k] != '*':
            return False
    return True


def triage(prop, violations):
    """Split {sigkey: violation} into (known: {finding id: [violations]}, new: [violations])."""
    entries = load(prop)
    known, new = {}, []
    for k in sorted(violations):
        v = violations[k]
        for e in entries:
            if matches(e, v['sig']):
                known.setdefault(e['id'], []).append(v)
                break
        else:
            new.append(v)
    return entries, known, new
