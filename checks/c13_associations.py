"""C13 — association traversal is consistent with the stored association instances (mode E).

Every graph of a bounded family of association graphs is built on the real mock
(`FakedWBEMConnection`, association instances created through the public API), and for every
instance and every class as source and every enumerated filter tuple the four traversal operations
(and, on a reduced set, their Open.../Iter... variants) are executed and judged:

  names-vs-full    AssociatorNames == paths of Associators, ReferenceNames == paths of References
                   (full paths incl. namespace and host; a difference in the host attribute only is
                   its own signature `host-differs`), instance level and class level
  reference-model  instance level: the returned objects are exactly those of the brute-force model
                   mc/refmodels/assoc.py evaluated on the association instances read RAW from the
                   repository instance stores
  monotone         setting one more filter never adds results (over the evaluated filter lattice)
  symmetry         y in assoc(x; AssocClass, Role=r, ResultRole=s) <=> x in assoc(y; AssocClass,
                   Role=s, ResultRole=r)
  raised           an operation (or CreateInstance of an association instance) raised something
                   other than CIMError, or a CIMError other than CIM_ERR_INVALID_PARAMETER for a
                   filter naming something that does not exist / is of the wrong kind

Class level: the statement only says "Names == names of the full operation", so only
names-vs-full, monotone and raised are judged there.

Signatures: {'check', 'what', 'op', 'filters'}; `op` is 'Names/Full' when both operations of a pair
show the same failure (one root cause -> one signature), `filters` names the filters still set
after minimisation (association instances, filters and the node family are dropped greedily while
the same `what` is still observed). A failure an Open.../Iter... variant shows identically to the
traditional operation at the same point is not reported again. `what` of `raised` is
'<ExceptionClass>@<innermost function inside pywbem_mock>' or 'CIMError:<status code name>'.
"""
import copy
import itertools
import json
import os
import warnings

import pywbem
import pywbem_mock
from pywbem import CIMInstance, CIMInstanceName, CIMClassName, CIMProperty, CIMError

from mc.core import Acc, sigkey
from mc.refmodels import assoc as RM

ID = 'C13'
RULE = ('class world A, Aß:A, B, associations R(x A,y B), Rß:R, Q(l A,r A), T(a A,b B,c A), '
        'N(id; l A, r B non-key) in two namespaces; a graph is a subset of a fixed candidate list '
        'of association instances (created with CreateInstance, NULL-end candidates also with '
        'add_cimobjects); every stored instance and every class is a source; filter tuples come '
        'from per-filter alphabets {None, existing names, a case variant, sub/superclass, a class '
        'of the wrong kind, a non-existing name} under a total budget (association instances x '
        'filters set; a source no stored reference points to gets one filter level less); a case '
        '= (graph, source, operation family, filter tuple); it is non-trivial if the operation '
        'answered and the observed or the expected result is non-empty')
ASSUMPTIONS = [
    'the brute-force model mc/refmodels/assoc.py is the C13 statement (self-tested at import)',
    'an association instance is "stored" if it is in the instance store of any namespace; '
    'references of x are the association instances stored in the namespace of x',
    'a filter naming a non-existing class/role or a class of the wrong kind may be answered with '
    'CIM_ERR_INVALID_PARAMETER or with an empty result; nothing else',
    'object identity = namespace + class + keys (case-insensitive names); host is compared only '
    'between the Names and the full operation',
    'graphs are enumerated as subsets in one creation order (no permutations of creation order)',
    'a failure an Open.../Iter... variant shows identically to the traditional operation at the '
    'same point is the same failure (reported once); a failure the Names and the full operation '
    'show identically is reported once for the pair',
]

# namespace flags; 'D' is the default namespace written in another lexical case (only used in
# reference values)
NS = {'d': 'root/cimv2', 'o': 'root/other', 'D': 'ROOT/CimV2'}

QUALS = """
Qualifier Key : boolean = false, Scope(property, reference), Flavor(DisableOverride, ToSubclass);
Qualifier Association : boolean = false, Scope(association), Flavor(DisableOverride, ToSubclass);
"""
SCHEMA = """
class A { [Key] string k; };
class Aß : A { };
class B { [Key] string k; };
[Association] class R { [Key] A REF x; [Key] B REF y; };
[Association] class Rß : R { };
[Association] class Q { [Key] A REF l; [Key] A REF r; };
[Association] class T { [Key] A REF a; [Key] B REF b; [Key] A REF c; };
[Association] class N { [Key] string id; A REF l; B REF r; };
"""
# the harness's own description of the world (the reference model never asks pywbem)
CLASSES = {'a': None, 'aß': 'a', 'b': None, 'r': None, 'rß': 'r', 'q': None, 't': None, 'n': None}
CLASSNAMES = ['A', 'Aß', 'B', 'R', 'Rß', 'Q', 'T', 'N']
ASSOC_REFS = {'R': ['x', 'y'], 'Rß': ['x', 'y'], 'Q': ['l', 'r'], 'T': ['a', 'b', 'c'],
              'N': ['l', 'r']}
ASSOC_LC = {c.lower() for c in ASSOC_REFS}
ROLES_LC = {r for v in ASSOC_REFS.values() for r in v}

# node instances per family: flag -> [(class, key)]
NODES = {
    'small': {'d': [('A', 'a1'), ('A', 'a2'), ('Aß', 'a3'), ('B', 'b1'), ('B', 'b2')],
              'o': [('A', 'a1'), ('B', 'b1')]},
    'large': {'d': [('A', 'a1'), ('A', 'a2'), ('A', 'a4'), ('Aß', 'a3'), ('Aß', 'a5'),
                    ('B', 'b1'), ('B', 'b2'), ('B', 'b3')],
              'o': [('A', 'a1'), ('B', 'b1')]},
}

FILTERS = ('AssocClass', 'ResultClass', 'Role', 'ResultRole')
REF_FILTERS = ('ResultClass', 'Role')
# per-filter alphabets: existing, case variant, subclass (Rß of R; Aß of A), superclass (R of Rß;
# A of Aß), existing class of the wrong kind (A as AssocClass, R as ResultClass), non-existing
AC_VALUES = ['R', 'r', 'Rß', 'Q', 'T', 'N', 'A', 'NoSuch']
RC_VALUES = ['A', 'a', 'Aß', 'B', 'R', 'NoSuch']
ROLE_VALUES = ['x', 'X', 'y', 'l', 'r', 'a', 'c', 'nosuch']
ALPHA = {'assoc': {'AssocClass': AC_VALUES, 'ResultClass': RC_VALUES, 'Role': ROLE_VALUES,
                   'ResultRole': ROLE_VALUES},
         'ref': {'ResultClass': AC_VALUES, 'Role': ROLE_VALUES + ['b']}}
# reduced alphabets (existing names only) used where the full ones are too expensive
AC_EXIST = ['R', 'Rß', 'Q', 'T']
RC_EXIST = ['A', 'Aß', 'B']
ROLE_EXIST = ['x', 'y', 'l', 'r', 'a', 'c']
ALPHA_EXIST = {'assoc': {'AssocClass': AC_EXIST, 'ResultClass': RC_EXIST, 'Role': ROLE_EXIST,
                         'ResultRole': ROLE_EXIST},
               'ref': {'ResultClass': AC_EXIST, 'Role': ROLE_EXIST + ['b']}}

BOUNDS = {
    'quick': {
        'nodes': 'default namespace A: a1, a2; Aß: a3; B: b1, b2; other namespace A.a1, B.b1',
        'candidates': '44: R 6, Rß 6, Q 6 (l != r), T 18 (6 with a == c), special 8 '
                      '(self-association Q(a1,a1); N with both ends / explicit NULL end via '
                      'CreateInstance / omitted end / NULL end via add_cimobjects; R, Q (same '
                      'class and key, other namespace) and T with an end in the other namespace)',
        'graphs': 'every subset of <= 2 candidates (991)',
        'filters_set_for_referenced_sources_by_graph_size': {'0': 2, '1': 2, '2': 1},
        'filters_set_for_isolated_sources_by_graph_size': {'0': 2, '1': 1, '2': 0},
        'all_four_filters_existing_consistent_names': 'graphs with <= 1 association instance, '
                                                      'referenced sources',
        'open_iter_variants': 'Open..., Iter... with pull; graphs with <= 1 association '
                              'instance, <= 1 filter set (isolated sources: no filter)',
        'class_level': '<= 2 filters set + all four existing, 10 source class names, 2 graphs',
    },
    'thorough': {
        'nodes': 'small family as quick; large family A: a1, a2, a4; Aß: a3, a5; B: b1, b2, b3',
        'candidates': 'small family 57: the quick candidates + 13 special (self-association on '
                      'every A node, NULL/omitted ends on either side or both, cross-namespace '
                      'created from the other namespace / both ends foreign / Rß / ternary, class '
                      'name or namespace of a reference value in another lexical case); large '
                      'family 125: R, Rß, Q, T over all nodes',
        'graphs': 'small family: every subset of <= 3 candidates; large family: every subset of '
                  '1 or 2 candidates',
        'filters_set_for_referenced_sources_by_graph_size':
            {'0': 3, '1': 3, '2': '1, and 2 over the existing names', '3': 0,
             'large family': {'1': 2, '2': 0}},
        'filters_set_for_isolated_sources_by_graph_size':
            {'0': 3, '1': 2, '2': 0, '3': 0, 'large family': {'1': 1, '2': 0}},
        'all_four_filters_existing_consistent_names': 'graphs with <= 1 association instance, '
                                                      'referenced sources',
        'open_iter_variants': 'Open..., Iter... with and without pull; graphs with <= 1 '
                              'association instance, <= 2 filters set (isolated sources: 1)',
        'class_level': 'full filter product, 10 source class names, 2 graphs',
    },
}

TRAD_PAIRS = {'assoc': ('AssociatorNames', 'Associators'), 'ref': ('ReferenceNames', 'References')}
VARIANT_PAIRS = {
    'assoc': [('OpenAssociatorInstancePaths', 'OpenAssociatorInstances'),
              ('IterAssociatorInstancePaths', 'IterAssociatorInstances'),
              ('IterAssociatorInstancePaths[pull]', 'IterAssociatorInstances[pull]')],
    'ref': [('OpenReferenceInstancePaths', 'OpenReferenceInstances'),
            ('IterReferenceInstancePaths', 'IterReferenceInstances'),
            ('IterReferenceInstancePaths[pull]', 'IterReferenceInstances[pull]')],
}
OP_FAMILY = {}
for _fam, (_n, _f) in TRAD_PAIRS.items():
    OP_FAMILY[_n] = OP_FAMILY[_f] = _fam
for _fam, _prs in VARIANT_PAIRS.items():
    for _n, _f in _prs:
        OP_FAMILY[_n] = OP_FAMILY[_f] = _fam
RM.selftest()


# ------------------------------------------------------------------------------------------
# candidates and graphs

def _end(prop, cls, key, flag='d'):
    return [prop, cls, key, flag]


def candidates(tier, family):
    """ordered list of association-instance specs  [class, namespace flag, via, ends, id]
    ends: [prop, class, key, namespace flag] | [prop, None] (explicit NULL); an end that is not
    listed is omitted from the new instance"""
    nodes = NODES[family]['d']
    an = [(c, k) for c, k in nodes if c in ('A', 'Aß')]
    bn = [(c, k) for c, k in nodes if c == 'B']
    out = []
    for cls in ('R', 'Rß'):
        for a in an:
            for b in bn:
                out.append([cls, 'd', 'create', [_end('x', *a), _end('y', *b)]])
    for a in an:
        for a2 in an:
            if a != a2:
                out.append(['Q', 'd', 'create', [_end('l', *a), _end('r', *a2)]])
    for a in an:
        for b in bn:
            for c in an:
                out.append(['T', 'd', 'create', [_end('a', *a), _end('b', *b), _end('c', *c)]])
    if family == 'large':
        return out
    a1, a2, a3, b1, b2 = ('A', 'a1'), ('A', 'a2'), ('Aß', 'a3'), ('B', 'b1'), ('B', 'b2')
    special = [
        ['Q', 'd', 'create', [_end('l', *a1), _end('r', *a1)]],                      # self
        ['N', 'd', 'create', [_end('l', *a1), _end('r', *b1)], 'n1'],
        ['N', 'd', 'create', [_end('l', *a1), ['r', None]], 'n2'],                   # explicit NULL
        ['N', 'd', 'create', [_end('l', *a1)], 'n3'],                                # omitted end
        ['N', 'd', 'add', [_end('l', *a1), ['r', None]], 'n4'],                      # NULL stored
        ['R', 'd', 'create', [_end('x', *a1), _end('y', 'B', 'b1', 'o')]],           # across ns
        ['Q', 'd', 'create', [_end('l', *a1), _end('r', 'A', 'a1', 'o')]],           # same key
        ['T', 'd', 'create', [_end('a', *a2), _end('b', 'B', 'b1', 'o'), _end('c', *a3)]],
    ]
    if tier == 'thorough':
        special += [
            ['Q', 'd', 'create', [_end('l', *a2), _end('r', *a2)]],
            ['Q', 'd', 'create', [_end('l', *a3), _end('r', *a3)]],
            ['N', 'd', 'create', [['l', None], _end('r', *b1)], 'n5'],
            ['N', 'd', 'create', [_end('r', *b2)], 'n6'],
            ['N', 'd', 'add', [['l', None], _end('r', *b1)], 'n7'],
            ['N', 'd', 'add', [['l', None], ['r', None]], 'n8'],
            ['R', 'o', 'create', [_end('x', *a1), _end('y', 'B', 'b1', 'o')]],       # from other ns
            ['R', 'd', 'create', [_end('x', 'A', 'a1', 'o'), _end('y', 'B', 'b1', 'o')]],  # foreign
            ['Rß', 'd', 'create', [_end('x', *a3), _end('y', 'B', 'b1', 'o')]],
            ['T', 'd', 'create', [_end('a', 'A', 'a1', 'o'), _end('b', *b1),
                                  _end('c', 'A', 'a1', 'd')]],
            ['R', 'd', 'create', [_end('x', 'a', 'a2'), _end('y', 'b', 'b2')]],      # case variant
            ['Q', 'o', 'create', [_end('l', 'A', 'a1', 'o'), _end('r', *a2)]],
            ['R', 'd', 'create', [_end('x', 'A', 'a2', 'D'), _end('y', *b1)]],       # ns case variant
        ]
    return out + special


def cand_kind(c):
    feats = []
    ends = c[3]
    if any(e[1] is None for e in ends):
        feats.append('null')
    if len(ends) < len(ASSOC_REFS[c[0]]):
        feats.append('omitted')
    if c[2] != 'create':
        feats.append(c[2])
    if c[1] != 'd' or any(len(e) > 3 and e[3] == 'o' for e in ends):
        feats.append('xns')
    if any(len(e) > 3 and e[3] == 'D' for e in ends):
        feats.append('nscase')
    vals = [tuple(e[1:]) for e in ends if e[1] is not None]
    if len(set(vals)) < len(vals):
        feats.append('self')
    return c[0] + ('(' + ','.join(feats) + ')' if feats else '')


def touches_other(gspec):
    for c in gspec['assocs']:
        if c[1] != 'd' or any(len(e) > 3 and e[3] == 'o' for e in c[3]):
            return True
    return False


def graphs(tier):
    """all graph specs of the tier, in canonical order"""
    out = []
    cs = candidates(tier, 'small')
    kmax = 2 if tier == 'quick' else 3
    for k in range(kmax + 1):
        for combo in itertools.combinations(cs, k):
            out.append({'nodes': 'small', 'assocs': [copy.deepcopy(c) for c in combo]})
    if tier == 'thorough':
        cl = candidates(tier, 'large')
        for k in (1, 2):
            for combo in itertools.combinations(cl, k):
                out.append({'nodes': 'large', 'assocs': [copy.deepcopy(c) for c in combo]})
    return out


def plan_for(tier, gspec):
    """what is evaluated on a graph. A source that some stored reference property points to
    (`referenced`) gets the full filter level of the graph size, every other source (`isolated`:
    its expected results are empty) one level less."""
    n = len(gspec['assocs'])
    if tier == 'quick':
        # Open... and Iter... with pull (Iter... without pull only in the thorough tier)
        pairs = {f: [p for p in VARIANT_PAIRS[f]
                     if p[0].startswith('Open') or p[0].endswith('[pull]')]
                 for f in VARIANT_PAIRS}
        return dict(referenced=dict(nf={0: 2, 1: 2, 2: 1}[n], allfour=(n <= 1)),
                    isolated=dict(nf={0: 2, 1: 1, 2: 0}[n]),
                    variants=(dict(referenced=dict(nf=1), isolated=dict(nf=0), pairs=pairs)
                              if n <= 1 else None))
    if gspec['nodes'] == 'large':
        return dict(referenced=dict(nf={1: 2, 2: 0}[n], allfour=(n <= 1)),
                    isolated=dict(nf={1: 1, 2: 0}[n]), variants=None)
    return dict(referenced=dict(nf={0: 3, 1: 3, 2: 1, 3: 0}[n], nf_exist=(2 if n == 2 else 0),
                                allfour=(n <= 1)),
                isolated=dict(nf={0: 3, 1: 2, 2: 0, 3: 0}[n]),
                variants=(dict(referenced=dict(nf=2), isolated=dict(nf=1), pairs=VARIANT_PAIRS)
                          if n <= 1 else None))


# ------------------------------------------------------------------------------------------
# filter tuples

_TUPLE_CACHE = {}


def filter_tuples(fam, nf, nf_exist=0, allfour=False):
    """list of dicts {filter name: value} (only the filters that are set), deterministic order"""
    key = (fam, nf, nf_exist, allfour)
    if key in _TUPLE_CACHE:
        return _TUPLE_CACHE[key]
    names = FILTERS if fam == 'assoc' else REF_FILTERS
    seen = set()
    out = []

    def add(d):
        k = tuple(d.get(f) for f in names)
        if k not in seen:
            seen.add(k)
            out.append(d)
    for k in range(min(nf, len(names)) + 1):
        for sel in itertools.combinations(names, k):
            for combo in itertools.product(*(ALPHA[fam][f] for f in sel)):
                add(dict(zip(sel, combo)))
    for k in range(min(nf_exist, len(names)) + 1):
        for sel in itertools.combinations(names, k):
            for combo in itertools.product(*(ALPHA_EXIST[fam][f] for f in sel)):
                add(dict(zip(sel, combo)))
    if allfour and fam == 'assoc':
        # all four set to existing, mutually consistent names: roles are properties of AssocClass
        for ac in AC_EXIST + ['N']:
            for rc in RC_EXIST:
                for r1 in ASSOC_REFS[ac]:
                    for r2 in ASSOC_REFS[ac]:
                        add({'AssocClass': ac, 'ResultClass': rc, 'Role': r1, 'ResultRole': r2})
    _TUPLE_CACHE[key] = out
    return out


def tkey(fam, flt):
    names = FILTERS if fam == 'assoc' else REF_FILTERS
    return tuple(flt.get(f) for f in names)


def parents(fam, flt, evaluated):
    """the evaluated tuples obtained from flt by un-setting filters: the nearest level that has any"""
    names = [f for f in (FILTERS if fam == 'assoc' else REF_FILTERS) if flt.get(f) is not None]
    for drop in range(1, len(names) + 1):
        found = []
        for sel in itertools.combinations(names, drop):
            p = {k: v for k, v in flt.items() if k not in sel}
            if tkey(fam, p) in evaluated:
                found.append((p, sel))
        if found:
            return found
    return []


def invalid_filters(fam, flt, source_class=None):
    """names of the filters whose value names nothing / something of the wrong kind"""
    bad = []
    for f, v in flt.items():
        if v is None:
            continue
        lv = v.lower()
        if f == 'AssocClass' or (f == 'ResultClass' and fam == 'ref'):
            if lv not in ASSOC_LC:
                bad.append(f)
        elif f == 'ResultClass':
            if lv not in CLASSES:
                bad.append(f)
        elif lv not in ROLES_LC:
            bad.append(f)
    if source_class is not None and source_class.lower() not in CLASSES:
        bad.append('ObjectName')
    return bad


# ------------------------------------------------------------------------------------------
# worlds and graph construction

_WORLDS = {}


def base_world(family, pull):
    key = (family, pull)
    if key not in _WORLDS:
        kw = {'use_pull_operations': True} if pull else {}
        conn = pywbem_mock.FakedWBEMConnection(default_namespace=NS['d'], **kw)
        for flag in ('d', 'o'):
            if NS[flag] not in conn.namespaces:
                conn.add_namespace(NS[flag])
            conn.compile_mof_string(QUALS + SCHEMA, namespace=NS[flag])
            for cls, k in NODES[family][flag]:
                conn.CreateInstance(CIMInstance(cls, {'k': k}), namespace=NS[flag])
        _WORLDS[key] = conn
    return copy.deepcopy(_WORLDS[key])


def node_path(cls, key, flag):
    return CIMInstanceName(cls, {'k': key}, namespace=NS[flag])


def exc_what(exc):
    """'<ExceptionClass>@<innermost function inside pywbem_mock, else inside pywbem>'"""
    import mc
    tb = exc.__traceback__
    mock_fn = lib_fn = None
    while tb is not None:
        fn = tb.tb_frame.f_code.co_filename
        if fn.startswith(os.path.join(mc.REPO, 'pywbem_mock') + os.sep):
            mock_fn = tb.tb_frame.f_code.co_name
        elif fn.startswith(os.path.join(mc.REPO, 'pywbem') + os.sep):
            lib_fn = tb.tb_frame.f_code.co_name
        tb = tb.tb_next
    return '%s@%s' % (type(exc).__name__, mock_fn or lib_fn or '?')


def code_name(code):
    for n in dir(pywbem):
        if n.startswith('CIM_ERR_') and getattr(pywbem, n) == code:
            return n
    return 'code%s' % code


def make_instance(cand, idx):
    cls, flag, via, ends = cand[0], cand[1], cand[2], cand[3]
    props = []
    if cls == 'N':
        props.append(CIMProperty('id', cand[4] if len(cand) > 4 else 'n%d' % idx, type='string'))
    for e in ends:
        if e[1] is None:
            props.append(CIMProperty(e[0], None, type='reference'))
        else:
            props.append(CIMProperty(e[0], node_path(e[1], e[2], e[3] if len(e) > 3 else 'd'),
                                     type='reference'))
    inst = CIMInstance(cls, props)
    if via == 'add':
        kb = {'id': inst['id']} if cls == 'N' else \
            {p.name: p.value for p in props}
        inst.path = CIMInstanceName(cls, kb, namespace=NS[flag])
    return inst


def build(gspec, pull=False):
    """-> (conn, created) ; created[i] = dict(status='ok'|'err:<code>'|'exc:<what>', path=...)"""
    conn = base_world(gspec['nodes'], pull)
    created = []
    for idx, cand in enumerate(gspec['assocs']):
        inst = make_instance(cand, idx)
        ns = NS[cand[1]]
        rec = {'status': 'ok', 'path': None}
        try:
            if cand[2] == 'create':
                rec['path'] = conn.CreateInstance(inst, namespace=ns)
            else:
                conn.add_cimobjects([inst], namespace=ns)
                rec['path'] = inst.path
        except CIMError as exc:
            rec['status'] = 'err:' + code_name(exc.status_code)
        except Exception as exc:  # noqa: raised by pywbem, judged by the caller
            rec['status'] = 'exc:' + exc_what(exc)
        created.append(rec)
    return conn, created


# ------------------------------------------------------------------------------------------
# canonical keys, raw store reading

def ipkey(p):
    if not isinstance(p, CIMInstanceName):
        return '<%s>' % type(p).__name__
    kbs = []
    for k, v in p.keybindings.items():
        if isinstance(v, CIMInstanceName):
            v = '(' + ipkey(v) + ')'
        else:
            v = str(v)
        kbs.append((k, v))
    return RM.pkey(p.namespace, p.classname, kbs)


def cpkey(p):
    if not isinstance(p, CIMClassName):
        return '<%s>' % type(p).__name__
    return '%s:%s' % ((p.namespace or '').lower(), p.classname.lower())


def host_of(p):
    h = getattr(p, 'host', None)
    return h.lower() if isinstance(h, str) else h


def _store_values(conn, ns):
    store = conn.cimrepository.get_instance_store(ns)
    return list(store.iter_values(copy=False))


def read_raw(conn):
    """-> (model instances, {flag: {pkey: stored path}})  read from the stores, no provider code"""
    insts = []
    stored = {}
    for flag in ('d', 'o'):
        stored[flag] = {}
        for inst in _store_values(conn, NS[flag]):
            path = inst.path
            stored[flag][ipkey(path)] = path
            refs = []
            for pname, prop in inst.properties.items():
                if prop.type == 'reference':
                    v = prop.value
                    if v is None:
                        refs.append((pname, None, None))
                    else:
                        refs.append((pname, ipkey(v), v.classname))
            if refs:
                insts.append(RM.Inst(NS[flag].lower(), ipkey(path), inst.classname, refs))
    return insts, stored


def sources_of(gspec, created, stored):
    """source specs: every node and every stored association instance of the namespaces in play"""
    flags = ['d', 'o'] if touches_other(gspec) else ['d']
    out = []
    for flag in flags:
        for cls, k in NODES[gspec['nodes']][flag]:
            out.append(['node', cls, k, flag])
    for idx, rec in enumerate(created):
        if rec['status'] != 'ok' or rec['path'] is None:
            continue
        for flag in ('d', 'o'):
            p = rec['path'].copy()
            p.namespace = NS[flag]
            if ipkey(p) in stored[flag]:
                out.append(['assoc', idx, flag])
    return out


def source_object(src, created):
    """fresh ObjectName for a source spec, or None if it does not exist in this graph"""
    if src[0] == 'node':
        return node_path(src[1], src[2], src[3])
    if src[0] == 'class':
        return src[1]
    idx = src[1]
    if idx >= len(created) or created[idx]['status'] != 'ok' or created[idx]['path'] is None:
        return None
    p = created[idx]['path'].copy()
    p.namespace = NS[src[2]]
    p.host = None
    return p


# ------------------------------------------------------------------------------------------
# running operations

def run_op(conns, op, obj, flt):
    """-> ('ok', sorted [(key, host)]) | ('err', code name) | ('exc', what)"""
    pull = op.endswith('[pull]')
    name = op[:-6] if pull else op
    conn = conns['pull'] if pull else conns['trad']
    if isinstance(obj, CIMInstanceName):
        obj = obj.copy()
    kw = {k: v for k, v in flt.items() if v is not None}
    try:
        if name.startswith('Open'):
            r = getattr(conn, name)(obj, MaxObjectCount=1, **kw)
            items = list(r[0])
            while not r.eos:
                if name.endswith('Paths'):
                    r = conn.PullInstancePaths(r.context, MaxObjectCount=1)
                else:
                    r = conn.PullInstancesWithPath(r.context, MaxObjectCount=1)
                items.extend(r[0])
        elif name.startswith('Iter'):
            items = list(getattr(conn, name)(obj, MaxObjectCount=1, **kw))
        else:
            items = getattr(conn, name)(obj, **kw)
    except CIMError as exc:
        return ('err', code_name(exc.status_code))
    except Exception as exc:  # noqa: raised by pywbem; judged as 'raised'
        return ('exc', exc_what(exc))
    out = []
    for it in items:
        if isinstance(it, tuple):           # class level full operation: (classpath, class)
            it = it[0]
        elif isinstance(it, CIMInstance):
            it = it.path
        if isinstance(it, CIMClassName):
            out.append((cpkey(it), host_of(it)))
        else:
            out.append((ipkey(it), host_of(it)))
    return ('ok', sorted(out, key=repr))


def keyset(outcome):
    """result as a set of keys; a documented error answer counts as the empty result"""
    if outcome[0] == 'ok':
        return {k for k, _ in outcome[1]}
    return set()


def raised_what(outcome, invalid):
    if outcome[0] == 'exc':
        return outcome[1]
    if outcome[0] == 'err':
        if outcome[1] != 'CIM_ERR_INVALID_PARAMETER':
            return 'CIMError:' + outcome[1]
        if not invalid:
            return 'CIMError:CIM_ERR_INVALID_PARAMETER-for-valid-filters'
    return None


def nvf_what(o1, o2):
    if o1[0] == 'exc' or o2[0] == 'exc':
        return None
    if o1[0] == 'err' or o2[0] == 'err':
        if o1[0] != o2[0]:
            return 'error-vs-result'
        return None if o1[1] == o2[1] else 'codes-differ'
    if o1[1] == o2[1]:
        return None
    if sorted(k for k, _ in o1[1]) == sorted(k for k, _ in o2[1]):
        return 'host-differs'
    return 'paths-differ'


def ref_what(outcome, expected, x):
    if outcome[0] == 'exc':
        return None
    obs = keyset(outcome)
    parts = []
    if expected - obs:
        parts.append('missing')
    extra = obs - expected
    if x in extra:
        parts.append('extra-source-itself')
        extra = extra - {x}
    if extra:
        parts.append('extra')
    return '+'.join(parts) or None


def expected_for(fam, insts, src, x, flt):
    if fam == 'assoc':
        return RM.associators(CLASSES, insts, x, flt.get('AssocClass'), flt.get('ResultClass'),
                              flt.get('Role'), flt.get('ResultRole'))
    return RM.references(CLASSES, insts, NS[src[-1]], x, flt.get('ResultClass'), flt.get('Role'))


def mirror(flt):
    m = {}
    if flt.get('AssocClass') is not None:
        m['AssocClass'] = flt['AssocClass']
    if flt.get('Role') is not None:
        m['ResultRole'] = flt['Role']
    if flt.get('ResultRole') is not None:
        m['Role'] = flt['ResultRole']
    return m


def fset(flt):
    return '+'.join(f for f in FILTERS if flt.get(f) is not None) or '-'


def make_sig(check, what, op, flt):
    return dict(check=check, what=what, op=op, filters=fset(flt))


# ------------------------------------------------------------------------------------------
# single-point verdicts (replay and minimisation); the batch loops below use the same helpers

def verdicts(case):
    """-> list of (what, expected, observed) for the recorded check at the recorded point"""
    gspec = case['graph']
    check = case['check']
    op = case['op']
    flt = {k: v for k, v in (case.get('filters') or {}).items() if v is not None}
    need_pull = '[pull]' in op
    conn, created = build(gspec)
    conns = {'trad': conn}
    if need_pull:
        conns['pull'] = build(gspec, pull=True)[0]
    out = []
    if op == 'CreateInstance':
        for cand, rec in zip(gspec['assocs'], created):
            if cand[2] == 'create' and rec['status'].startswith('exc:'):
                out.append((rec['status'][4:], 'instance path or CIMError', rec['status']))
        return out
    src = case['source']
    obj = source_object(src, created)
    if obj is None:
        return out
    level = 'class' if src[0] == 'class' else 'inst'
    fam = OP_FAMILY[op.split('/')[0]]
    invalid = invalid_filters(fam, flt, src[1] if level == 'class' else None)
    insts, stored = read_raw(conn)
    x = None
    if level == 'inst':
        x = ipkey(obj)
        if x not in stored[src[-1]]:
            return out
    if check == 'names-vs-full':
        n, f = op.split('/')
        o1, o2 = run_op(conns, n, obj, flt), run_op(conns, f, obj, flt)
        w = nvf_what(o1, o2)
        if w:
            out.append((w, {n: list(o1)}, {f: list(o2)}))
        return out
    # per-operation checks; 'Names/Full' means: both operations show the same failure
    per_op = []
    for one in op.split('/'):
        w = exp = obs = None
        if check == 'raised':
            o = run_op(conns, one, obj, flt)
            w = raised_what(o, invalid)
            exp, obs = 'result or CIM_ERR_INVALID_PARAMETER for %s' % (invalid or 'nothing'), list(o)
        elif check == 'reference-model':
            o = run_op(conns, one, obj, flt)
            e = expected_for(fam, insts, src, x, flt)
            w = ref_what(o, e, x)
            exp, obs = sorted(e), list(o)
        elif check == 'monotone':
            added = case['added']
            base = {k: v for k, v in flt.items() if k not in added}
            o_small, o_big = run_op(conns, one, obj, base), run_op(conns, one, obj, flt)
            if o_small[0] != 'exc' and o_big[0] != 'exc' and keyset(o_big) - keyset(o_small):
                w = 'filter-adds-results'
            exp, obs = {'without %s' % '+'.join(added): list(o_small)}, {'with': list(o_big)}
        elif check == 'symmetry':
            yobj = source_object(case['other'], created)
            if yobj is None:
                return out
            y = ipkey(yobj)
            o_x = run_op(conns, one, obj, flt)
            o_y = run_op(conns, one, yobj, mirror(flt))
            if o_x[0] != 'exc' and o_y[0] != 'exc' and y in keyset(o_x) and x not in keyset(o_y):
                w = 'not-symmetric'
            exp, obs = '%s in %s(%s; mirrored filters)' % (x, one, y), list(o_y)
        per_op.append((w, exp, obs))
    whats = {w for w, _e, _o in per_op}
    if len(whats) == 1 and None not in whats:
        out.append((per_op[0][0], per_op[0][1], [o for _w, _e, o in per_op]
                    if len(per_op) > 1 else per_op[0][2]))
    return out


def minimise(case, what):
    """greedy: drop association instances, drop filters, shrink the node family; keep `what`"""
    def fails(c):
        return any(w == what for w, _, _ in verdicts(c))

    def drop_assoc(c, i):
        c2 = copy.deepcopy(c)
        del c2['graph']['assocs'][i]
        for fld in ('source', 'other'):
            s = c2.get(fld)
            if s is not None and s[0] == 'assoc':
                if s[1] == i:
                    return None
                if s[1] > i:
                    s[1] -= 1
        return c2
    changed = True
    while changed:
        changed = False
        for i in reversed(range(len(case['graph']['assocs']))):
            c2 = drop_assoc(case, i)
            if c2 is not None and fails(c2):
                case = c2
                changed = True
        for f in FILTERS:
            if (case.get('filters') or {}).get(f) is not None and f not in (case.get('added') or []):
                c2 = copy.deepcopy(case)
                del c2['filters'][f]
                if fails(c2):
                    case = c2
                    changed = True
        if case['graph']['nodes'] != 'small':
            c2 = copy.deepcopy(case)
            c2['graph']['nodes'] = 'small'
            if fails(c2):
                case = c2
                changed = True
    return case


class Reporter:
    """minimises the first occurrence of every raw signature of a shard and reports every
    occurrence under the minimised signature"""

    def __init__(self, acc, do_min=True):
        self.acc = acc
        self.do_min = do_min
        self.cache = {}

    def report(self, check, what, op, flt, case, expected, observed):
        raw = sigkey(make_sig(check, what, op, flt))
        hit = self.cache.get(raw)
        if hit is None:
            case = dict(case, check=check, op=op, filters=dict(flt))
            if self.do_min:
                case = minimise(case, what)
                for w, e, o in verdicts(case):
                    if w == what:
                        expected, observed = e, o
                        break
            sig = make_sig(check, what, op, case.get('filters') or {})
            hit = (sig, case, expected, observed)
            self.cache[raw] = hit
        self.acc.violation(*hit)


# ------------------------------------------------------------------------------------------
# batch evaluation of one graph

def gkey(gspec):
    return json.dumps(gspec, sort_keys=True)


def variant_label(n_op):
    if n_op.startswith('Open'):
        return ':open'
    if n_op.startswith('Iter'):
        return ':iter[pull]' if n_op.endswith('[pull]') else ':iter'
    return ''


def judge_family(rep, acc, conns, gspec, gk, src, obj, fam, tuples, pair, insts, x,
                 level, keep=None, baseline=None):
    """run the (names, full) pair on every tuple for one source; judge raised / names-vs-full /
    reference-model / monotone.
    keep: dict that receives the result sets (for the symmetry check)
    baseline: the `found` dict of the traditional pair at the same source; a variant operation
    (Open.../Iter...) that shows exactly what the traditional operation shows at the same point is
    the same failure and is not reported again.
    -> found: {tuple key: set of (check, what, slot)}, slot 0 = Names, 1 = full, 2 = both"""
    n_op, f_op = pair
    res = {}
    found = {}
    base_case = {'graph': gspec, 'source': src}

    def report(tk, slot, check, what, op, flt, case, exp, obs):
        found.setdefault(tk, set()).add((check, what, slot))
        if baseline is not None and (check, what, slot) in baseline.get(tk, ()):
            acc.count('variant_failures_same_as_traditional')
            return
        rep.report(check, what, op, flt, case, exp, obs)

    def per_op(tk, check, w1, w2, flt, case, exp, obs1, obs2):
        """a failure both operations show identically is one failure of the pair"""
        if w1 and w1 == w2:
            report(tk, 2, check, w1, n_op + '/' + f_op, flt, case, exp, [obs1, obs2])
        else:
            if w1:
                report(tk, 0, check, w1, n_op, flt, case, exp, obs1)
            if w2:
                report(tk, 1, check, w2, f_op, flt, case, exp, obs2)

    for flt in tuples:
        o1 = run_op(conns, n_op, obj, flt)
        o2 = run_op(conns, f_op, obj, flt)
        tk = tkey(fam, flt)
        res[tk] = (o1, o2)
        invalid = invalid_filters(fam, flt, src[1] if level == 'class' else None)
        exp = expected_for(fam, insts, src, x, flt) if level == 'inst' else None
        nbad = len(found.get(tk, ()))
        want = 'result or CIM_ERR_INVALID_PARAMETER for %s' % (invalid or 'nothing')
        per_op(tk, 'raised', raised_what(o1, invalid), raised_what(o2, invalid), flt, base_case,
               want, list(o1), list(o2))
        if exp is not None:
            per_op(tk, 'reference-model', ref_what(o1, exp, x), ref_what(o2, exp, x), flt,
                   base_case, sorted(exp), list(o1), list(o2))
        w = nvf_what(o1, o2)
        if w:
            report(tk, 2, 'names-vs-full', w, n_op + '/' + f_op, flt, base_case,
                   {n_op: list(o1)}, {f_op: list(o2)})
        bad = len(found.get(tk, ())) > nbad
        if o1[0] == 'exc' or o2[0] == 'exc':
            cls = 'raised'
        elif o1[0] == 'err':
            cls = 'error:' + o1[1]
        elif o1[1] or o2[1] or exp:
            cls = 'nonempty'
        else:
            cls = 'empty'
        nontrivial = cls == 'nonempty'
        acc.case((gk, tuple(src), n_op, tk), nontrivial=nontrivial,
                 outcome='%s:%s%s:%s%s' % (level, fam, variant_label(n_op), cls,
                                           ':VIOLATION' if bad else ''),
                 calls=2,
                 sample=(dict(graph=gspec, source=src, op=n_op, filters=flt, result=list(o1))
                         if nontrivial and len(flt) >= 1 and o1[0] == 'ok' and o1[1] and
                         getattr(acc, 'c13_samples', False) and gspec['assocs'] else None))
    # monotone over the evaluated lattice
    evaluated = set(res)
    for flt in tuples:
        if not flt:
            continue
        tk = tkey(fam, flt)
        for p, dropped in parents(fam, flt, evaluated):
            pk = tkey(fam, p)
            ws = []
            for i in (0, 1):
                big, small = res[tk][i], res[pk][i]
                if big[0] == 'exc' or small[0] == 'exc':
                    ws.append(None)
                    continue
                acc.count('monotone_checks')
                ws.append('filter-adds-results' if keyset(big) - keyset(small) else None)
            if ws[0] or ws[1]:
                per_op(tk, 'monotone', ws[0], ws[1], flt, dict(base_case, added=list(dropped)),
                       {'without %s' % '+'.join(dropped): [list(res[pk][0]), list(res[pk][1])]},
                       {'with': list(res[tk][0])}, {'with': list(res[tk][1])})
    if keep is not None:
        keep[tuple(src)] = {tkey(fam, flt): (flt, keyset(res[tkey(fam, flt)][0]),
                                             keyset(res[tkey(fam, flt)][1]),
                                             res[tkey(fam, flt)][0][0], res[tkey(fam, flt)][1][0])
                            for flt in tuples}
    return found


def tuples_for(fam, lv):
    return filter_tuples(fam, lv['nf'], lv.get('nf_exist', 0), lv.get('allfour', False))


def eval_graph(gspec, tier, acc, rep):
    gk = gkey(gspec)
    pl = plan_for(tier, gspec)
    conn, created = build(gspec)
    conns = {'trad': conn}
    for cand, rec in zip(gspec['assocs'], created):
        out = 'created:' + (rec['status'].split('@')[0] if rec['status'] != 'ok' else 'ok')
        acc.outcome(out)
        if cand[2] == 'create' and rec['status'].startswith('exc:'):
            rep.report('raised', rec['status'][4:], 'CreateInstance', {}, {'graph': gspec},
                       'instance path or CIMError', rec['status'])
    acc.count('graphs')
    acc.count('association_instances_created', sum(1 for r in created if r['status'] == 'ok'))
    insts, stored = read_raw(conn)
    referenced = {v for inst in insts for _n, v, _c in inst.refs if v is not None}
    srcs = sources_of(gspec, created, stored)
    keep = {}
    found = {}
    xs = {}
    for src in srcs:
        obj = source_object(src, created)
        x = xs[tuple(src)] = ipkey(obj)
        lv = pl['referenced'] if x in referenced else pl['isolated']
        acc.count('sources')
        fa = judge_family(rep, acc, conns, gspec, gk, src, obj, 'assoc', tuples_for('assoc', lv),
                          TRAD_PAIRS['assoc'], insts, x, 'inst', keep=keep)
        fr = judge_family(rep, acc, conns, gspec, gk, src, obj, 'ref', tuples_for('ref', lv),
                          TRAD_PAIRS['ref'], insts, x, 'inst')
        found[tuple(src)] = {'assoc': fa, 'ref': fr}
    # symmetry on the stored AssociatorNames / Associators results
    by_key = {xs[tuple(s)]: s for s in srcs}
    for src in srcs:
        x = xs[tuple(src)]
        for tk in keep[tuple(src)]:
            flt, names_set, full_set, st_n, st_f = keep[tuple(src)][tk]
            if flt.get('ResultClass') is not None:
                continue
            mk = tkey('assoc', mirror(flt))
            back_all = {}
            for i in (0, 1):
                if (st_n, st_f)[i] == 'exc':
                    continue
                for y in sorted((names_set, full_set)[i]):
                    other = by_key.get(y)
                    if other is None:
                        acc.count('symmetry_target_not_a_source')
                        continue
                    back = keep[tuple(other)].get(mk)
                    if back is None or back[3 + i] == 'exc':
                        continue
                    acc.count('symmetry_checks')
                    if x not in back[1 + i]:
                        back_all.setdefault(y, {})[i] = sorted(back[1 + i])
            for y in sorted(back_all):
                fails = back_all[y]
                ops = TRAD_PAIRS['assoc']
                op = '/'.join(ops) if len(fails) == 2 else ops[list(fails)[0]]
                rep.report('symmetry', 'not-symmetric', op, flt,
                           {'graph': gspec, 'source': src, 'other': by_key[y]},
                           '%s in %s(%s; mirrored filters)' % (x, op, y),
                           [fails[i] for i in sorted(fails)])
    # Open... / Iter... variants (reduced set)
    if pl['variants'] is not None:
        if any('[pull]' in n for n, _f in pl['variants']['pairs']['assoc']):
            conns['pull'] = build(gspec, pull=True)[0]
        for src in srcs:
            obj = source_object(src, created)
            x = xs[tuple(src)]
            lv = pl['variants']['referenced' if x in referenced else 'isolated']
            for fam in ('assoc', 'ref'):
                for pair in pl['variants']['pairs'][fam]:
                    judge_family(rep, acc, conns, gspec, gk, src, obj, fam, tuples_for(fam, lv),
                                 pair, insts, x, 'inst', baseline=found[tuple(src)][fam])


# ------------------------------------------------------------------------------------------
# class level

CLASS_SOURCES = CLASSNAMES + ['a', 'NoSuch']


def class_graphs():
    return [{'nodes': 'small', 'assocs': []},
            {'nodes': 'small', 'assocs': [['R', 'd', 'create', [_end('x', 'A', 'a1'),
                                                                _end('y', 'B', 'b1')]]]}]


def eval_class(gspec, cname, tier, acc, rep):
    gk = gkey(gspec)
    conn, _created = build(gspec)
    conns = {'trad': conn}
    src = ['class', cname]
    nf = 2 if tier == 'quick' else 4
    a_tuples = filter_tuples('assoc', nf, 0, True)
    r_tuples = filter_tuples('ref', 2)
    acc.count('class_sources')
    judge_family(rep, acc, conns, gspec, gk, src, cname, 'assoc', a_tuples,
                 TRAD_PAIRS['assoc'], None, None, 'class')
    judge_family(rep, acc, conns, gspec, gk, src, cname, 'ref', r_tuples,
                 TRAD_PAIRS['ref'], None, None, 'class')


# ------------------------------------------------------------------------------------------
# runner interface

def graph_cost(tier, gspec):
    """rough number of operation calls, weighted by the store size (only used to cut shards)"""
    pl = plan_for(tier, gspec)
    nsrc = len(NODES[gspec['nodes']]['d']) + len(gspec['assocs'])
    if touches_other(gspec):
        nsrc += len(NODES[gspec['nodes']]['o']) + 1
    nref = len({tuple(e[1:]) for c in gspec['assocs'] for e in c[3] if e[1] is not None})
    nref = min(nref, nsrc)
    cost = 0.0
    for cnt, lv in ((nref, 'referenced'), (nsrc - nref, 'isolated')):
        per = 2 * (len(tuples_for('assoc', pl[lv])) + len(tuples_for('ref', pl[lv])))
        if pl['variants'] is not None:
            v = pl['variants']
            per += 2 * len(v['pairs']['assoc']) * (len(tuples_for('assoc', v[lv])) +
                                                   len(tuples_for('ref', v[lv])))
        cost += cnt * per
    return cost * (1.0 + 0.15 * nsrc) + 40


def plan(tier, seed):
    shards = []
    for gi in range(len(class_graphs())):
        for cname in CLASS_SOURCES:
            shards.append(dict(check='class', graph=gi, source=cname))
    gs = graphs(tier)
    costs = [graph_cost(tier, g) for g in gs]
    target = sum(costs) / 200.0
    lo, cur = 0, 0.0
    for i, c in enumerate(costs):
        cur += c
        if cur >= target:
            shards.append(dict(check='inst', lo=lo, hi=i + 1))
            lo, cur = i + 1, 0.0
    if lo < len(gs):
        shards.append(dict(check='inst', lo=lo, hi=len(gs)))
    return shards


_GRAPHS = {}


def run_shard(shard, tier):
    warnings.simplefilter('ignore')
    acc = Acc()
    rep = Reporter(acc)
    if shard['check'] == 'class':
        eval_class(class_graphs()[shard['graph']], shard['source'], tier, acc, rep)
        return acc
    if tier not in _GRAPHS:
        _GRAPHS[tier] = graphs(tier)
    # samples only from the shard of graph 1, so that the evidence does not depend on shard order
    acc.c13_samples = (shard['lo'] <= 1 < shard['hi'])
    for gspec in _GRAPHS[tier][shard['lo']:shard['hi']]:
        eval_graph(gspec, tier, acc, rep)
    return acc


def replay(case, tier):
    warnings.simplefilter('ignore')
    acc = Acc()
    for what, exp, obs in verdicts(case):
        acc.violation(make_sig(case['check'], what, case['op'], case.get('filters') or {}),
                      case, exp, obs)
    return acc


def snippet(case):
    return ('import sys; sys.path.insert(0, "/verif")\n'
            'import mc\n'
            'from checks import c13_associations as c\n'
            'def test_replay():\n'
            '    # graph: %s\n'
            '    assert not c.verdicts(%r)\n' %
            (' + '.join(cand_kind(a) for a in case['graph']['assocs']) or 'no association instance',
             case))
