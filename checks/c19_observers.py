"""C19 — logging, recorders, statistics and debug never change what an operation returns (mode D,
differential against the bare connection).

Scenarios come from the C02 templates (valid responses of every operation family, CIM errors,
parse errors, invalid UTF-8, HTTP errors, transport exceptions). For every scenario the operation is
run once on a bare connection and once under every observer configuration; outcome, raw
request/reply, the requests as sent (header set and body), statistics and password hygiene are
compared.
"""
import base64
import io
import itertools
import json
import logging
import os
import warnings

import pywbem
from pywbem import Error, CIMError

from mc.core import Acc, HarnessError
from mc import transport
from mc.objdump import dump, diff, path_class
from checks import c02_bad_responses as R

ID = 'C19'
RULE = ('scenario = (operation, response template, deviation); configuration = logger name x '
        'destination x detail level (named levels, and every integer 0..R+2 on the multi-byte '
        'scenarios) x TestClientRecorder x statistics x debug; each pair is executed and compared '
        'with the bare run of the same scenario; non-trivial = at least one observer was active')
ASSUMPTIONS = ['the scripted transport (mc/transport.py) and the C02 response templates',
               'log output is read from an in-memory handler on the pywbem loggers (plus the file '
               'or stream the configuration names)',
               'outcome equality = equal strict dump of the result, or same exception class and args']
BOUNDS = {'quick': {'integer_levels': 'all 0..R+2 on 3 multi-byte scenarios (http and api logger)'},
          'thorough': {'integer_levels': 'all 0..R+2 on the 46 hand-picked scenarios (not on the additional undeviated templates)'}}
NSHARDS = 64
PASSWORD = 'pa$$w%rd(.*)\\1{0}'
USER = 'user'

# (operation, template, deviation or None)
SCENARIOS = [
    ('EnumerateInstances', 'ok', None), ('EnumerateInstances', 'empty', None), ('GetInstance', 'c16', None),
    ('Associators', 'ok', None), ('AssociatorNames', 'ok', None), ('References', 'cls', None),
    ('EnumerateClasses', 'ok', None), ('GetClass', 'ok', None), ('EnumerateQualifiers', 'ok', None),
    ('InvokeMethod', 'ok', None), ('InvokeMethod', 'static', None), ('CreateInstance', 'ok', None),
    ('ModifyInstance', 'ok', None), ('DeleteInstance', 'ok', None), ('SetQualifier', 'ok', None),
    ('OpenEnumerateInstances', 'ok', None), ('PullInstancesWithPath', 'ok', None),
    ('OpenAssociatorInstancePaths', 'ok', None), ('CloseEnumeration', 'ok', None),
    ('IterEnumerateInstances', 'ok', None), ('IterReferenceInstancePaths', 'ok', None),
    ('ExportIndication', 'ok', None),
    ('EnumerateInstances', 'error', None), ('EnumerateInstances', 'errorinst', None),
    ('InvokeMethod', 'error', None), ('PullInstances', 'error', None), ('ExecQuery', 'error', None),
    ('EnumerateInstances', 'ok', ['trunc', 300]), ('EnumerateInstances', 'ok', ['rename', 3, 'BOGUS']),
    ('Associators', 'ok', ['byte', 400, 3]), ('Associators', 'ok', ['byte', 400, 2]),
    ('GetInstance', 'ok', ['body', 2]), ('GetInstance', 'ok', ['body', 4]), ('GetInstance', 'ok', ['body', 0]),
    ('GetClass', 'ok', ['attr-set', 5, 'NAME', 'é']), ('InvokeMethod', 'ok', ['text', 5, 'x']),
    ('EnumerateInstances', 'ok', ['http', 4]), ('EnumerateInstances', 'ok', ['http', 7]),
    ('EnumerateInstances', 'ok', ['http', 13]), ('GetInstance', 'ok', ['http', 16]),
    ('GetInstance', 'ok', ['http', 21]), ('GetInstance', 'ok', ['http', 26]),
    ('EnumerateInstances', 'ok', ['exc', 0]), ('EnumerateInstances', 'ok', ['exc', 2]),
    ('InvokeMethod', 'ok', ['exc', 4]), ('OpenEnumerateInstances', 'ok', ['exc', 15]),
]
MULTIBYTE = [('Associators', 'ok', None), ('EnumerateInstances', 'errorinst', None),
             ('Associators', 'ok', ['byte', 400, 3])]


def named_configs():
    loggers = [None] + [(n, d, l) for n in ('api', 'http', 'all') for d in ('stderr', 'file')
                        for l in ('all', 'paths', 'summary')]
    for lg, tcr, stats, debug in itertools.product(loggers, ('off', 'on', 'disabled'), (False, True), (False, True)):
        yield dict(logger=lg, tcr=tcr, stats=stats, debug=debug)
    for n in ('api', 'http', 'all'):
        for lvl in (None, 0, 1, 10):
            yield dict(logger=(n, 'stderr', lvl), tcr='on', stats=True, debug=True)
        yield dict(logger=(n, 'stderr', 'all'), tcr='off', stats=False, debug=False, extra_log_recorder=True)


# ------------------------------------------------------------------------------------------

class _Capture(logging.Handler):
    def __init__(self):
        super().__init__()
        self.lines = []

    def emit(self, record):
        try:
            self.lines.append(record.getMessage())
        except Exception as exc:   # noqa
            self.lines.append('<<format error %r>>' % (exc,))


def _reset_logging():
    pywbem.WBEMConnection._reset_logging_config()
    for name in ('pywbem.api', 'pywbem.http'):
        lg = logging.getLogger(name)
        for h in list(lg.handlers):
            lg.removeHandler(h)
            try:
                h.close()
            except Exception:   # noqa
                pass
        lg.setLevel(logging.NOTSET)
        lg.propagate = True
    for name in list(logging.Logger.manager.loggerDict):
        if name.startswith('pywbem.api.') or name.startswith('pywbem.http.'):
            lg = logging.getLogger(name)
            for h in list(lg.handlers):
                lg.removeHandler(h)


def run(scn, cfg):
    """-> dict(outcome, raw_request_ok, raw_reply_ok, stats, text) for one scenario under one config"""
    import contextlib
    err = io.StringIO()
    with contextlib.redirect_stderr(err):
        res = _run(scn, cfg)
    res['text'] = res['text'] + '\n' + err.getvalue()
    return res


PRIOR = ('EnumerateInstances', 'ok')


def _run(scn, cfg):
    op, tname, dev = scn[:3]
    prior = len(scn) > 3 and scn[3]      # a successful operation on the same connection first
    tps = R.templates()
    tp = tps[(op, tname)]
    resp = R.apply(dev, tp['bodies'][0], tp['headers'], tps, (op, tname)) if dev else \
        (200, 'OK', dict(tp['headers']), tp['bodies'][0])
    later = list(tp['bodies'][1:])
    sent, replies, wire = [], [], []

    pending_prior = [tps[PRIOR]] if prior else []

    def handler(request):
        if pending_prior:
            t0 = pending_prior.pop()
            return 200, 'OK', dict(t0['headers']), t0['bodies'][0]
        sent.append(transport.request_body(request))
        # what actually goes on the wire: header set and body of every request
        wire.append([sorted((str(k), v.decode('latin-1') if isinstance(v, bytes) else str(v))
                            for k, v in request.headers.items()),
                     transport.request_body(request).decode('utf-8', 'replace')])
        if len(sent) == 1:
            if isinstance(resp, BaseException):
                raise resp
            replies.append(resp[3] if resp[0] == 200 else None)
            return resp
        body = later[min(len(sent) - 2, len(later) - 1)] if later else tp['bodies'][0]
        replies.append(body)
        return 200, 'OK', dict(tp['headers']), body
    _reset_logging()
    kw = {'use_pull_operations': True} if op.startswith('Iter') else {}
    # with a prior operation, statistics are switched on only after it (enable() at run time)
    conn, _ = transport.connect(handler, default_namespace='root/cimv2', creds=(USER, PASSWORD),
                                stats_enabled=bool(cfg and cfg['stats']) and not prior, **kw)
    text = []
    cap = None
    recorder_out = None
    scratch = os.environ.get('MC_SCRATCH', '/var/tmp')
    logfile = os.path.join(scratch, 'c19-%d.log' % os.getpid())
    if cfg:
        conn.debug = cfg['debug']
        lg = cfg['logger']
        if lg:
            name, dest, level = lg
            kwl = dict(log_dest=dest, connection=conn, log_filename=logfile)
            if level is not None or True:
                kwl['detail_level'] = level
            pywbem.configure_logger(name, **kwl)
            cap = _Capture()
            for n in ('pywbem.api', 'pywbem.http'):
                for ln in list(logging.Logger.manager.loggerDict):
                    if ln == n or ln.startswith(n + '.'):
                        logging.getLogger(ln).addHandler(cap)
            # stream handlers write to the real stderr: redirect them to memory
            for ln in list(logging.Logger.manager.loggerDict):
                if ln.startswith('pywbem.'):
                    for h in logging.getLogger(ln).handlers:
                        if isinstance(h, logging.StreamHandler) and not isinstance(h, logging.FileHandler) \
                                and h is not cap:
                            h.setStream(io.StringIO())
        if cfg['tcr'] != 'off':
            recorder_out = io.StringIO()
            rec = pywbem.TestClientRecorder(recorder_out)
            conn.add_operation_recorder(rec)
            if cfg['tcr'] == 'disabled':
                rec.disable()
        if cfg.get('extra_log_recorder'):
            from pywbem._recorder import LogOperationRecorder
            try:
                conn.add_operation_recorder(LogOperationRecorder(conn.conn_id))
            except ValueError:
                pass   # a recorder of that class is already attached (documented)
    try:
        if prior:
            R._call(conn, PRIOR[0], tps[PRIOR]['args'])
            if cfg and cfg['stats']:
                conn.statistics.enable()
        try:
            r = R._call(conn, op, tp['args'])
            outcome = ['ok', _dump_result(r)]
        except Error as exc:
            outcome = ['raised', type(exc).__name__, _args(exc)]
        except Exception as exc:   # noqa: an escaping exception is compared like any other outcome
            outcome = ['escaped', type(exc).__name__, repr(exc)[:200]]
        res = dict(outcome=outcome, wire=wire)
        raw_req = conn.last_raw_request
        if isinstance(raw_req, str):
            raw_req = raw_req.encode('utf-8')
        res['raw_request_ok'] = (raw_req is None and not sent) or \
            (raw_req is not None and bool(sent) and sent[-1].endswith(raw_req))
        raw_rep = conn.last_raw_reply
        if isinstance(raw_rep, str):
            raw_rep = raw_rep.encode('utf-8', 'surrogateescape')
        # the reply of a request that was answered with HTTP 200; transport failures and HTTP
        # error statuses have no CIM-XML reply (None expected or the body, both accepted)
        last = replies[-1] if len(replies) == len(sent) and replies else None
        # responses that wbem_request() itself rejects (HTTP status, Content-type, transport
        # errors) are not CIM-XML replies: None is accepted there
        rejected_early = outcome[0] != 'ok' and outcome[1] not in ('CIMError', 'CIMXMLParseError', 'XMLParseError')
        # whatever it is, it is something THIS operation received (never a reply of an earlier one)
        own = [None] + [b for b in replies if b is not None] + \
            ([resp[3]] if isinstance(resp, tuple) else [])
        res['raw_reply_ok'] = ((raw_rep == last) or (last is None) or (rejected_early and raw_rep is None)) \
            and raw_rep in own
        rl = conn.last_reply_len
        res['reply_len_ok'] = rl in [0] + [len(b) for b in own if b is not None]
        if cfg and cfg['stats']:
            st = {}
            for name, s in conn.statistics.snapshot():
                st[name] = (s.count, s.exception_count)
            res['stats'] = st
        if cap:
            text.extend(cap.lines)
        if recorder_out is not None:
            text.append(recorder_out.getvalue())
        if cfg and cfg['logger'] and cfg['logger'][1] == 'file' and os.path.exists(logfile):
            for ln in list(logging.Logger.manager.loggerDict):
                if ln.startswith('pywbem.'):
                    for h in logging.getLogger(ln).handlers:
                        h.flush()
            with open(logfile, encoding='utf-8', errors='replace') as f:
                text.append(f.read())
        text.append(str(conn))
        text.append(repr(conn))
        res['text'] = '\n'.join(text)
        return res
    finally:
        _reset_logging()
        if os.path.exists(logfile):
            os.unlink(logfile)


def _args(exc):
    out = []
    for a in exc.args:
        if isinstance(a, (str, int, type(None))):
            out.append(a)
        elif isinstance(a, list):
            out.append(['list', len(a)])
        else:
            out.append(type(a).__name__)
    if isinstance(exc, CIMError):
        out.append(['status', exc.status_code])
    return out


def _dump_result(r):
    if isinstance(r, tuple) and hasattr(r, '_fields'):
        return ['nt'] + [[f, _dump_result(getattr(r, f))] for f in r._fields]
    if isinstance(r, (list, tuple)):
        return ['seq', [_dump_result(x) for x in r]]
    if hasattr(r, 'items') and not hasattr(r, 'classname'):
        return ['dict', [[k, _dump_result(v)] for k, v in r.items()]]
    return dump(r)


_BARE = {}


def bare(scn):
    k = json.dumps(scn)
    if k not in _BARE:
        _BARE[k] = run(scn, None)
    return _BARE[k]


# the password, a prefix of it that survives any escaping of the backslash, and the Basic credentials
SECRETS = [PASSWORD, 'pa$$w%rd(.*)', base64.b64encode(('%s:%s' % (USER, PASSWORD)).encode()).decode()]


def compare(scn, cfg, acc):
    b = bare(scn)
    o = run(scn, cfg)
    active = bool(cfg['logger'] or cfg['tcr'] != 'off' or cfg['stats'] or cfg['debug'])
    lg = cfg['logger']
    cfg_class = 'logger=%s level=%s tcr=%s' % (lg[0] if lg else '-',
                                               ('int' if isinstance(lg[2], int) else lg[2]) if lg else '-',
                                               cfg['tcr'])
    acc.case((json.dumps(scn), json.dumps(cfg, sort_keys=True)), nontrivial=active,
             outcome='%s|%s' % (o['outcome'][0] if o['outcome'][0] == 'ok' else o['outcome'][1],
                                'same' if o['outcome'] == b['outcome'] else 'DIFFERS'),
             calls=2, sample=dict(scenario=scn, config=cfg) if lg and isinstance(lg[2], int) and lg[2] == 7 else None)
    case = dict(check='observers', scenario=scn, config=cfg)
    # scenarios about one particular calling convention carry it in the signature
    X = {'scenario': '%s/%s' % (scn[0], scn[1])} if scn[1] == 'errorkw' else {}
    if o['outcome'] != b['outcome']:
        what = 'outcome-differs:%s->%s' % (b['outcome'][0] if b['outcome'][0] == 'ok' else b['outcome'][1],
                                           o['outcome'][0] if o['outcome'][0] == 'ok' else o['outcome'][1])
        acc.violation(dict(X, check='observers', what=what, observer=_observer_class(cfg, b, o, scn)),
                      case, b['outcome'][:3], o['outcome'][:3])
    if o['wire'] != b['wire']:
        # an observer must not change what is sent either (the server's answer depends on it)
        what = 'request-count'
        for (bh, bb), (oh, ob) in zip(b['wire'], o['wire']):
            if bh != oh:
                names = sorted(set(k for k, _ in set(map(tuple, bh)) ^ set(map(tuple, oh))))
                what = 'header:' + ','.join(names)
                break
            if bb != ob:
                what = 'body'
                break
        acc.violation(dict(X, check='wire', what='request-differs:' + what,
                           observer=_observer_class(cfg, b, o, scn, field='wire')),
                      case, str(b['wire'])[:300], str(o['wire'])[:300])
    if not b['raw_request_ok'] or not b['raw_reply_ok']:
        acc.violation(dict(check='raw-data', what='bare:last_raw_request/reply differ from the bytes exchanged'),
                      dict(check='observers', scenario=scn, config=None), True, (b['raw_request_ok'], b['raw_reply_ok']))
    if not o['raw_request_ok'] or not o['raw_reply_ok']:
        acc.violation(dict(check='raw-data', what='last_raw_request/reply differ from the bytes exchanged'),
                      case, True, (o['raw_request_ok'], o['raw_reply_ok']))
    for r_, who in ((b, 'bare:'), (o, '')):
        if not r_.get('reply_len_ok', True):
            acc.violation(dict(check='raw-data', what=who + 'last_reply_len is not the length of a reply of this operation'),
                          case if not who else dict(check='observers', scenario=scn, config=None), True, False)
    if cfg['stats']:
        op = scn[0]
        st = o['stats']
        cnt, exc_cnt = st.get(op, (0, 0))
        raised = o['outcome'][0] != 'ok'
        if op.startswith('Iter'):
            # Iter* are counted under the Open/Pull/traditional operations they issue
            cnt = 1 if sum(c for c, _ in st.values()) >= 1 else 0
            exc_cnt = 1 if raised and sum(e for _, e in st.values()) >= 1 else (0 if not raised else -1)
        if cnt != 1 or exc_cnt != (1 if raised else 0):
            acc.violation(dict(X, check='statistics', what='count=%d exception_count=%d raised=%s' % (cnt, exc_cnt, raised)),
                          case, (1, 1 if raised else 0), (cnt, exc_cnt))
    for sec in SECRETS:
        if sec in o['text']:
            where = 'repr/str' if sec in o['text'][-2000:] and sec not in o['text'][:-2000] else 'log-or-recorder'
            acc.violation(dict(check='password', what='password-visible', where=where), case, 'not present', sec)


def _observer_class(cfg, b, o, scn, field='outcome'):
    """which single observer is responsible: re-run with each observer alone"""
    singles = [('logger', dict(logger=cfg['logger'], tcr='off', stats=False, debug=False)),
               ('tcr', dict(logger=None, tcr=cfg['tcr'], stats=False, debug=False)),
               ('stats', dict(logger=None, tcr='off', stats=True, debug=False)),
               ('debug', dict(logger=None, tcr='off', stats=False, debug=True))]
    blamed = []
    for name, c in singles:
        if name == 'logger' and not cfg['logger'] or name == 'tcr' and cfg['tcr'] == 'off' or \
                name == 'stats' and not cfg['stats'] or name == 'debug' and not cfg['debug']:
            continue
        if run(scn, c)[field] != b[field]:
            blamed.append(name)
    if blamed == ['logger']:
        lg = cfg['logger']
        return 'logger:%s:%s' % (lg[0], 'int' if isinstance(lg[2], int) else lg[2])
    if 'logger' in blamed or 'tcr' in blamed:
        # any operation recorder (the logger is a recorder too): one class
        rest = [x for x in blamed if x not in ('logger', 'tcr')]
        return '+'.join((['any-recorder'] if 'logger' in blamed and 'tcr' in blamed or len(blamed) > 1
                         else blamed[:1]) + rest)
    return '+'.join(blamed) or 'combination'


# ------------------------------------------------------------------------------------------

def max_len(scn):
    b = bare(scn)
    tps = R.templates()
    tp = tps[(scn[0], scn[1])]
    n = max(len(x) for x in tp['bodies'])
    return max(n, len(json.dumps(b['outcome'], default=repr))) + 800


def all_scenarios():
    """the hand-picked deviated scenarios plus EVERY response template of C02 undeviated (all
    operation families, successful query operations whose results carry no path included)"""
    have = {json.dumps(list(s)) for s in SCENARIOS}
    out = list(SCENARIOS)
    for op, name in sorted(R.templates()):
        s = (op, name, None)
        if json.dumps(list(s)) not in have:
            out.append(s)
    return out


def prior_scenarios():
    """every scenario that can fail before a reply exists (HTTP status / transport exception / bad
    body) and a few others, preceded by a successful operation on the same connection"""
    out = []
    for scn in all_scenarios():
        if scn[2] is None and scn[1] not in ('error', 'errorinst') and scn[0] != 'GetInstance':
            continue
        out.append(tuple(scn[:3]) + (True,))
    return out


def cases(tier):
    for scn in prior_scenarios():
        for cfg in named_configs():
            if cfg['logger'] is None or cfg['logger'][2] == 'all':
                yield list(scn), cfg
    for scn in all_scenarios():
        for cfg in named_configs():
            yield list(scn), cfg
    intscn = MULTIBYTE if tier == 'quick' else SCENARIOS      # (every template would take hours)
    for scn in intscn:
        R_ = max_len(scn)
        for n in range(0, R_ + 3):
            for name in ('http', 'api'):
                yield list(scn), dict(logger=(name, 'stderr', n), tcr='off', stats=False, debug=False)


# ------------------------------------------------------------------------------------------
# the mock connection's own (non-WBEM) methods under statistics: same outcome with and without

def mock_api_cases():
    for shape in ('single', 'list', 'nested', 'list-with-duplicate'):
        for ns in (None, 'root/cimv2'):
            for method in ('add_cimobjects', 'compile_mof_string'):
                yield dict(check='mock-api', method=method, shape=shape, namespace=ns)


def _mock_api_outcome(case, stats):
    import pywbem_mock
    from pywbem import CIMClass, CIMProperty
    conn = pywbem_mock.FakedWBEMConnection(stats_enabled=stats)

    def cls(n):
        return CIMClass(n, properties=[CIMProperty('k', None, type='string')])
    objs = {'single': cls('A'), 'list': [cls('A'), cls('B')], 'nested': [cls('A'), [cls('B'), [cls('C')]]],
            'list-with-duplicate': [cls('A'), cls('A')]}[case['shape']]
    try:
        if case['method'] == 'add_cimobjects':
            conn.add_cimobjects(objs, namespace=case['namespace'])
        else:
            flat = []

            def fl(o):
                if isinstance(o, list):
                    for x in o:
                        fl(x)
                else:
                    flat.append(o)
            fl(objs)
            conn.compile_mof_string(''.join(o.tomof() for o in flat), namespace=case['namespace'])
        out = ['ok']
    except Exception as exc:   # noqa: compared between the two runs
        out = ['raised', type(exc).__name__]
    return out + [sorted(conn.EnumerateClassNames(namespace=case['namespace']))]


def check_mock_api(case, acc):
    b, o = _mock_api_outcome(case, False), _mock_api_outcome(case, True)
    acc.case(('mock-api', json.dumps(case, sort_keys=True)), nontrivial=True,
             outcome='mock-api:%s|%s' % (o[0], 'same' if o == b else 'DIFFERS'), calls=4)
    if o != b:
        acc.violation(dict(check='mock-api', what='outcome-differs-with-statistics', method=case['method']),
                      case, b, o)


def plan(tier, seed):
    return [dict(check='observers', part=i, of=NSHARDS) for i in range(NSHARDS)] + [dict(check='mock-api')]


def run_shard(shard, tier):
    warnings.simplefilter('ignore')
    acc = Acc()
    if shard['check'] == 'mock-api':
        for case in mock_api_cases():
            check_mock_api(case, acc)
        return acc
    for i, (scn, cfg) in enumerate(cases(tier)):
        if i % shard['of'] == shard['part']:
            compare(scn, cfg, acc)
    return acc


def replay(case, tier):
    warnings.simplefilter('ignore')
    acc = Acc()
    if case.get('check') == 'mock-api':
        check_mock_api(case, acc)
        return acc
    cfg = case['config']
    if cfg is None:
        cfg = dict(logger=None, tcr='off', stats=False, debug=False)
    if cfg.get('logger'):
        cfg['logger'] = tuple(cfg['logger'])
    compare(case['scenario'], cfg, acc)
    return acc


def snippet(case):
    return ('import sys; sys.path.insert(0, "/verif")\nimport mc\nfrom checks import c19_observers as c\n'
            'def test_replay():\n    acc = c.replay(%r, "quick")\n    assert not acc.violations\n' % (case,))
