"""C12 — class inheritance is resolved correctly and class queries mirror the hierarchy (E + H).

Seam: pywbem_mock.FakedWBEMConnection — CreateClass / ModifyClass / compile_mof_string to build a
class forest, GetClass / EnumerateClasses / EnumerateClassNames / EnumerateInstances /
EnumerateInstanceNames / DeleteClass to observe it.  Oracle: mc/refmodels/resolver.py (DSP0004
rules as quoted in the property statement) plus the forest itself for children / subtree sets.

Shard families (shard key 'check'):
  content   depth-first enumeration of forests class by class (a trie of all forest shapes); every
            node of the search is one case: "class i, declared like this, on top of that prefix".
            The new class is compared with the reference view (signature check 'resolution') and,
            up to a smaller budget, queried with every flag / PropertyList combination
            ('flags-projection').  The creation paths CreateClass and ModifyClass share the prefix
            state (the class just checked is removed again through the object store API); the
            MOF path recompiles the whole prefix as one MOF text for every case.
  orders    every forest shape x small content x EVERY linear extension as creation order x
            three creation paths, each built from scratch; every class is checked as above and
            the hierarchy queries are compared with the forest ('enumerate', 'delete').

Violation signatures: {'check': resolution|flags-projection|enumerate|delete|raised, 'what', 'element',
'status' | 'op' | 'flags' ..., 'via'}; every violation is re-executed from scratch and shrunk
(drop classes / features / qualifiers / variants, default flavors, via CreateClass) before it is
recorded, so that one cause arrives under one signature.
"""
import copy
import itertools
import json
import os
import warnings

import pywbem
import pywbem_mock
from pywbem import (CIMClass, CIMProperty, CIMMethod, CIMParameter, CIMQualifier,
                    CIMQualifierDeclaration, CIMInstance, CIMError)

from mc.core import Acc, HarnessError, sigkey
from mc import objdump
from mc.refmodels import resolver as R

ID = 'C12'
RULE = ('class forests are enumerated exhaustively under a total deviation budget: every rooted '
        'forest shape with <= N classes; every class declares any subset of the feature pool '
        '{property p, property q, method m(a)} (new, or overriding an inherited one: with / '
        'without the Override qualifier, name and Override value in same / different lexical '
        'case) and carries any of two qualifier types Q1, Q2 at class, feature and parameter '
        'level (fresh value or the value of the nearest ancestor site); cost = feature '
        'declarations + qualifier attachments + non-standard override variants + 1 if superclass '
        'references and query names are written in upper case (and qualifier names below the roots in lower case); the flavors of the qualifier '
        'types actually used range over {ToSubclass, Restricted} x {EnableOverride, '
        'DisableOverride}; every root has a key property k. Creation paths: CreateClass; MOF '
        '(compile_mof_string); ModifyClass (each class is created with a placeholder content - '
        'property old, method oldm - and modified to its declaration while it is still a leaf). '
        'family "content": canonical creation '
        'order, each (prefix, new class) is a case; family "orders": every linear extension of '
        'the forest order, every class and every hierarchy query checked (the GetClass flag matrix '
        'is run in family "content" up to flags_matrix_budget, counting non-default flavors; the '
        'EnumerateClasses flag matrix for the canonical creation order). A case is non-trivial '
        'if the server accepted every declaration and the reference model had no corner the '
        'statement is silent about (Restricted qualifier re-specified, DisableOverride violated, '
        'redeclaration without Override)')
ASSUMPTIONS = [
    'mc/refmodels/resolver.py is the DSP0004 reading of the statement (its docstring lists what is '
    'fixed and what is left open); names are compared case-insensitively, result lists as sets',
    'propagated is not fixed for overriding redeclarations nor for re-specified qualifiers; a '
    'Restricted qualifier on an element the subclass does not redeclare may or may not be shown',
    'flag semantics are those of DSP0200 as documented by pywbem: LocalOnly None=True, '
    'IncludeQualifiers None=True, IncludeClassOrigin None=False; result(flags) must equal the '
    'projection of result(LocalOnly=False, IncludeQualifiers=True, IncludeClassOrigin=True); under '
    'LocalOnly overriding elements and propagated qualifiers may be kept or dropped',
    'declarations the server rejects are out of scope (trivial cases); any pywbem.Error during a '
    'creation is a rejection',
    'family "content": earlier classes of the prefix were checked when they were created; removing '
    'the class just checked with InMemoryObjectStore.delete restores the prefix state (every '
    'violation is re-executed from scratch before it is reported, a difference aborts the run)',
    'the flag / PropertyList matrix of a class is evaluated once per distinct strict dump of the '
    'stored objects of the class and its ancestors (per shard)',
    'PLY parser / lexer tables are built once per worker process and shared between the '
    'MOFCompiler objects compile_mof_string creates (as in C09)',
]
_ALLVIA = ['CreateClass', 'MOF', 'ModifyClass']
BOUNDS = {
    'quick': {
        'content': [
            {'classes': 4, 'depth': 3, 'fanout': 4, 'budget': 3, 'via': ['CreateClass'],
             'flags_matrix_budget': 2},
            {'classes': 4, 'depth': 3, 'fanout': 4, 'budget': 2, 'via': ['MOF', 'ModifyClass'],
             'flags_matrix_budget': 1, 'chunks': 4},
            {'classes': 2, 'depth': 1, 'fanout': 4, 'budget': 4, 'via': ['CreateClass'],
             'flags_matrix_budget': 0, 'chunks': 4},
            # one element followed down a chain with a larger budget
            {'classes': 3, 'depth': 2, 'fanout': 1, 'budget': 5, 'via': ['CreateClass', 'ModifyClass'],
             'features': ['p'], 'qualifiers': ['Q1'], 'flags_matrix_budget': 0, 'chunks': 2},
            {'classes': 3, 'depth': 2, 'fanout': 1, 'budget': 5, 'via': ['CreateClass', 'ModifyClass'],
             'features': ['m'], 'qualifiers': ['Q1'], 'flags_matrix_budget': 0, 'chunks': 2},
        ],
        'orders': [
            {'classes': 4, 'depth': 3, 'fanout': 4, 'budget': 1, 'via': _ALLVIA,
             'creation_orders': 'all linear extensions', 'parts': 20},
        ],
        'flag_combinations': '3x3x3 x PropertyList in {None, [], [p], [P,zz]}',
    },
    'thorough': {
        'content': [
            {'classes': 4, 'depth': 3, 'fanout': 4, 'budget': 4, 'via': ['CreateClass'],
             'flags_matrix_budget': 3, 'chunks': 16},
            {'classes': 4, 'depth': 3, 'fanout': 4, 'budget': 3, 'via': ['MOF', 'ModifyClass'],
             'flags_matrix_budget': 2, 'chunks': 8},
            {'classes': 5, 'depth': 4, 'fanout': 4, 'budget': 3, 'via': ['CreateClass'],
             'flags_matrix_budget': 0, 'chunks': 8},
            {'classes': 6, 'depth': 5, 'fanout': 4, 'budget': 2, 'via': ['CreateClass'],
             'flags_matrix_budget': 0},
            {'classes': 4, 'depth': 3, 'fanout': 1, 'budget': 6, 'via': _ALLVIA,
             'features': ['p'], 'qualifiers': ['Q1'], 'flags_matrix_budget': 0},
            {'classes': 4, 'depth': 3, 'fanout': 1, 'budget': 6, 'via': _ALLVIA,
             'features': ['m'], 'qualifiers': ['Q1'], 'flags_matrix_budget': 0},
        ],
        'orders': [
            {'classes': 5, 'depth': 4, 'fanout': 4, 'budget': 1, 'via': _ALLVIA,
             'creation_orders': 'all linear extensions', 'parts': 32},
            {'classes': 6, 'depth': 5, 'fanout': 4, 'budget': 0, 'via': _ALLVIA,
             'creation_orders': 'all linear extensions', 'parts': 8},
        ],
        'flag_combinations': '3x3x3 x PropertyList in {None, [], [p], [P,zz]}',
    },
}

NS = 'root/cimv2'
LETTERS = 'ABCDEF'
FEATS = ['p', 'q', 'm']
QN = ['Q1', 'Q2']
VARIANTS = ['std', 'N', 'O', 'NO', 'X']
VIAS = ['CreateClass', 'MOF', 'ModifyClass']
FLAVORS = [[True, True], [True, False], [False, True], [False, False]]   # [tosubclass, overridable]
DEFAULT_FLAVOR = FLAVORS[0]
TRI = (None, True, False)
PLS = (None, [], ['p'], ['P', 'zz'])
CONTENT_CHUNKS = 8


# ==========================================================================================
# forest shapes

_SHAPES = {}


def shapes(N, D, F):
    """one parent vector (parents before children) per unlabelled rooted forest with <= N nodes,
    depth (edges) <= D, fan-out <= F (also for the number of roots)"""
    key = (N, D, F)
    if key in _SHAPES:
        return _SHAPES[key]
    out = []
    for n in range(1, N + 1):
        seen = {}

        def rec(par):
            i = len(par)
            if i == n:
                ch = {j: [] for j in range(-1, n)}
                for k, p in enumerate(par):
                    ch[p].append(k)
                if any(len(v) > F for v in ch.values()):
                    return

                def depth(k):
                    return 0 if par[k] == -1 else 1 + depth(par[k])
                if max(depth(k) for k in range(n)) > D:
                    return

                def sig(k):
                    return tuple(sig(c) for c in ch[k])
                for v in ch.values():
                    ss = [sig(c) for c in v]
                    if ss != sorted(ss):
                        return
                s = tuple(sig(c) for c in ch[-1])
                if s not in seen:
                    seen[s] = tuple(par)
                return
            for p in range(-1, i):
                rec(par + [p])
        rec([])
        out += sorted(seen.values())
    _SHAPES[key] = out
    return out


def linear_extensions(par):
    n = len(par)
    out = []

    def rec(seq, done):
        if len(seq) == n:
            out.append(list(seq))
            return
        for x in range(n):
            if x not in done and (par[x] == -1 or par[x] in done):
                rec(seq + [x], done | {x})
    rec([], frozenset())
    return out


def chain_of(par, i):
    """ancestor indices of class i, nearest first"""
    out = []
    while par[i] != -1:
        i = par[i]
        out.append(i)
    return out


# ==========================================================================================
# content of one class under a budget

def _qual_choices(avail_same, budget, quals=QN):
    opts = []
    for q in quals:
        opts.append([None, 'U'] + (['S'] if q in avail_same else []))
    for combo in itertools.product(*opts):
        d = {q: v for q, v in zip(quals, combo) if v}
        if len(d) <= budget:
            yield d, len(d)


def node_contents(par, cls, i, budget, pool=None):
    """all contents {'q': {...}, 'f': {...}} of class i (parent par[i], earlier classes cls) whose
    cost is <= budget -> (content, cost); deterministic order. pool = (features, qualifier types)
    restricts what may be declared (default: everything)"""
    feat_pool, qual_pool = pool or (FEATS, QN)

    def qchoices(avail, b):
        return _qual_choices(avail, b, qual_pool)
    ancs = chain_of(par, i)
    avail_cls = {q for a in ancs for q in cls[a]['q']}
    for cq, c0 in qchoices(avail_cls, budget):
        def feats(fi, cur, b):
            if fi == len(feat_pool):
                yield cur, b
                return
            fn = feat_pool[fi]
            yield from feats(fi + 1, cur, b)
            if b < 1:
                return
            adecl = [cls[a]['f'][fn] for a in ancs if fn in cls[a]['f']]
            for v in (VARIANTS if adecl else ['std']):
                vc = 0 if v == 'std' else 1
                if 1 + vc > b:
                    continue
                av = {q for d in adecl for q in d['q']}
                for fq, c1 in qchoices(av, b - 1 - vc):
                    if fn == 'm':
                        ava = {q for d in adecl for q in d.get('aq', {})}
                        for aq, c2 in qchoices(ava, b - 1 - vc - c1):
                            nd = dict(cur)
                            nd[fn] = {'v': v, 'q': fq, 'aq': aq}
                            yield from feats(fi + 1, nd, b - 1 - vc - c1 - c2)
                    else:
                        nd = dict(cur)
                        nd[fn] = {'v': v, 'q': fq}
                        yield from feats(fi + 1, nd, b - 1 - vc - c1)
        for f, b2 in feats(0, {}, budget - c0):
            yield {'q': cq, 'f': f}, budget - b2


def content_cost(c):
    return len(c['q']) + sum(1 + (f.get('v', 'std') != 'std') + len(f['q']) + len(f.get('aq', {}))
                             for f in c['f'].values())


def used_quals(cls):
    u = set()
    for c in cls:
        u |= set(c['q'])
        for f in c['f'].values():
            u |= set(f['q'])
            u |= set(f.get('aq', {}))
    return u


def canonical_content(par, cls):
    """True if siblings with the same subtree shape are listed in non-decreasing content order
    (drops isomorphic duplicates in the 'orders' family)"""
    n = len(par)
    ch = {j: [] for j in range(-1, n)}
    for k, p in enumerate(par):
        ch[p].append(k)

    def full(k):
        return (len(ch[k]), json.dumps(cls[k], sort_keys=True), tuple(full(c) for c in ch[k]))

    def shape(k):
        return tuple(shape(c) for c in ch[k])
    for v in ch.values():
        fs = [(shape(c), full(c)) for c in v]
        if fs != sorted(fs):
            return False
    return True


# ==========================================================================================
# spec -> concrete declarations (the resolver's input format), pywbem objects, MOF text

def cname(i):
    return 'Cls_' + LETTERS[i]


def concretize(par, cls, supercase=False):
    n = len(par)
    vals = []
    decls = []
    for i in range(n):
        c = cls[i]
        anc = chain_of(par, i)
        letter = LETTERS[i]
        v = {'q': {}, 'f': {}}
        for qn in sorted(c['q']):
            val = None
            if c['q'][qn] == 'S':
                for a in anc:
                    if qn in vals[a]['q']:
                        val = vals[a]['q'][qn]
                        break
            v['q'][qn] = val if val is not None else 'c' + letter
        sup = None if par[i] == -1 else cname(par[i])
        if sup and supercase:
            sup = sup.upper()
        # with `supercase`, classes below the roots also spell the names of the qualifiers they
        # attach in another lexical case than the declaration and their ancestors (Q1 -> q1)
        wq = (lambda q: q.lower()) if supercase and par[i] != -1 else (lambda q: q)
        d = {'name': cname(i), 'super': sup, 'quals': [[wq(qn), v['q'][qn]] for qn in sorted(v['q'])],
             'props': [], 'meths': []}
        if par[i] == -1:
            d['props'].append({'name': 'k', 'type': 'string', 'quals': [['Key', True]]})
        for fn in FEATS:
            if fn not in c['f']:
                continue
            f = c['f'][fn]
            is_override = any(fn in cls[a]['f'] for a in anc)
            variant = f.get('v', 'std') if is_override else 'std'
            fv = {'q': {}, 'aq': {}}
            for site in ('q', 'aq'):
                for qn in sorted(f.get(site, {})):
                    val = None
                    if f[site][qn] == 'S':
                        for a in anc:
                            if fn in vals[a]['f'] and qn in vals[a]['f'][fn][site]:
                                val = vals[a]['f'][fn][site][qn]
                                break
                    fv[site][qn] = val if val is not None else (fn if site == 'q' else 'a') + letter
            v['f'][fn] = fv
            name = fn.upper() if 'N' in variant else fn
            quals = []
            if is_override and variant != 'X':
                quals.append(['Override', fn.upper() if 'O' in variant else fn])
            quals += [[wq(qn), fv['q'][qn]] for qn in sorted(fv['q'])]
            if fn == 'm':
                d['meths'].append({'name': name, 'rtype': 'uint32', 'quals': quals,
                                   'params': [{'name': 'a', 'type': 'string',
                                               'quals': [[wq(qn), fv['aq'][qn]] for qn in sorted(fv['aq'])]}]})
            else:
                d['props'].append({'name': name, 'type': 'string', 'quals': quals})
        vals.append(v)
        decls.append(d)
    return decls


def qdecl_table(flav):
    t = {'key': {'tosubclass': True, 'overridable': False},
         'override': {'tosubclass': False, 'overridable': True}}
    for qn in QN:
        ts, ov = flav.get(qn, DEFAULT_FLAVOR)
        t[qn.lower()] = {'tosubclass': bool(ts), 'overridable': bool(ov)}
    return t


ALL_SCOPES = ['CLASS', 'ASSOCIATION', 'INDICATION', 'PROPERTY', 'REFERENCE', 'METHOD', 'PARAMETER',
              'ANY']


def _scopes(*on):
    return {k: (k in on) for k in ALL_SCOPES}


def qdecl_objects(flav):
    out = [CIMQualifierDeclaration('Key', 'boolean', value=False, scopes=_scopes('PROPERTY', 'REFERENCE'),
                                   overridable=False, tosubclass=True),
           CIMQualifierDeclaration('Override', 'string', scopes=_scopes('PROPERTY', 'REFERENCE', 'METHOD'),
                                   overridable=True, tosubclass=False)]
    for qn in QN:
        ts, ov = flav.get(qn, DEFAULT_FLAVOR)
        out.append(CIMQualifierDeclaration(qn, 'string',
                                           scopes=_scopes('CLASS', 'PROPERTY', 'METHOD', 'PARAMETER'),
                                           overridable=bool(ov), tosubclass=bool(ts)))
    return out


def qdecl_mof(flav):
    s = ('Qualifier Key : boolean = false, Scope(property, reference), '
         'Flavor(DisableOverride, ToSubclass);\n'
         'Qualifier Override : string = null, Scope(property, reference, method), '
         'Flavor(EnableOverride, Restricted);\n')
    for qn in QN:
        ts, ov = flav.get(qn, DEFAULT_FLAVOR)
        s += ('Qualifier %s : string = null, Scope(class, property, method, parameter), Flavor(%s, %s);\n'
              % (qn, 'EnableOverride' if ov else 'DisableOverride', 'ToSubclass' if ts else 'Restricted'))
    return s


def _mkq(n, v):
    return CIMQualifier(n, v, type='boolean' if isinstance(v, bool) else 'string')


def class_object(d):
    props = [CIMProperty(p['name'], None, type=p['type'], qualifiers=[_mkq(*q) for q in p['quals']])
             for p in d['props']]
    meths = [CIMMethod(m['name'], m['rtype'],
                       parameters=[CIMParameter(a['name'], a['type'],
                                                qualifiers=[_mkq(*q) for q in a['quals']])
                                   for a in m['params']],
                       qualifiers=[_mkq(*q) for q in m['quals']])
             for m in d['meths']]
    return CIMClass(d['name'], properties=props, methods=meths, superclass=d['super'],
                    qualifiers=[_mkq(*q) for q in d['quals']])


def placeholder_object(d):
    """what the class looks like before ModifyClass gives it its real content"""
    return CIMClass(d['name'], superclass=d['super'],
                    properties=[CIMProperty('old', None, type='string')],
                    methods=[CIMMethod('oldm', 'uint32')])


def _mof_quals(quals):
    if not quals:
        return ''
    return '[' + ', '.join(n if v is True else '%s("%s")' % (n, v) for n, v in quals) + '] '


def class_mof(d):
    s = '%sclass %s%s {\n' % (_mof_quals(d['quals']), d['name'], ' : ' + d['super'] if d['super'] else '')
    for p in d['props']:
        s += '  %s%s %s;\n' % (_mof_quals(p['quals']), p['type'], p['name'])
    for m in d['meths']:
        s += '  %s%s %s(%s);\n' % (_mof_quals(m['quals']), m['rtype'], m['name'],
                                   ', '.join('%s%s %s' % (_mof_quals(a['quals']), a['type'], a['name'])
                                             for a in m['params']))
    return s + '};\n'


# ==========================================================================================
# the system under test

_PLY_PID = None


def _share_ply_tables():
    """compile_mof_string builds a new MOFCompiler (57 ms of PLY table construction) per call;
    build the tables once per process with pywbem's own factories and hand out copies"""
    global _PLY_PID
    if _PLY_PID == os.getpid():
        return
    import pywbem._mof_compiler as MOFC
    if not hasattr(MOFC, '_c12_real_yacc'):
        MOFC._c12_real_yacc = getattr(MOFC, '_c09_real_yacc', MOFC._yacc)
        MOFC._c12_real_lex = getattr(MOFC, '_c09_real_lex', MOFC._lex)
    parser0 = MOFC._c12_real_yacc(False)
    lexer0 = MOFC._c12_real_lex(False)

    def cached_yacc(verbose=False, out_dir=None):
        return copy.copy(parser0)

    def cached_lex(verbose=False, out_dir=None):
        return lexer0.clone()
    MOFC._yacc = cached_yacc
    MOFC._lex = cached_lex
    _PLY_PID = os.getpid()


def new_conn(flav, via):
    conn = pywbem_mock.FakedWBEMConnection(default_namespace=NS)
    if via == 'MOF':
        _share_ply_tables()
        conn.compile_mof_string(qdecl_mof(flav))
    else:
        for q in qdecl_objects(flav):
            conn.SetQualifier(q)
    return conn


def _status(exc):
    """classify an exception of a creation call: ('rejected', code) for pywbem errors,
    ('raised', type name) for anything else"""
    if isinstance(exc, CIMError):
        return 'rejected', exc.status_code_name
    if isinstance(exc, pywbem.MOFCompileError):
        ce = getattr(exc, 'cim_error', None)
        return 'rejected', ce.status_code_name if isinstance(ce, CIMError) else type(exc).__name__
    if isinstance(exc, pywbem.Error):
        return 'rejected', type(exc).__name__
    return 'raised', type(exc).__name__


def _class_store(conn):
    return conn.cimrepository.get_class_store(NS)


class Session:
    """a connection on which classes are pushed (created through `via`) and popped again"""

    def __init__(self, flav, via):
        self.flav, self.via = flav, via
        self.decls = []
        self.calls = 0
        self.conn = None if via == 'MOF' else new_conn(flav, via)

    def push(self, d):
        """-> None if accepted else (kind, detail)"""
        if self.via == 'MOF':
            # one MOF text with the whole prefix, compiled into a fresh repository
            self.conn = new_conn(self.flav, 'MOF')
            text = ''.join(class_mof(x) for x in self.decls + [d])
            self.calls += 1
            try:
                self.conn.compile_mof_string(text)
            except Exception as exc:   # noqa: classified below
                return _status(exc)
            self.decls.append(d)
            return None
        store = _class_store(self.conn)
        obj = class_object(d)
        try:
            if self.via == 'CreateClass':
                self.calls += 1
                self.conn.CreateClass(obj)
            else:
                self.calls += 2
                self.conn.CreateClass(placeholder_object(d))
                self.conn.ModifyClass(obj)
        except Exception as exc:   # noqa: classified below
            if store.object_exists(d['name']):
                store.delete(d['name'])
            return _status(exc)
        # the class object is the caller's: the server neither changes it (resolution works on the
        # server's copy) nor keeps parts of it (what the caller does to it later is his business)
        iso = None
        if obj != class_object(d):
            iso = '%s-changed-the-class-object-of-the-caller' % self.via
        elif len(self.decls) <= 1:
            for el in list(obj.properties.values()) + list(obj.methods.values()):
                el.qualifiers['Scribble'] = CIMQualifier('Scribble', 'x')
            obj.qualifiers['Scribble'] = CIMQualifier('Scribble', 'x')
            self.calls += 1
            got = self.conn.GetClass(d['name'], LocalOnly=False, IncludeQualifiers=True)
            if 'Scribble' in got.qualifiers or any(
                    'Scribble' in el.qualifiers
                    for el in list(got.properties.values()) + list(got.methods.values())):
                iso = '%s-keeps-parts-of-the-class-object-of-the-caller' % self.via
        if iso:
            if store.object_exists(d['name']):
                store.delete(d['name'])
            return ('raised', iso)
        self.decls.append(d)
        return None

    def pop(self):
        d = self.decls.pop()
        if self.via != 'MOF':
            store = _class_store(self.conn)
            store.delete(d['name'])
            if store.len() != len(self.decls):
                raise HarnessError('class store holds %d classes, expected %d' %
                                   (store.len(), len(self.decls)))


def build_all(flav, via, decls, order):
    """from scratch, in the given creation order -> (conn, None | (kind, detail), calls)"""
    if via == 'MOF':
        conn = new_conn(flav, 'MOF')
        try:
            conn.compile_mof_string(''.join(class_mof(decls[i]) for i in order))
        except Exception as exc:   # noqa
            return conn, _status(exc), 1
        return conn, None, 1
    s = Session(flav, via)
    for i in order:
        st = s.push(decls[i])
        if st is not None:
            return s.conn, st, s.calls
    return s.conn, None, s.calls


# ==========================================================================================
# oracle 1: the full view against the reference model

def _lowmap(d):
    return {k.lower(): v for k, v in d.items()}


def _cmp_quals(obs_quals, exp_quals, element, status, where, out_):
    obs = _lowmap(obs_quals)
    feat = where.split('.', 1)[1].split('(')[0] if '.' in where else ''
    out = _Tagged(out_.lst if isinstance(out_, _Tagged) else out_, feat)
    for qn, e in exp_quals.items():
        o = obs.get(qn)
        if e['presence'] == 'any':
            continue
        if e['presence'] == 'absent':
            if o is not None:
                out.append(('restricted-qualifier-propagated', element, status,
                            '%s: no %s' % (where, qn), '%s=%r' % (qn, o.value)))
            continue
        if o is None:
            if e['presence'] == 'must':
                what = 'inherited-qualifier-missing' if e['propagated'] is True else 'qualifier-missing'
                out.append((what, element, status, '%s: %s=%r' % (where, qn, e['value']), 'absent'))
            continue
        if o.value != e['value']:
            out.append(('qualifier-value-wrong', element, status,
                        '%s: %s=%r' % (where, qn, e['value']), '%s=%r' % (qn, o.value)))
        if e['propagated'] is not None and bool(o.propagated) != e['propagated']:
            out.append(('qualifier-propagated-wrong', element, status,
                        '%s: %s.propagated=%r' % (where, qn, e['propagated']),
                        '%s.propagated=%r' % (qn, o.propagated)))
    for qn, o in obs.items():
        if qn not in exp_quals:
            out.append(('qualifier-unexpected', element, status, '%s: no %s' % (where, qn),
                        '%s=%r' % (qn, o.value)))


class _Tagged:
    """appends (what, element, status, expected, observed, feature key)"""

    def __init__(self, lst, feat):
        self.lst, self.feat = lst, feat

    def append(self, t):
        self.lst.append(tuple(t) + (self.feat,))


def compare_view(F, exp):
    """-> list of (what, element, status, expected, observed, feature key)"""
    out = _Tagged([], '')
    res = out.lst
    if F.classname.lower() != exp['name'].lower() or \
            (F.superclass or '').lower() != (exp['super'] or '').lower():
        out.append(('superclass-wrong', 'class', '-', [exp['name'], exp['super']],
                    [F.classname, F.superclass]))
    _cmp_quals(F.qualifiers, exp['quals'], 'class', '-', exp['name'], out)
    for kind, el, attr in (('props', 'property', 'properties'), ('meths', 'method', 'methods')):
        obs = _lowmap(getattr(F, attr))
        for key, e in exp[kind].items():
            o = obs.get(key)
            st = e['status']
            where = '%s.%s' % (exp['name'], key)
            out.feat = key
            if o is None:
                out.append(('element-missing', el, st, where, 'absent'))
                continue
            if e['any']:
                continue
            if (o.class_origin or '').lower() != e['origin'].lower():
                out.append(('class_origin-wrong', el, st, '%s from %s' % (where, e['origin']),
                            o.class_origin))
            if st == 'inherited' and o.propagated is not True:
                out.append(('propagated-wrong', el, st, '%s propagated=True' % where, o.propagated))
            if st == 'new' and o.propagated:
                out.append(('propagated-wrong', el, st, '%s propagated=False' % where, o.propagated))
            typ = o.type if kind == 'props' else o.return_type
            if typ != e['type']:
                out.append(('type-wrong', el, st, '%s type %s' % (where, e['type']), typ))
            _cmp_quals(o.qualifiers, e['quals'], el, st, where, out)
            if kind == 'meths':
                op = _lowmap(o.parameters)
                for pk, pe in e['params'].items():
                    po = op.get(pk)
                    pwhere = '%s(%s)' % (where, pk)
                    if po is None:
                        out.append(('element-missing', 'parameter', st, pwhere, 'absent'))
                        continue
                    if po.type != pe['type']:
                        out.append(('type-wrong', 'parameter', st, '%s type %s' % (pwhere, pe['type']),
                                    po.type))
                    _cmp_quals(po.qualifiers, pe['quals'], 'parameter', st, pwhere, out)
                for pk in op:
                    if pk not in e['params']:
                        out.append(('element-unexpected', 'parameter', st, 'no %s(%s)' % (where, pk),
                                    pk))
        for key in obs:
            if key not in exp[kind]:
                out.feat = key
                out.append(('element-unexpected', el, '-', 'no %s.%s' % (exp['name'], key), key))
    return res


# ==========================================================================================
# oracle 2: flags only remove information

def _strict(o):
    return json.dumps(objdump.dump(o), sort_keys=True)


def _qual_projection(fq, rq, noq, local, element, out):
    f, r = _lowmap(fq), _lowmap(rq)
    if noq:
        if r:
            out.append(('qualifiers-kept', element, sorted(r)))
        return
    for qn, q in r.items():
        if qn not in f:
            out.append(('qualifier-added', element, qn))
        elif _strict(q) != _strict(f[qn]):
            out.append(('qualifier-altered', element, qn))
    for qn, q in f.items():
        if qn not in r and not (local and q.propagated):
            out.append(('qualifiers-dropped', element, qn))


def _bare(o):
    """copy without qualifiers / class_origin (compared separately)"""
    c = copy.deepcopy(o)
    c.qualifiers = {}
    if hasattr(c, 'class_origin'):
        c.class_origin = None
    if isinstance(c, CIMMethod):
        for p in c.parameters.values():
            p.qualifiers = {}
    return c


def compare_projection(F, Rv, exp, lo, iq, ico, pl):
    """Rv must be the projection of the full view F -> list of (what, element, detail)"""
    out = []
    local = lo is None or lo is True
    noq = iq is False
    noco = not ico
    plset = None if pl is None else {x.lower() for x in pl}
    if Rv.classname.lower() != F.classname.lower() or \
            (Rv.superclass or '').lower() != (F.superclass or '').lower():
        out.append(('class-altered', 'class', [Rv.classname, Rv.superclass]))
    _qual_projection(F.qualifiers, Rv.qualifiers, noq, local, 'class', out)
    for kind, el, attr in (('props', 'property', 'properties'), ('meths', 'method', 'methods')):
        fd, rd = _lowmap(getattr(F, attr)), _lowmap(getattr(Rv, attr))
        for key in rd:
            if key not in fd:
                out.append(('element-added', el, key))
        for key, fo in fd.items():
            st = exp[kind][key]['status'] if key in exp[kind] and not exp[kind][key]['any'] else None
            keep = 'must'
            if kind == 'props' and plset is not None and key not in plset:
                keep = 'no'
            elif local:
                keep = {'inherited': 'no', 'new': 'must'}.get(st, 'either')
            ro = rd.get(key)
            if keep == 'no':
                if ro is not None:
                    out.append(('element-kept', el, key))
                continue
            if ro is None:
                if keep == 'must':
                    out.append(('element-dropped', el, key))
                continue
            if noco:
                if ro.class_origin is not None:
                    out.append(('class_origin-kept', 'feature', key))
            elif ro.class_origin != fo.class_origin:
                if ro.class_origin is None:
                    out.append(('class_origin-dropped', 'feature', key))
                else:
                    out.append(('element-altered', el, key))
            _qual_projection(fo.qualifiers, ro.qualifiers, noq, local, el, out)
            if kind == 'meths':
                fp, rp = _lowmap(fo.parameters), _lowmap(ro.parameters)
                for pk in fp:
                    if pk in rp:
                        _qual_projection(fp[pk].qualifiers, rp[pk].qualifiers, noq, local,
                                         'parameter', out)
            if _strict(_bare(fo)) != _strict(_bare(ro)):
                out.append(('element-altered', el, key))
    return out


NEUTRAL = dict(lo=False, iq=True, ico=True, pl=None)
FLAGNAMES = dict(lo='LocalOnly', iq='IncludeQualifiers', ico='IncludeClassOrigin', pl='PropertyList')


def _get_class(conn, qname, f):
    return conn.GetClass(qname, LocalOnly=f['lo'], IncludeQualifiers=f['iq'],
                         IncludeClassOrigin=f['ico'], PropertyList=f['pl'])


def _enum_classes(conn, f):
    return conn.EnumerateClasses(ClassName=None, DeepInheritance=True, LocalOnly=f['lo'],
                                 IncludeQualifiers=f['iq'], IncludeClassOrigin=f['ico'])


def _responsible_flags(f, probe):
    """greedily reset flags to their neutral value while probe(flags) still shows the failure"""
    f = dict(f)
    for k in ('pl', 'ico', 'iq', 'lo'):
        if f[k] != NEUTRAL[k] or (k == 'pl' and f[k] is not None):
            g = dict(f)
            g[k] = NEUTRAL[k]
            if probe(g):
                f = g
    return '+'.join(FLAGNAMES[k] for k in ('lo', 'iq', 'ico', 'pl') if f[k] != NEUTRAL[k]) or 'none'


def check_flags_getclass(conn, qname, F, exp, via, viol, counter):
    for lo, iq, ico, pl in itertools.product(TRI, TRI, TRI, PLS):
        f = dict(lo=lo, iq=iq, ico=ico, pl=pl)
        if f == NEUTRAL:
            continue
        counter[0] += 1
        try:
            Rv = _get_class(conn, qname, f)
        except Exception as exc:   # noqa: any exception on an existing class is a violation
            viol.append((dict(check='raised', what=type(exc).__name__, element='class',
                              op='GetClass', via=via), 'a class', repr(exc)[:200]))
            continue
        diffs = compare_projection(F, Rv, exp, lo, iq, ico, pl)
        for what, el in sorted({(d[0], d[1]) for d in diffs}):
            def probe(g):
                counter[0] += 1
                try:
                    r2 = _get_class(conn, qname, g)
                except Exception:   # noqa
                    return False
                return any((d[0], d[1]) == (what, el)
                           for d in compare_projection(F, r2, exp, g['lo'], g['iq'], g['ico'], g['pl']))
            flags = _responsible_flags(f, probe)
            det = [d[2] for d in diffs if (d[0], d[1]) == (what, el)]
            viol.append((dict(check='flags-projection', what=what, element=el, op='GetClass',
                              flags=flags, via=via),
                         'projection of the full view under %s' % json.dumps(f),
                         {'class': qname, 'where': det[:4]}))


# ==========================================================================================
# per class check

def full_view(conn, qname):
    return conn.GetClass(qname, LocalOnly=False, IncludeQualifiers=True, IncludeClassOrigin=True)


def qname_of(d, supercase):
    return d['name'].upper() if supercase else d['name']


def check_class(conn, decls, views, t, via, supercase, do_flags, flag_cache, counter):
    """-> (violations, F or None)"""
    viol = []
    d = decls[t]
    exp = views[d['name'].lower()]
    qn = qname_of(d, supercase)
    counter[0] += 1
    try:
        F = full_view(conn, qn)
    except Exception as exc:   # noqa
        viol.append((dict(check='raised', what=type(exc).__name__, element='class', op='GetClass',
                          via=via), 'a class', repr(exc)[:200]))
        return viol, None
    diffs = compare_view(F, exp)
    if d['super'] and any(x[2] == 'inherited' for x in diffs):
        # a discrepancy on an element this class does not redeclare is not a finding of its own
        # if the direct superclass shows the same discrepancy on the same element (it is reported
        # for the superclass, by the case that created it)
        pd = [x for x in decls if x['name'].lower() == d['super'].lower()][0]
        counter[0] += 1
        try:
            above = {(x[0], x[1], x[5]) for x in
                     compare_view(full_view(conn, qname_of(pd, supercase)), views[pd['name'].lower()])}
        except Exception:   # noqa: reported when the superclass itself is the target
            above = set()
        diffs = [x for x in diffs if not (x[2] == 'inherited' and (x[0], x[1], x[5]) in above)]
    seen = set()
    for what, el, st, e, o, _feat in diffs:
        if (what, el, st) in seen:
            continue
        seen.add((what, el, st))
        viol.append((dict(check='resolution', what=what, element=el, status=st, via=via), e, o))
    if do_flags:
        key = None
        if flag_cache is not None:
            store = _class_store(conn)
            chain = [d['name']]
            by = {x['name'].lower(): x for x in decls}
            cur = d
            while cur['super']:
                cur = by[cur['super'].lower()]
                chain.append(cur['name'])
            key = (qn, json.dumps([objdump.dump(store.get(c, copy=False)) for c in chain],
                                  sort_keys=True))
        if key is None or key not in flag_cache:
            before = len(viol)
            check_flags_getclass(conn, qn, F, exp, via, viol, counter)
            if key is not None and len(viol) == before:
                flag_cache.add(key)
    return viol, F


# ==========================================================================================
# hierarchy checks (family 'orders')

def _names(objs):
    out = []
    for o in objs:
        n = o if isinstance(o, str) else getattr(o, 'classname')
        out.append(n.lower())
    return sorted(out)


def _set_diff(op, exp, obs, extra_sig, via, viol, check='enumerate'):
    exp, obs = sorted(exp), sorted(obs)
    if exp == obs:
        return
    if len(set(obs)) != len(obs):
        what = 'duplicate'
    elif set(exp) - set(obs):
        what = 'missing'
    else:
        what = 'extra'
    sig = dict(check=check, what=what, element='class', op=op, via=via)
    sig.update(extra_sig)
    viol.append((sig, exp, obs))


def check_hierarchy(conn, decls, views, fulls, via, supercase, counter, acc, enum_flags=True):
    viol = []
    names = [d['name'] for d in decls]

    def qn(x):
        return None if x is None else (x.upper() if supercase else x)

    def raised(op, exc):
        viol.append((dict(check='raised', what=type(exc).__name__, element='class', op=op, via=via),
                     'a result', repr(exc)[:200]))
    # --- EnumerateClassNames / EnumerateClasses
    for x in names + [None]:
        for di in TRI:
            exp = R.descendants(decls, x) if di else R.children(decls, x)
            for op in ('EnumerateClassNames', 'EnumerateClasses'):
                counter[0] += 1
                try:
                    res = getattr(conn, op)(ClassName=qn(x), DeepInheritance=di)
                except Exception as exc:   # noqa
                    raised(op, exc)
                    continue
                _set_diff(op, exp, _names(res), dict(deep='deep' if di else 'shallow',
                                                     of='namespace' if x is None else 'class'),
                          via, viol)
    # --- EnumerateClasses: the flags only remove information (canonical creation order only)
    for lo, iq, ico in (itertools.product(TRI, TRI, TRI) if enum_flags else ()):
        f = dict(lo=lo, iq=iq, ico=ico, pl=None)
        counter[0] += 1
        try:
            res = _enum_classes(conn, f)
        except Exception as exc:   # noqa
            raised('EnumerateClasses', exc)
            continue
        got = {}
        for c in res:
            got.setdefault(c.classname.lower(), c)
        found = set()
        for d in decls:
            key = d['name'].lower()
            if key not in got or fulls.get(key) is None:
                continue
            for diff in compare_projection(fulls[key], got[key], views[key], lo, iq, ico, None):
                found.add((diff[0], diff[1]))
        for what, el in sorted(found):
            def probe(g):
                counter[0] += 1
                try:
                    r2 = _enum_classes(conn, g)
                except Exception:   # noqa
                    return False
                for c in r2:
                    k = c.classname.lower()
                    if fulls.get(k) is not None and any(
                            (x[0], x[1]) == (what, el) for x in
                            compare_projection(fulls[k], c, views[k], g['lo'], g['iq'], g['ico'], None)):
                        return True
                return False
            viol.append((dict(check='flags-projection', what=what, element=el, op='EnumerateClasses',
                              flags=_responsible_flags(f, probe), via=via),
                         'projection of the full views under %s' % json.dumps(f), sorted(got)))
    # --- one instance per class; EnumerateInstances / EnumerateInstanceNames
    have = []
    for i, d in enumerate(decls):
        counter[0] += 1
        try:
            conn.CreateInstance(CIMInstance(d['name'], properties={'k': 'i' + LETTERS[i]}))
            have.append(d['name'].lower())
        except pywbem.Error:
            acc.count('instance-rejected')
    for x in names:
        exp = [n for n in R.subtree(decls, x) if n in have]
        for op in ('EnumerateInstances', 'EnumerateInstanceNames'):
            counter[0] += 1
            try:
                res = getattr(conn, op)(qn(x))
            except Exception as exc:   # noqa
                raised(op, exc)
                continue
            _set_diff(op, exp, _names(res), {}, via, viol)
    # --- DeleteClass on a clone
    store = _class_store(conn)
    before = {c.classname.lower(): _strict(c) for c in store.iter_values(copy=False)}
    for x in names:
        c2 = copy.deepcopy(conn)
        counter[0] += 1
        try:
            c2.DeleteClass(qn(x))
        except Exception as exc:   # noqa
            raised('DeleteClass', exc)
            continue
        gone = set(R.subtree(decls, x))
        st2 = c2.cimrepository.get_class_store(NS)
        after = {c.classname.lower(): _strict(c) for c in st2.iter_values(copy=False)}
        insts = sorted(i.classname.lower() for i in
                       c2.cimrepository.get_instance_store(NS).iter_values(copy=False))
        exp_classes = sorted(set(before) - gone)
        if sorted(after) != exp_classes:
            what = 'class-survives' if set(after) & gone else 'class-lost'
            viol.append((dict(check='delete', what=what, element='class', op='DeleteClass', via=via),
                         exp_classes, sorted(after)))
        elif any(after[k] != before[k] for k in after):
            viol.append((dict(check='delete', what='class-changed', element='class', op='DeleteClass',
                              via=via), 'remaining classes unchanged',
                         sorted(k for k in after if after[k] != before[k])))
        exp_insts = sorted(n for n in have if n not in gone)
        if insts != exp_insts:
            what = 'instance-survives' if set(insts) & gone else 'instance-lost'
            viol.append((dict(check='delete', what=what, element='instance', op='DeleteClass', via=via),
                         exp_insts, insts))
        counter[0] += 1
        try:
            left = _names(c2.EnumerateClassNames(DeepInheritance=True))
        except Exception as exc:   # noqa
            raised('EnumerateClassNames', exc)
            continue
        if left != sorted(after):
            viol.append((dict(check='delete', what='enumeration-differs-from-store', element='class',
                              op='DeleteClass', via=via), sorted(after), left))
    return viol


# ==========================================================================================
# one case from scratch (replay, minimisation, MOF path, family 'orders')

def _uniq(viol):
    """first violation per signature"""
    seen, out = set(), []
    for v in viol:
        k = sigkey(v[0])
        if k not in seen:
            seen.add(k)
            out.append(v)
    return out


def norm_case(case):
    c = dict(case)
    c.setdefault('supercase', False)
    c.setdefault('flagsq', False)
    c['flav'] = {q: list(c.get('flav', {}).get(q, DEFAULT_FLAVOR)) for q in QN}
    n = len(c['par'])
    if c['mode'] == 'content':
        c.setdefault('target', n - 1)
        c['order'] = list(range(n))
    else:
        c.setdefault('order', list(range(n)))
    return c


def valid_case(c):
    try:
        n = len(c['par'])
        if n < 1 or n > len(LETTERS) or len(c['cls']) != n or sorted(c['order']) != list(range(n)):
            return False
        pos = {x: k for k, x in enumerate(c['order'])}
        for i, p in enumerate(c['par']):
            if not (-1 <= p < i):
                return False
            if p != -1 and pos[p] > pos[i]:
                return False
        return c['via'] in VIAS and c['mode'] in ('content', 'orders')
    except (KeyError, TypeError):
        return False


def run_case(case, acc=None, flag_cache=None):
    """-> dict(status, viol=[(sig, expected, observed)], calls, corner)"""
    c = norm_case(case)
    if acc is None:
        acc = Acc()
    decls = concretize(c['par'], c['cls'], c['supercase'])
    conn, st, calls = build_all(c['flav'], c['via'], decls, c['order'])
    counter = [calls]
    if st is not None:
        kind, detail = st
        viol = []
        if kind == 'raised':
            viol.append((dict(check='raised', what=detail, element='class', op='create', via=c['via']),
                         'accepted or rejected with a pywbem error', detail))
        return dict(status='%s:%s' % (kind, detail), viol=viol, calls=counter[0], corner=False)
    views = R.resolve(decls, qdecl_table(c['flav']))
    targets = [c['target']] if c['mode'] == 'content' else list(range(len(decls)))
    viol = []
    fulls = {}
    for t in targets:
        v, F = check_class(conn, decls, views, t, c['via'], c['supercase'], c['flagsq'], flag_cache,
                           counter)
        viol += v
        fulls[decls[t]['name'].lower()] = F
    if c['mode'] == 'orders':
        viol += check_hierarchy(conn, decls, views, fulls, c['via'], c['supercase'], counter, acc,
                                enum_flags=c['order'] == sorted(c['order']))
    corner = any(views[decls[t]['name'].lower()]['corner'] for t in targets)
    return dict(status='ok', viol=_uniq(viol), calls=counter[0], corner=corner)


# ==========================================================================================
# minimisation: one cause, one signature

def _sig_novia(sig):
    return sigkey({k: v for k, v in sig.items() if k != 'via'})


def _drop_class(c, j):
    """remove class j; its children move up to its parent"""
    n = len(c['par'])
    if n <= 1 or (c['mode'] == 'content' and j == c['target']):
        return None
    par = list(c['par'])
    pj = par[j]
    newidx = {}
    k = 0
    for i in range(n):
        if i != j:
            newidx[i] = k
            k += 1
    npar = []
    for i in range(n):
        if i == j:
            continue
        p = par[i]
        if p == j:
            p = pj
        npar.append(-1 if p == -1 else newidx[p])
    d = dict(c)
    d['par'] = npar
    d['cls'] = [copy.deepcopy(x) for i, x in enumerate(c['cls']) if i != j]
    d['order'] = [newidx[i] for i in c['order'] if i != j]
    if c['mode'] == 'content':
        d['target'] = newidx[c['target']]
    return d


def _simpler(c):
    """candidate simplifications, most drastic first"""
    n = len(c['par'])
    for j in reversed(range(n)):
        d = _drop_class(c, j)
        if d is not None:
            yield d
    if c['via'] != 'CreateClass':
        yield dict(c, via='CreateClass')
    if c['supercase']:
        yield dict(c, supercase=False)
    if c['order'] != list(range(n)):
        yield dict(c, order=list(range(n)))
    for i in range(n):
        for fn in FEATS:
            if fn in c['cls'][i]['f']:
                d = copy.deepcopy(c)
                del d['cls'][i]['f'][fn]
                yield d
    for i in range(n):
        for qn in QN:
            if qn in c['cls'][i]['q']:
                d = copy.deepcopy(c)
                del d['cls'][i]['q'][qn]
                yield d
        for fn in FEATS:
            f = c['cls'][i]['f'].get(fn)
            if not f:
                continue
            for site in ('q', 'aq'):
                for qn in QN:
                    if qn in f.get(site, {}):
                        d = copy.deepcopy(c)
                        del d['cls'][i]['f'][fn][site][qn]
                        yield d
            if f.get('v', 'std') != 'std':
                d = copy.deepcopy(c)
                d['cls'][i]['f'][fn]['v'] = 'std'
                yield d
                if f['v'] == 'NO':
                    for v in ('N', 'O'):
                        d = copy.deepcopy(c)
                        d['cls'][i]['f'][fn]['v'] = v
                        yield d
    for qn in QN:
        cur = c['flav'][qn]
        for fl in (DEFAULT_FLAVOR, [True, cur[1]], [cur[0], True]):
            if list(fl) != cur:
                d = copy.deepcopy(c)
                d['flav'][qn] = list(fl)
                yield d
    for i in range(n):
        if c['cls'][i]['q']:
            for qn, tok in c['cls'][i]['q'].items():
                if tok == 'S':
                    d = copy.deepcopy(c)
                    d['cls'][i]['q'][qn] = 'U'
                    yield d
        for fn, f in c['cls'][i]['f'].items():
            for site in ('q', 'aq'):
                for qn, tok in f.get(site, {}).items():
                    if tok == 'S':
                        d = copy.deepcopy(c)
                        d['cls'][i]['f'][fn][site][qn] = 'U'
                        yield d


def minimise(case, sig):
    want = _sig_novia(sig)

    def fails(c):
        if not valid_case(c):
            return False
        r = run_case(c)
        return any(_sig_novia(s) == want for s, _, _ in r['viol'])
    c = norm_case(case)
    progress = True
    rounds = 0
    while progress and rounds < 60:
        progress = False
        rounds += 1
        for d in _simpler(c):
            d = norm_case(d)
            if fails(d):
                c = d
                progress = True
                break
    return c


def case_key(c):
    return json.dumps([c['mode'], c['via'], c['flav'], c['par'], c['cls'], c.get('supercase', False),
                       c.get('order'), c.get('target')], sort_keys=True)


def report(acc, cache, viol, case):
    """record the violations of one case; each new raw signature is verified from scratch and
    shrunk once per shard"""
    for sig, exp, obs in viol:
        k = sigkey(sig)
        if k in cache:
            fsig, fcase, fexp, fobs = cache[k]
            acc.violation(fsig, fcase, fexp, fobs)
            continue
        fresh = run_case(case)
        if not any(sigkey(s) == k for s, _, _ in fresh['viol']):
            raise HarnessError('violation %s seen on the shared connection does not reproduce from '
                               'scratch for %s' % (k, json.dumps(case)))
        m = minimise(case, sig)
        r = run_case(m)
        hit = [(s, e, o) for s, e, o in r['viol'] if _sig_novia(s) == _sig_novia(sig)]
        if not hit:
            raise HarnessError('minimised case lost its violation: %s' % json.dumps(m))
        fsig, fexp, fobs = hit[0]
        mc_ = {k2: m[k2] for k2 in ('mode', 'via', 'flav', 'par', 'cls', 'supercase', 'order', 'flagsq')}
        if m['mode'] == 'content':
            mc_['target'] = m['target']
        mc_['mof'] = ''.join(class_mof(d) for d in concretize(m['par'], m['cls'], m['supercase']))
        cache[k] = (fsig, mc_, fexp, fobs)
        acc.violation(fsig, mc_, fexp, fobs)


# ==========================================================================================
# family 'content': depth-first over the trie of forest shapes

def _prefixes(N, D, F):
    pre = set()
    for s in shapes(N, D, F):
        for k in range(1, len(s) + 1):
            pre.add(tuple(s[:k]))
    return pre


def explore_content(acc, p, via, flav, chunk, of, supercase, sample_ok=False):
    N, K, KF = p['classes'], p['budget'] - (1 if supercase else 0), p['flags_matrix_budget']
    if K < 0:
        return
    pre = _prefixes(N, p['depth'], p['fanout'])
    pool = (p.get('features', FEATS), p.get('qualifiers', QN))
    required = {q for q in QN if flav[q] != DEFAULT_FLAVOR}
    sess = Session(flav, via)
    qtable = qdecl_table(flav)
    cache = {}
    flag_cache = set()
    tick = [0]

    def rec(par, cls, budget):
        i = len(par)
        for pp in range(-1, i):
            par2 = par + [pp]
            if tuple(par2) not in pre:
                continue
            if supercase and i == 0 and N == 1:
                continue
            for j, (content, cost) in enumerate(node_contents(par2, cls, i, budget, pool)):
                # work is split at depth 1; a root is the case of one chunk but is created in all
                own = True
                if i == 0:
                    own = j % of == chunk
                elif i == 1:
                    tick[0] += 1
                    if tick[0] % of != chunk:
                        continue
                cls2 = cls + [content]
                used = used_quals(cls2)
                left = budget - cost
                missing = len(required - used)
                if missing > left or (missing and i + 1 >= N):
                    # the qualifier types with a non-default flavor can no longer all be used:
                    # this prefix and everything below it belongs to the run of another flavor
                    # configuration
                    continue
                decls = concretize(par2, cls2, supercase)
                calls0 = sess.calls
                st = sess.push(decls[i])
                mine = own and not missing and not (supercase and all(x == -1 for x in par2))
                case = dict(mode='content', via=via, flav=flav, par=par2, cls=cls2,
                            supercase=supercase, target=i,
                            flagsq=(p['budget'] - left) + len(required) <= KF)
                if st is not None:
                    if mine:
                        kind, detail = st
                        if not R.resolve(decls, qtable)[decls[i]['name'].lower()]['corner']:
                            acc.count('rejected-without-corner')
                        if kind == 'raised':
                            report(acc, cache, [(dict(check='raised', what=detail, element='class',
                                                      op='create', via=via),
                                                 'accepted or rejected with a pywbem error', detail)],
                                   case)
                        acc.case(case_key(case), nontrivial=False, outcome='%s:%s' % (kind, detail),
                                 calls=sess.calls - calls0)
                    continue
                if mine:
                    views = R.resolve(decls, qtable)
                    counter = [sess.calls - calls0]
                    viol, _ = check_class(sess.conn, decls, views, i, via, supercase, case['flagsq'],
                                          flag_cache, counter)
                    corner = views[decls[i]['name'].lower()]['corner']
                    viol = _uniq(viol)
                    if viol:
                        report(acc, cache, viol, case)
                    outcome = 'violation' if viol else ('accepted-corner' if corner else 'resolved-ok')
                    acc.case(case_key(case), nontrivial=not corner, outcome=outcome, calls=counter[0],
                             sample=case if (sample_ok and i == 2 and cost == 2 and not viol) else None)
                if i + 1 < N:
                    rec(par2, cls2, left)
                sess.pop()
    rec([], [], K)
    acc.count('flag-matrix-states', len(flag_cache))


# ==========================================================================================
# family 'orders'

def order_specs(N, D, F, K):
    """(par, cls, supercase) for every shape with <= N classes and every content of cost <= K"""
    for par in shapes(N, D, F):
        par = list(par)
        n = len(par)
        for sc in (False, True):
            if sc and all(x == -1 for x in par):
                continue
            kb = K - (1 if sc else 0)
            if kb < 0:
                continue

            def rec(i, cls, budget):
                if i == n:
                    yield cls
                    return
                for content, cost in node_contents(par, cls, i, budget):
                    yield from rec(i + 1, cls + [content], budget - cost)
            for cls in rec(0, [], kb):
                if canonical_content(par, cls):
                    yield par, cls, sc


def flavor_configs(used):
    opts = [FLAVORS if q in used else [DEFAULT_FLAVOR] for q in QN]
    for combo in itertools.product(*opts):
        yield {q: list(f) for q, f in zip(QN, combo)}


def explore_orders(acc, p, via, part, of):
    cache = {}
    flag_cache = set()
    idx = 0
    for par, cls, sc in order_specs(p['classes'], p['depth'], p['fanout'], p['budget']):
        for flav in flavor_configs(used_quals(cls)):
            for order in linear_extensions(par):
                idx += 1
                if idx % of != part:
                    continue
                case = dict(mode='orders', via=via, flav=flav, par=par, cls=cls, supercase=sc,
                            order=order, flagsq=False)
                r = run_case(case, acc, flag_cache)
                if r['viol']:
                    report(acc, cache, r['viol'], case)
                if r['status'] != 'ok':
                    acc.case(case_key(case), nontrivial=False, outcome=r['status'], calls=r['calls'])
                else:
                    acc.case(case_key(case), nontrivial=not r['corner'],
                             outcome='violation' if r['viol'] else 'hierarchy-ok', calls=r['calls'])
    acc.count('flag-matrix-states', len(flag_cache))


# ==========================================================================================
# runner interface

def plan(tier, seed):
    b = BOUNDS[tier]
    shards = []
    for pi, p in enumerate(b['content']):
        for via in p['via']:
            for f1 in range(4 if 'Q1' in p.get('qualifiers', QN) else 1):
                for f2 in range(4 if 'Q2' in p.get('qualifiers', QN) else 1):
                    for sc in (False, True):
                        if sc and p['budget'] < 1:
                            continue
                        nd = (f1 != 0) + (f2 != 0) + (1 if sc else 0)
                        chunks = max(1, p.get('chunks', CONTENT_CHUNKS) >> (2 * nd))
                        for ch in range(chunks):
                            shards.append(dict(check='content', p=pi, via=via, f1=f1, f2=f2,
                                               supercase=sc, chunk=ch, of=chunks))
    for pi, p in enumerate(b['orders']):
        for via in p['via']:
            for part in range(p['parts']):
                shards.append(dict(check='orders', p=pi, via=via, part=part, of=p['parts']))
    return shards


def run_shard(shard, tier):
    warnings.simplefilter('ignore')
    acc = Acc()
    b = BOUNDS[tier]
    if shard['check'] == 'content':
        flav = {'Q1': list(FLAVORS[shard['f1']]), 'Q2': list(FLAVORS[shard['f2']])}
        # samples for the evidence file come from one shard only (deterministic)
        first = (shard['p'], shard['f1'], shard['f2'], shard['chunk'], shard['supercase']) == \
            (0, 0, 0, 0, False)
        explore_content(acc, b['content'][shard['p']], shard['via'], flav, shard['chunk'],
                        shard['of'], shard['supercase'], sample_ok=first)
    else:
        explore_orders(acc, b['orders'][shard['p']], shard['via'], shard['part'], shard['of'])
    return acc


def replay(case, tier):
    warnings.simplefilter('ignore')
    acc = Acc()
    case = {k: v for k, v in case.items() if k != 'mof'}
    if not valid_case(norm_case(case)):
        raise HarnessError('not a C12 case: %r' % (case,))
    r = run_case(case, acc)
    acc.case(case_key(norm_case(case)), nontrivial=r['status'] == 'ok' and not r['corner'],
             outcome=r['status'], calls=r['calls'])
    for sig, exp, obs in r['viol']:
        acc.violation(sig, case, exp, obs)
    return acc


def snippet(case):
    c = norm_case({k: v for k, v in case.items() if k != 'mof'})
    decls = concretize(c['par'], c['cls'], c['supercase'])
    mof = qdecl_mof(c['flav']) + ''.join(class_mof(decls[i]) for i in c['order'])
    return ('# the forest of this case as MOF (creation path of the case: %s)\n'
            'import pywbem_mock\n'
            'def test_c12_witness():\n'
            '    conn = pywbem_mock.FakedWBEMConnection()\n'
            '    conn.compile_mof_string(%r)\n'
            '    for c in conn.EnumerateClasses(DeepInheritance=True, LocalOnly=False,\n'
            '                                   IncludeQualifiers=True, IncludeClassOrigin=True):\n'
            '        print(c.tomof())\n'
            '# exact re-execution: import sys; sys.path.insert(0, "/verif"); import mc\n'
            '# from checks import c12_class_resolution as c; print(c.replay(%r, "quick").violations)\n'
            % (c['via'], mof, case))
