"""C01 — CIM objects survive the CIM-XML wire format unchanged (mode E).

For every enumerated object spec o (both escaping modes):
   x1 = enc(o); o1 = parse(x1)          dump(o1) == norm(dump(o))       ['roundtrip']
   x2 = enc(o1); o2 = parse(x2)         x2 == x1 and dump(o2) == dump(o1)  ['fixpoint']
enc = tocimxml().toxml(); parse = xml_to_tupletree_sax + TupleParser.parse_any (wrapper tuples
unwrapped). dump() is a strict attribute-by-attribute dump (exact types, case, order).
"""
import itertools
import json

from pywbem import CIMParameter, CIMInstance, CIMClass, cimvalue
from pywbem import _cim_xml
from pywbem._tupletree import xml_to_tupletree_sax
from pywbem._tupleparse import TupleParser

from mc.core import Acc
from mc import domains as D
from mc import minimize as M
from mc.objdump import dump, diff, norm, path_class, string_transform

ID = 'C01'
RULE = ('object specs are enumerated from the shared alphabets (typed values of all 15 types as '
        'scalar/array/NULL in five carriers, all strings up to length L in every string context '
        'and at embedding depth 0..3, attribute combinations, small object trees with child '
        'permutations); each is encoded and parsed twice in both escaping modes; non-trivial = '
        'pywbem accepted the object for encoding and the comparison was executed')
ASSUMPTIONS = ['DSP0201 defaults for None attributes: propagated->False; qualifier flavors '
               'overridable/tosubclass->True, toinstance/translatable->False',
               'a CIMClass path is not part of the CLASS element and is not compared',
               'objects that tocimxml() rejects with an exception are "not accepted for transmission"']
BOUNDS = {
    'quick': {'string_len': 3, 'embed_depth': 3, 'embed_string_len': 2, 'tree_children': 2},
    'thorough': {'string_len': 4, 'embed_depth': 3, 'embed_string_len': 2, 'tree_children': 3},
}
NSHARDS = 96


# ------------------------------------------------------------------------------------------
# encode / parse

def enc(o, as_value=False):
    if as_value:
        return o.tocimxml(as_value=True).toxml()
    return o.tocimxml().toxml()


def parse(xml):
    tt = xml_to_tupletree_sax(xml.encode('utf-8'), 'C01')
    r = TupleParser().parse_any(tt)
    if isinstance(r, tuple) and len(r) == 3 and isinstance(r[0], str) and r[0].startswith('VALUE.'):
        r = r[2]
    elif isinstance(r, tuple) and len(r) == 3 and tt[0] == 'PARAMVALUE':
        # the operation layer (_methodcall) types PARAMVALUE payloads with cimvalue()
        r = (r[0], r[1], _typed(r[2], r[1]) if r[1] not in (None, 'reference') else r[2])
    return r


def _typed(value, cimtype):
    try:
        from pywbem._cim_operations import _cimvalue_from_cimxml
    except ImportError:
        return cimvalue(value, cimtype)
    return _cimvalue_from_cimxml(value, cimtype)


def set_mode(cdata):
    _cim_xml._CDATA_ESCAPING = bool(cdata)


# ------------------------------------------------------------------------------------------
# value alphabets

REAL32 = [0.0, -0.0, 1.5, -2.25, 0.1, 3.4028234663852886e38, 1.401298464324817e-45,
          1.1754943508222875e-38, 16777216.0, 1e-7, float('inf'), float('-inf'), float('nan')]
REAL64 = [0.0, -0.0, 1.5, 0.1, 1e20, 1e-7, 1.7976931348623157e308, 5e-324,
          2.2250738585072014e-308, 123456789.12345678, 1e22, 1 / 3.0,
          float('inf'), float('-inf'), float('nan')]
REFS = [['ipath', 'Ref', [['k', ['s', 'x']]], None, None],
        ['ipath', 'Ref', [['k', ['i', 'uint8', 1]], ['L', ['b', True]]], 'a/B', None],
        ['ipath', 'REF', [['k', ['s', 'a"b']]], 'a', 'H.x:5988'],
        ['ipath', 'Ref', [['r', ['ipath', 'In', [['k', ['s', '<&>']]], 'n', None]]], None, None],
        ['cpath', 'Ref', None, None], ['cpath', 'Ref', 'a/b', None], ['cpath', 'Ref', 'a', 'h']]


def scalars(t):
    if t == 'boolean':
        return [['b', True], ['b', False]]
    if t == 'string':
        return [['s', ''], ['s', 'a'], ['s', ' a '], ['s', 'a<&>"\'b'], ['s', 'é€\U0001F600'],
                ['s', 'TRUE'], ['s', '5']]
    if t == 'char16':
        return [['s', 'a'], ['s', ' '], ['s', '<'], ['s', 'é'], ['s', '&']]
    if t == 'datetime':
        return [['dt', s] for s in D.DATETIMES + D.INTERVALS]
    if t in D.INT_TYPES:
        return [['i', t, v] for v in D.int_lattice(t)]
    if t == 'real32':
        return [D.fspec(D.float32_round(f), 'real32') for f in REAL32 + D.DECIMAL_REALS32]
    if t == 'real64':
        return [D.fspec(f, 'real64') for f in REAL64 + D.DECIMAL_REALS]
    if t == 'reference':
        return REFS
    raise ValueError(t)


def value_shapes(t):
    """(vspec, is_array) for scalar, NULL scalar, and the array shapes"""
    sc = scalars(t)
    for v in sc:
        yield v, False
    yield ['n'], False
    yield ['n'], True
    yield ['a', []], True
    for v in sc:
        yield ['a', [v]], True
    yield ['a', [['n']]], True
    yield ['a', [sc[0], ['n'], sc[-1]]], True
    yield ['a', [['n'], sc[0]]], True
    # several NULL entries (each must keep its place), repeated equal entries
    yield ['a', [['n'], ['n']]], True
    yield ['a', [['n'], sc[0], ['n']]], True
    yield ['a', [sc[0], ['n'], ['n'], sc[-1], ['n']]], True
    yield ['a', [sc[0], sc[0], sc[0]]], True
    yield ['a', list(sc)], True


def value_specs():
    for t in D.ALL_TYPES:
        for v, arr in value_shapes(t):
            kw = {'type': t, 'is_array': arr}
            yield ['prop', 'P', v, dict(kw)]
            if t == 'reference':
                yield ['prop', 'P', v, dict(kw, reference_class='Ref')]
            if t != 'reference':
                yield ['qual', 'Q', v, {'type': t}] if v != ['n'] or not arr else \
                    ['qual', 'Q', v, {'type': t}]
                yield ['qdecl', 'Q', t, {'value': v, 'is_array': arr}]
            yield ['param', 'A', t, {'value': v, 'is_array': arr}]
            if not arr and v != ['n'] and not (t == 'reference' and v[0] == 'cpath'):
                yield ['ipath', 'Foo', [['k', v]], None, None]
                yield ['ipath', 'Foo', [['k', v], ['J', ['s', 'x']]], 'a', 'h']
    # untyped python numbers / inferred types
    for v in (['i', None, 5], ['i', None, -1], ['r', None, (1.5).hex()], ['b', True], ['s', 'x']):
        yield ['ipath', 'Foo', [['k', v]], None, None]


def string_contexts(s):
    """every place a string value can occur (embedding depth 0)"""
    v = ['s', s]
    yield ['prop', 'P', v, {'type': 'string'}]
    yield ['prop', 'P', ['a', [v, ['s', 'x'], v]], {'type': 'string'}]
    yield ['qual', 'Q', v, {'type': 'string'}]
    yield ['qual', 'Q', ['a', [v]], {'type': 'string'}]
    yield ['qdecl', 'Q', 'string', {'value': v}]
    yield ['param', 'A', 'string', {'value': v}]
    yield ['ipath', 'Foo', [['k', v]], None, None]
    yield ['ipath', 'Foo', [['r', ['ipath', 'In', [['k', v]], 'n', None]]], 'a', None]
    yield ['inst', 'Foo', [['prop', 'P', v, {'type': 'string'}]],
           ['ipath', 'Foo', [['k', v]], 'a', 'h']]
    if len(s) == 1 and ord(s) <= 0xFFFF:
        yield ['prop', 'C', v, {'type': 'char16'}]
        yield ['prop', 'C', ['a', [v, v]], {'type': 'char16'}]
        yield ['ipath', 'Foo', [['k', v]], None, None]


def embedded(depth, inner_value, kind='instance'):
    """instance whose property E holds an embedded instance ... depth times; innermost string"""
    inst = ['inst', 'In0', [['prop', 'S', ['s', inner_value], {'type': 'string'}],
                            ['prop', 'A', ['a', [['s', inner_value], ['n']]], {'type': 'string'}]],
            None]
    for d in range(depth):
        inst = ['inst', 'In%d' % (d + 1),
                [['prop', 'E', inst, {'type': 'string', 'embedded_object': kind}],
                 ['prop', 'S', ['s', inner_value], {'type': 'string'}]], None]
    return inst


def embedded_specs(maxdepth, strlen):
    strs = list(D.strings_over(D.STRING_ATOMS, strlen))
    for depth in range(1, maxdepth + 1):
        for s in strs:
            yield embedded(depth, s, 'instance')
        for s in strs[:300]:
            yield embedded(depth, s, 'object')
    # embedded class (embedded_object='object'), array of embedded instances, embedded in param
    cls = ['class', 'EC', [['prop', 'P', ['s', 'a<b'], {'type': 'string'}]], [], {}]
    yield ['inst', 'Out', [['prop', 'E', cls, {'type': 'string', 'embedded_object': 'object'}]], None]
    e1 = embedded(0, '<&>')
    yield ['inst', 'Out', [['prop', 'E', ['a', [e1, e1]], {'type': 'string', 'embedded_object': 'instance'}]], None]
    yield ['inst', 'Out', [['prop', 'E', ['a', [e1, ['n']]], {'type': 'string', 'embedded_object': 'object'}]], None]
    yield ['param', 'A', 'string', {'value': e1, 'embedded_object': 'instance'}]
    yield ['param', 'A', 'string', {'value': ['a', [e1]], 'embedded_object': 'object', 'is_array': True}]
    yield ['prop', 'E', ['n'], {'type': 'string', 'embedded_object': 'instance'}]
    yield ['prop', 'E', ['n'], {'type': 'string', 'embedded_object': 'object', 'is_array': True}]
    # an instance whose key property differs from the keybinding of its path (both must survive)
    for ns, host in ((None, None), ('n', None), ('n', 'h')):
        yield ['inst', 'Foo', [['prop', 'k', ['s', 'changed'], {}], ['prop', 'p', ['i', 'uint8', 1], {}]],
               ['ipath', 'Foo', [['k', ['s', 'a']], ['K2', ['i', 'uint8', 2]]], ns, host]]
    # every array shape of embedded values (empty, NULL, NULL entries, one, two) in every carrier
    for eo in ('instance', 'object'):
        items = [e1] + ([cls] if eo == 'object' else [])
        shapes = [['n'], ['a', []], ['a', [['n']]]]
        for it in items:
            shapes += [['a', [it]], ['a', [it, ['n']]], ['a', [['n'], it]], ['a', [it, it]],
                       ['a', [['n'], it, ['n']]], ['a', [['n'], ['n']]]]
        for v in shapes:
            kw = {'type': 'string', 'embedded_object': eo, 'is_array': True}
            yield ['prop', 'E', v, kw]
            yield ['inst', 'Out', [['prop', 'E', v, kw]], None]
            yield ['inst', 'Out', [['prop', 'E', ['inst', 'Mid', [['prop', 'F', v, kw]], None],
                                    {'type': 'string', 'embedded_object': 'instance'}]], None]
            yield ['class', 'Out', [['prop', 'E', v, kw]], [], {}]
            yield ['param', 'A', 'string', {'value': v, 'embedded_object': eo, 'is_array': True}]


NONE_T_F = [None, True, False]
QUALS = [['qual', 'Key', ['b', True], {}],
         ['qual', 'Description', ['s', 'a<b'], {'type': 'string', 'translatable': True}],
         ['qual', 'Vals', ['a', [['s', 'x'], ['s', 'y']]], {'type': 'string', 'overridable': False}]]


def attr_specs():
    # CIMProperty
    for co, pr, (t, v, arr), asz in itertools.product(
            [None, 'Foo', 'FOO'], NONE_T_F,
            [('string', ['s', 'a'], False), ('uint8', ['a', [['i', 'uint8', 1]]], True),
             ('string', ['n'], True), ('boolean', ['n'], False), ('reference', REFS[0], False),
             ('reference', ['n'], False)],
            [None, 1, 5]):
        kw = {'type': t, 'class_origin': co, 'propagated': pr, 'is_array': arr}
        if arr:
            kw['array_size'] = asz
        elif asz is not None:
            continue
        yield ['prop', 'P', v, kw]
        if t == 'reference':
            yield ['prop', 'P', v, dict(kw, reference_class='RefCls')]
    for qs in ([], QUALS[:1], QUALS[:2], QUALS[::-1]):
        yield ['prop', 'P', ['s', 'a'], {'type': 'string', 'qualifiers': qs}]
        yield ['prop', 'P', ['n'], {'type': 'uint8', 'is_array': True, 'qualifiers': qs}]
        yield ['prop', 'P', ['n'], {'type': 'reference', 'reference_class': 'R', 'qualifiers': qs}]
    # CIMQualifier
    for pr, ov, ts, ti, tr, (t, v) in itertools.product(
            NONE_T_F, NONE_T_F, NONE_T_F, NONE_T_F, NONE_T_F,
            [('boolean', ['b', True]), ('string', ['a', [['s', 'x']]]), ('uint32', ['n'])]):
        yield ['qual', 'Q', v, {'type': t, 'propagated': pr, 'overridable': ov, 'tosubclass': ts,
                                'toinstance': ti, 'translatable': tr}]
    # CIMQualifierDeclaration
    scopes_all = ['CLASS', 'ASSOCIATION', 'REFERENCE', 'PROPERTY', 'METHOD', 'PARAMETER', 'INDICATION']
    scope_sets = [None, {}] + [{s: True} for s in scopes_all] + \
        [{a: True, b: True} for a, b in itertools.combinations(scopes_all, 2)] + \
        [{s: True for s in scopes_all}, {'CLASS': True, 'METHOD': False}, {'ANY': True},
         {'CLASS': True, 'ANY': False}]
    for sc in scope_sets:
        yield ['qdecl', 'Q', 'string', {'scopes': sc}]
        yield ['qdecl', 'Q', 'uint8', {'scopes': sc, 'is_array': True, 'value': ['a', [['i', 'uint8', 1]]]}]
    for ov, ts, ti, tr in itertools.product(NONE_T_F, repeat=4):
        for arr, asz in ((False, None), (True, None), (True, 3), (None, None)):
            yield ['qdecl', 'Q', 'boolean', {'overridable': ov, 'tosubclass': ts, 'toinstance': ti,
                                            'translatable': tr, 'is_array': arr, 'array_size': asz}]
    # CIMParameter
    for t, rc, arr, asz, qs in itertools.product(
            ['string', 'uint8', 'reference', 'datetime'], [None, 'RC'], [False, True, None],
            [None, 2], [[], QUALS[:2]]):
        if (asz is not None and not arr) or (rc is not None and t != 'reference'):
            continue
        yield ['param', 'A', t, {'reference_class': rc, 'is_array': arr, 'array_size': asz,
                                 'qualifiers': qs}]
    # CIMMethod
    params = [['param', 'A', 'string', {}], ['param', 'b', 'uint8', {'is_array': True, 'array_size': 2}],
              ['param', 'R', 'reference', {'reference_class': 'RC', 'qualifiers': QUALS[:1]}],
              ['param', 'RA', 'reference', {'reference_class': 'RC', 'is_array': True}]]
    for rt in D.ALL_TYPES[:-1] + [None]:
        yield ['meth', 'M', rt, [], {}]
    for co, pr in itertools.product([None, 'Foo'], NONE_T_F):
        for ps in ([], params[:1], params, params[::-1]):
            yield ['meth', 'M', 'uint32', ps, {'class_origin': co, 'propagated': pr, 'qualifiers': QUALS[:1]}]
    # paths
    for ns in D.NAMESPACES + ['a/b/c']:
        for host in D.HOSTS:
            yield ['ipath', 'Foo', [['k', ['s', 'x']]], ns, host]
            yield ['cpath', 'Foo', ns, host]
            yield ['inst', 'Foo', [['prop', 'P', ['i', 'uint8', 1], {}]],
                   ['ipath', 'Foo', [['k', ['s', 'x']]], ns, host]]
    for cn in D.NAMES + D.NAMES_UNI:
        yield ['ipath', cn, [[cn, ['s', 'x']]], None, None]
        yield ['cpath', cn, None, None]
        yield ['inst', cn, [['prop', cn, ['s', 'x'], {}]], None]
        yield ['class', cn, [['prop', cn, ['n'], {'type': 'string'}]], [['meth', cn, 'uint8', [], {}]],
               {'superclass': cn}]


PROP_POOL = [['prop', 'P1', ['s', 'a'], {'type': 'string'}],
             ['prop', 'p2', ['i', 'uint8', 5], {}],
             ['prop', 'P3', ['a', [['dt', D.DATETIMES[0]], ['n']]], {'type': 'datetime'}],
             ['prop', 'R4', REFS[1], {'type': 'reference', 'reference_class': 'Ref'}],
             ['prop', 'E5', embedded(0, 'x<y'), {'type': 'string', 'embedded_object': 'instance'}],
             ['prop', 'n6', ['n'], {'type': 'real32', 'is_array': True, 'array_size': 4,
                                    'class_origin': 'Base', 'propagated': True, 'qualifiers': QUALS[:2]}]]
METH_POOL = [['meth', 'M1', 'uint32', [], {}],
             ['meth', 'm2', 'string', [['param', 'A', 'string', {}],
                                       ['param', 'B', 'reference', {'reference_class': 'Ref', 'is_array': True}]],
              {'class_origin': 'Base', 'qualifiers': QUALS[:1]}],
             ['meth', 'M3', None, [['param', 'Z', 'uint8', {'is_array': True, 'array_size': 3}],
                                   ['param', 'a', 'boolean', {'qualifiers': QUALS[1:]}]], {'propagated': True}]]


def tree_specs(width):
    for n in range(0, width + 1):
        for props in itertools.permutations(PROP_POOL, n):
            props = [list(p) for p in props]
            yield ['inst', 'Foo', props, None]
            if n <= 2:
                yield ['inst', 'Foo', props, ['ipath', 'Foo', [['k', ['s', 'x']]], 'a', None],
                       {'qualifiers': QUALS[:1]}]
                for m in range(0, width + 1):
                    for meths in itertools.permutations(METH_POOL, m):
                        yield ['class', 'Foo', props, [list(x) for x in meths],
                               {'superclass': None if m % 2 else 'Base', 'qualifiers': QUALS[:n]}]


def string_specs(strlen):
    for s in D.strings_over(D.STRING_ATOMS, strlen):
        for spec in string_contexts(s):
            yield spec


# ------------------------------------------------------------------------------------------
# verdict for one (spec, mode)

def _as_value(spec):
    return spec[0] == 'param' and 'value' in (spec[3] if len(spec) > 3 else {})


def verdict(spec, cdata):
    """-> (outcome, what|None, where, expected, observed)"""
    try:
        o = D.build(spec)
    except (ValueError, TypeError):
        return 'rejected-by-constructor', None, None, None, None
    set_mode(cdata)
    try:
        return _verdict(spec, o)
    finally:
        set_mode(False)


def _verdict(spec, o):
    asv = _as_value(spec)
    if host_without_namespace(o):
        return 'not-representable(host without namespace)', None, None, None, None
    try:
        x1 = enc(o, asv)
    except Exception as exc:   # "fails locally": not accepted for transmission
        return 'encode-rejected:' + type(exc).__name__, None, None, None, None
    try:
        o1 = parse(x1)
    except Exception as exc:
        return ('parse-raised', 'own-xml-rejected:' + type(exc).__name__, '', x1[:300],
                '%s: %s' % (type(exc).__name__, str(exc)[:200]))
    if asv:
        # PARAMVALUE comes back as (name, type, value)
        exp = norm(['tuple', [dump(o.name), dump(o.type), dump(o.value)]])
        got = dump(o1)
        d = diff(exp, got)
        if d:
            return ('differs', 'roundtrip:' + describe(d), path_class(d[0]), d[1], d[2])
        try:
            o1b = CIMParameter(o1[0], o1[1], value=o1[2], is_array=o.is_array,
                               embedded_object=o.embedded_object)
            x2 = enc(o1b, True)
            o2 = parse(x2)
            x3 = enc(CIMParameter(o2[0], o2[1], value=o2[2], is_array=o.is_array,
                                  embedded_object=o.embedded_object), True)
        except Exception as exc:
            return ('fixpoint-raised', 'fixpoint-raised:' + type(exc).__name__, '', x1[:300], repr(exc)[:200])
        if x3 != x2:
            return 'xml-not-stable', 'fixpoint:xml-differs', '', x2[:400], x3[:400]
        d = diff(dump(o1), dump(o2))
        if d:
            return 'fixpoint-differs', 'fixpoint:' + describe(d), path_class(d[0]), d[1], d[2]
        return 'ok', None, None, None, x1
    exp = norm(dump(strip_class_path(o)))
    got = dump(o1)
    d = diff(exp, got)
    if d:
        return 'differs', 'roundtrip:' + describe(d), path_class(d[0]), d[1], d[2]
    try:
        x2 = enc(o1)
        o2 = parse(x2)
        x3 = enc(o2)
    except Exception as exc:
        return ('fixpoint-raised', 'fixpoint-raised:' + type(exc).__name__, '', x1[:300], repr(exc)[:200])
    if x3 != x2:
        return 'xml-not-stable', 'fixpoint:xml-differs', '', x2[:400], x3[:400]
    d = diff(got, dump(o2))
    if d:
        return 'fixpoint-differs', 'fixpoint:' + describe(d), path_class(d[0]), d[1], d[2]
    return 'ok', None, None, None, x1


def host_without_namespace(o):
    """DSP0201 NAMESPACEPATH = HOST + LOCALNAMESPACEPATH: a host cannot be carried without a
    namespace (checked on every path inside the object)"""
    from pywbem import CIMInstanceName, CIMClassName, CIMProperty
    if isinstance(o, (CIMInstanceName, CIMClassName)):
        if o.host is not None and o.namespace is None:
            return True
        if isinstance(o, CIMInstanceName):
            return any(host_without_namespace(v) for v in o.keybindings.values())
        return False
    if isinstance(o, CIMInstance):
        return host_without_namespace(o.path) or any(host_without_namespace(p) for p in o.properties.values())
    if isinstance(o, CIMClass):
        return any(host_without_namespace(p) for p in o.properties.values())
    if isinstance(o, (CIMProperty, CIMParameter)):
        return host_without_namespace(o.value)
    if isinstance(o, list):
        return any(host_without_namespace(x) for x in o)
    return False


def strip_class_path(o):
    if isinstance(o, CIMClass) and o.path is not None:
        o = o.copy()
        o.path = None
    return o


def describe(d):
    """transformation class of a dump difference"""
    path, a, b = d
    if isinstance(a, list) and isinstance(b, list) and a and b and a[0] == 'str' and b[0] == 'str':
        return 'string:' + string_transform(a[1], b[1])
    ta = a[0] if isinstance(a, list) and a else type(a).__name__
    tb = b[0] if isinstance(b, list) and b else type(b).__name__
    if ta != tb:
        return 'type:%s->%s' % (ta, tb)
    if path.endswith('/len'):
        return 'child-count'
    return 'value:' + str(ta)


def kind_of(spec):
    return spec[0]


def check_spec(spec, acc, minimize=True):
    if not hasattr(acc, '_c01_seen'):
        acc._c01_seen = {}
    for cdata in (False, True):
        out, what, where, exp, obs = verdict(spec, cdata)
        trivial = what is None and out != 'ok'
        acc.case((D.key(spec), cdata), nontrivial=not trivial, calls=4,
                 outcome='%s:%s' % (kind_of(spec), out),
                 sample=dict(spec=spec, cdata=cdata, xml=obs[:300]) if out == 'ok' and spec[0] == 'inst' else None)
        if what is None:
            continue
        case = dict(check='roundtrip', spec=spec, cdata=cdata)
        raw = (what, where, kind_of(spec), cdata)
        if minimize and raw in acc._c01_seen:
            # same failure class at the same place in the same kind of object: already
            # minimised in this shard, count it under that signature
            sig, _ = acc._c01_seen[raw]
            acc.violations[sig]['count'] += 1
            continue
        if minimize:
            case['spec'] = M.minimize(spec, lambda sp: D.valid(sp) and verdict(sp, cdata)[1] == what, max_tests=1500)
            out, what, where, exp, obs = verdict(case['spec'], cdata)
        modes = [m for m in (False, True) if verdict(case['spec'], m)[1] == what]
        sig = dict(check='roundtrip', what=what, where=where or '-', kind=kind_of(case['spec']),
                   modes='+'.join('cdata' if m else 'entity' for m in modes),
                   witness=json.dumps(case['spec'], ensure_ascii=True))
        acc.violation(sig, case, exp, obs)
        if minimize:
            from mc.core import sigkey
            acc._c01_seen[raw] = (sigkey({k: str(v) for k, v in sig.items()}), None)


# ------------------------------------------------------------------------------------------

def all_specs(tier):
    b = BOUNDS[tier]
    return itertools.chain(value_specs(), attr_specs(), tree_specs(b['tree_children']),
                           embedded_specs(b['embed_depth'], b['embed_string_len']),
                           string_specs(b['string_len']))


def plan(tier, seed):
    return [dict(check='roundtrip', part=i, of=NSHARDS) for i in range(NSHARDS)]


def run_shard(shard, tier):
    import warnings
    warnings.simplefilter('ignore')
    acc = Acc()
    for i, spec in enumerate(all_specs(tier)):
        if i % shard['of'] != shard['part']:
            continue
        check_spec(spec, acc)
    return acc


def replay(case, tier):
    import warnings
    warnings.simplefilter('ignore')
    acc = Acc()
    check_spec(case['spec'], acc, minimize=False)
    acc.violations = {k: v for k, v in acc.violations.items() if v['case'].get('cdata') == case.get('cdata')}
    return acc


def snippet(case):
    return ('import sys; sys.path.insert(0, "/verif")\n'
            'import mc\nfrom checks import c01_xml_roundtrip as c\n'
            'def test_replay():\n'
            '    out = c.verdict(%r, %r)\n'
            '    assert out[1] is None, out\n' % (case.get('spec'), case.get('cdata')))
