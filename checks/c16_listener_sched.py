"""C16 — accepted indications reach each callback exactly once, in order; stop() is clean (mode S).

Stateless, preemption-bounded exploration of ALL interleavings of the real listener threads
(pywbem/_listener.py re-loaded with shimmed threading/queue/time, see mc/listener_mc.py and
mc/sched.py): main (start/stop/restart), 1-3 senders running the real ListenerRequestHandler on
in-memory sockets, the server thread (transcribed stdlib serve loop), the callback thread.
Every queue/event/sleep/thread start/join, callback entry/exit and every access to the shared
fields _ind_queue and _callback_thread is a scheduling point.
"""
import json
import traceback
import warnings

from mc.core import Acc, HarnessError
from mc import sched
from mc import listener_mc as LM

ID = 'C16'
RULE = ('schedules = choice sequences at the scheduling points (canonical order: running thread '
        'first); all schedules with at most p preemptions are executed for each driver family; '
        'non-trivial = at least one indication was acknowledged; a schedule is distinct by its '
        'choice sequence')
ASSUMPTIONS = ['CPython executes the code between two scheduling points atomically w.r.t. the other '
               'listener threads only where it touches thread-local state; all shared state of the '
               'listener (queue, events, _ind_queue, _callback_thread) is reached through scheduling points',
               'the fake threaded HTTP server transcribes socketserver.BaseServer.serve_forever/shutdown '
               'and ThreadingMixIn.server_close (validated once against the real server by mc.selftest)',
               'sleep() and timed-out get() are yields (a thread that yields runs again only after '
               'another thread has taken a step, unless nothing else can run)']
BOUNDS = {
    'quick': {'families': ['F1 p<=1', 'F1b(2 callbacks, first raises) p<=1', 'F2 p<=2', 'F2o(order) p<=1',
                           'F3(restart) p<=1', 'F4(bounded queue) p<=1']},
    'thorough': {'families': ['F1 p<=2', 'F1b p<=2', 'F2 p<=3 (capped)', 'F2o p<=2', 'F3 p<=2',
                              'F4 p<=2', 'F5(3 senders) p<=1']},
}
HORIZON = 1500
PRUNE = True      # stop expanding below a global state that was already expanded (see mc/sched.py)

# name -> (config, preemption bound)
FAMILIES = {
    'quick': [
        ('F1', dict(order='race', nsend=2, nind=1, ncb=1, raising=False, maxq=0, restart=False), 1),
        ('F1b', dict(order='race', nsend=1, nind=2, ncb=2, raising=True, maxq=0, restart=False), 1),
        ('F2', dict(order='join', nsend=2, nind=1, ncb=1, raising=False, maxq=0, restart=False), 2),
        ('F2o', dict(order='join', nsend=1, nind=2, ncb=2, raising=False, maxq=0, restart=False), 1),
        ('F3', dict(order='join', nsend=1, nind=1, ncb=1, raising=False, maxq=0, restart=True), 1),
        ('F4', dict(order='join', nsend=2, nind=1, ncb=1, raising=False, maxq=1, restart=False, slowcb=True), 1),
        # one sender, three indications, queue of one: the queue stays full over consecutive refusals
        ('F7', dict(order='join', nsend=1, nind=3, ncb=1, raising=False, maxq=1, restart=False, slowcb=True), 1),
    ],
    'thorough': [
        ('F1', dict(order='race', nsend=2, nind=1, ncb=1, raising=False, maxq=0, restart=False), 2),
        ('F1b', dict(order='race', nsend=1, nind=2, ncb=2, raising=True, maxq=0, restart=False), 2),
        ('F2', dict(order='join', nsend=2, nind=1, ncb=1, raising=False, maxq=0, restart=False), 3),
        ('F2o', dict(order='join', nsend=1, nind=2, ncb=2, raising=False, maxq=0, restart=False), 2),
        ('F3', dict(order='join', nsend=1, nind=1, ncb=1, raising=False, maxq=0, restart=True), 2),
        ('F4', dict(order='join', nsend=2, nind=1, ncb=1, raising=False, maxq=1, restart=False, slowcb=True), 2),
        ('F5', dict(order='race', nsend=3, nind=1, ncb=1, raising=False, maxq=0, restart=False), 1),
        ('F6', dict(order='join', nsend=2, nind=2, ncb=1, raising=False, maxq=2, restart=False, slowcb=True), 1),
        ('F7', dict(order='join', nsend=1, nind=3, ncb=1, raising=False, maxq=1, restart=False, slowcb=True), 2),
        ('F8', dict(order='join', nsend=2, nind=2, ncb=1, raising=False, maxq=1, restart=False, slowcb=True), 1),
    ],
}
CAPS = {'quick': 60000, 'thorough': 400000}     # executions per shard sub-tree (cap is reported)

_L = None
_REQS = {}


def _listener_class():
    global _L
    if _L is None:
        mod = LM.load()

        class L(mod.WBEMListener):
            _ind_queue = sched.Shared()
            _callback_thread = sched.Shared()
        _L = L
    return _L


class Observation:
    def __init__(self):
        self.log = []        # (callback index, ident) in delivery order
        self.acks = {}       # sender -> [(ident, 'ok'|'full'|'refused'|'other:<status>')]
        self.res = {}        # 'start'/'stop'/'start2'/'stop2' -> 'ok' | exception description
        self.thread_exc = []
        self.servers = []


def run_one(cfg, choices):
    """one execution under the schedule `choices` (then canonical defaults) -> (Sched, Observation)"""
    mod = LM.load()
    L = _listener_class()
    del LM.SERVERS[:]
    obs = Observation()
    lst = L('localhost', http_port=50000, max_ind_queue_size=cfg['maxq'])
    lst.queue_get_timeout = 2

    def shared_state():
        d = lst.__dict__
        q = d.get('_sh_ind_queue')
        ct = d.get('_sh_callback_thread')
        return (None if q is None else (tuple(i[2] for i in q.q), q.unfinished_tasks),
                None if ct is None else (ct.stop_event._f, ct.exception is not None),
                d.get('_queue_full'),
                tuple((s.shutdown_request, s.is_shut_down, s.loop_running, s.closed, s.inflight,
                       tuple(p.accepted for p in s.pending)) for s in LM.SERVERS),
                tuple(obs.log), tuple((k, tuple(v)) for k, v in sorted(obs.acks.items())),
                tuple(sorted(obs.res.items())))
    S = sched.Sched(choices, horizon=HORIZON, state_fn=shared_state if PRUNE else None)

    class Consumer:
        # the callbacks are bound methods of ONE function on different objects (the usual shape of
        # callbacks in an application, and the case in which "is it registered already?" can go wrong)
        def __init__(self, idx):
            self.idx = idx

        def consume(self, indication, host):
            idx = self.idx
            S.point('cb%d.enter' % idx)
            obs.log.append((idx, indication['n']))
            if cfg.get('slowcb'):
                S.yield_('cb%d.slow' % idx)
            S.point('cb%d.exit' % idx)
            if cfg['raising'] and idx == 0:
                raise Nasty('callback failed')

    class Nasty(Exception):
        # "callbacks that raise": any exception object, also one that cannot even be printed
        def __str__(self):
            raise TypeError('this exception has no string form')
    for i in range(cfg['ncb']):
        lst.add_callback(Consumer(i).consume)

    def sender(k, idents):
        def f():
            obs.acks[k] = []
            for ident in idents:
                S.point('s%d.connect' % k)
                srv = LM.SERVERS[-1] if LM.SERVERS else None
                if srv is None or srv.closed:
                    obs.acks[k].append((ident, 'refused'))
                    continue
                p = LM.Pending()
                srv.pending.append(p)
                S.block(lambda: p.accepted or srv.closed, 's%d.wait-accept' % k)
                if not p.accepted:
                    obs.acks[k].append((ident, 'refused'))
                    continue
                try:
                    if ident not in _REQS:
                        _REQS[ident] = LM.export_request(ident)
                    out = LM.handle(mod, srv, _REQS[ident])
                finally:
                    srv.inflight -= 1
                obs.acks[k].append((ident, classify_response(out)))
        return f

    def guarded(name, fn):
        try:
            fn()
            obs.res[name] = 'ok'
        except sched.Abort:
            raise
        except Exception as e:   # noqa: the observation
            obs.res[name] = describe_exc(e)

    def main():
        guarded('start', lst.start)
        threads = []
        for k in range(cfg['nsend']):
            t = sched.ShimThread(target=sender(k, ['%d.%d' % (k, j) for j in range(cfg['nind'])]), name='s%d' % k)
            t.start()
            threads.append(t)
        if cfg['order'] == 'join':
            for t in threads:
                t.join()
        guarded('stop', lst.stop)
        if cfg['order'] != 'join':
            for t in threads:
                t.join()
        if cfg['restart']:
            guarded('start2', lst.start)
            t = sched.ShimThread(target=sender(9, ['9.0']), name='s9')
            t.start()
            t.join()
            guarded('stop2', lst.stop)
    S.run(main)
    for t in S.threads:
        if t.exc is not None:
            obs.thread_exc.append((t.name, describe_exc(t.exc)))
    obs.servers = [(s.closed, s.inflight, s.loop_running) for s in LM.SERVERS]
    return S, obs


def classify_response(out):
    head = out.split(b'\r\n', 1)[0]
    if b' 200 ' not in head:
        return 'other:' + head.decode('latin-1')[:40]
    if b'<ERROR' in out:
        return 'full' if b'queue is full' in out else 'other:cim-error'
    if b'EXPMETHODRESPONSE' in out:
        return 'ok'
    return 'other:body'


def describe_exc(e):
    tb = traceback.extract_tb(e.__traceback__)
    where = 'outside'
    for fr in reversed(tb):
        if fr.filename.endswith('_listener.py'):
            where = fr.name
            break
    return '%s@%s' % (type(e).__name__, where)


# ------------------------------------------------------------------------------------------
# oracle

def judge(cfg, S, obs):
    """-> list of (what, expected, observed)"""
    bad = []
    if S.error == 'horizon':
        return [('HORIZON', None, None)]
    if S.error:
        bad.append(('deadlock', 'all threads finish', S.error))
    for name in ('start', 'stop', 'start2', 'stop2'):
        if name in obs.res and obs.res[name] != 'ok':
            bad.append(('%s-raised:%s' % (name.rstrip('2'), obs.res[name]), 'returns without raising', obs.res[name]))
    for name, desc in obs.thread_exc:
        bad.append(('thread-died:%s' % desc, 'no thread dies with an exception', '%s: %s' % (name, desc)))
    acked, refused = [], []
    for k, lst in sorted(obs.acks.items()):
        for ident, a in lst:
            if a == 'ok':
                acked.append(ident)
            elif a in ('full', 'refused'):
                refused.append(ident)
            else:
                bad.append(('unexpected-response', 'success, queue-full error, or refused', a))
    for ident in acked:
        for c in range(cfg['ncb']):
            n = sum(1 for (ci, i) in obs.log if ci == c and i == ident)
            if n == 0:
                bad.append(('acknowledged-not-delivered', 'exactly once to callback %d' % c, 'never'))
            elif n > 1:
                bad.append(('delivered-twice', 'exactly once', '%d times' % n))
        seq = [ci for (ci, i) in obs.log if i == ident]
        if seq != sorted(seq):
            bad.append(('callback-order', 'registration order', seq))
    for ident in refused:
        if any(i == ident for (_, i) in obs.log):
            bad.append(('refused-but-delivered', 'never delivered', ident))
    for k, lst in sorted(obs.acks.items()):
        ack_order = [ident for ident, a in lst if a == 'ok']
        for c in range(cfg['ncb']):
            deliv = [i for (ci, i) in obs.log if ci == c and i in ack_order]
            if deliv != ack_order and sorted(deliv) == sorted(ack_order):
                bad.append(('sender-order', ack_order, deliv))
    if not S.error:
        for closed, inflight, running in obs.servers:
            if not closed or inflight or running:
                bad.append(('server-left-behind', 'closed, no handler, loop ended',
                            'closed=%s inflight=%s loop=%s' % (closed, inflight, running)))
    return bad


def check_exec(cfg, fam, bound, prefix, S, obs, acc):
    choices = S.choices_taken()
    problems = judge(cfg, S, obs)
    npre = sched.preemption_costs(S.trace)[-1] if S.trace else 0
    acked = sum(1 for lst in obs.acks.values() for _, a in lst if a == 'ok')
    outcome = 'log=%s acks=%s stop=%s' % (
        ','.join('%d:%s' % x for x in obs.log),
        ','.join('%s=%s' % (i, a[:4]) for k in sorted(obs.acks) for i, a in obs.acks[k]),
        obs.res.get('stop'))
    acc.case((fam, tuple(choices)), nontrivial=acked > 0, outcome=outcome, calls=len(S.trace),
             sample=dict(family=fam, choices=choices, log=obs.log, acks=obs.acks, result=obs.res)
             if npre == 1 and acked > 1 else None)
    for what, exp, got in problems:
        if what == 'HORIZON':
            acc.cap('horizon of %d steps hit in family %s (possible livelock)' % (HORIZON, fam))
            continue
        acc.violation(dict(check='schedule', what=what),
                      dict(check='schedule', family=fam, config=cfg, choices=choices, preemptions=npre),
                      exp, got)


# ------------------------------------------------------------------------------------------

def _family(tier, name):
    for n, cfg, bound in FAMILIES[tier]:
        if n == name:
            return cfg, bound
    raise HarnessError('unknown family %s' % name)


SPLIT = {'F1': 12, 'F2': 12, 'F4': 6, 'F5': 16, 'F6': 12}     # families split into sub-trees (others: one shard)


def plan(tier, seed):
    warnings.simplefilter('ignore')
    shards = []
    for name, cfg, bound in FAMILIES[tier]:
        target = SPLIT.get(name, 0) * (2 if tier == 'thorough' else 1)
        if not target:
            shards.append(dict(check='schedule', family=name, part='subtree', roots=[[]]))
            continue
        roots = sched.frontier(lambda p: run_one(cfg, p)[0], bound, target=target, seen={})
        shards.append(dict(check='schedule', family=name, part='frontier', target=target))
        k = max(1, (len(roots) + target - 1) // target)
        for i in range(0, len(roots), k):
            # contiguous chunks of sibling sub-trees share one pruning table inside the shard
            shards.append(dict(check='schedule', family=name, part='subtree', roots=roots[i:i + k]))
    shards.append(dict(check='server-binding'))
    return shards


BINDING_FACTS_C16 = ('shutdown-before-serve-returns-early', 'shutdown-does-not-end-the-loop',
                      'request-not-handled-while-loop-runs', 'server_close-does-not-wait-for-handlers',
                      'in-flight-request-not-answered', 'port-still-bound-after-server_close')


def binding_shard(facts, acc, prop):
    """conformance of the transcribed server model with pywbem's real ThreadedHTTPServer"""
    from mc.listener_mc import server_binding_problems
    problems, skipped = server_binding_problems()
    if skipped:
        acc.case(('binding',), nontrivial=False, outcome='binding:skipped')
        acc.cap('server binding facts not checked: ' + skipped)
        return acc
    mine = [p for p in problems if p[0] in facts]
    acc.case(('binding',), nontrivial=True, outcome='binding:%s' % ('ok' if not mine else 'VIOLATION'),
             calls=6)
    for fact, exp, obs in mine:
        acc.violation(dict(check='server-binding', what=fact), dict(check='server-binding'), exp, obs)
    return acc


def run_shard(shard, tier):
    warnings.simplefilter('ignore')
    acc = Acc()
    if shard['check'] == 'server-binding':
        acc.states = 1
        return binding_shard(BINDING_FACTS_C16, acc, ID)
    cfg, bound = _family(tier, shard['family'])

    def run(prefix):
        S, obs = run_one(cfg, prefix)
        check_exec(cfg, shard['family'], bound, prefix, S, obs, acc)
        return S
    if shard['part'] == 'frontier':
        sched.frontier(run, bound, target=shard['target'], seen={})
    else:
        n, capped = sched.explore(run, bound, roots=shard['roots'], max_execs=CAPS[tier], seen={})
        if capped:
            acc.cap('family %s: sub-tree capped at %d executions (preemption bound %d not completed)' %
                    (shard['family'], CAPS[tier], bound))
    acc.count('executions:' + shard['family'], acc.evaluations)
    acc.states = acc.evaluations
    return acc


def replay(case, tier):
    warnings.simplefilter('ignore')
    acc = Acc()
    if case.get('check') == 'server-binding':
        return binding_shard(BINDING_FACTS_C16, acc, ID)
    cfg = case['config']
    S, obs = run_one(cfg, case['choices'])
    S2, obs2 = run_one(cfg, case['choices'])
    if (obs.log, obs.acks, obs.res) != (obs2.log, obs2.acks, obs2.res):
        raise HarnessError('C16: the same schedule gave two different observations')
    check_exec(cfg, case['family'], 0, case['choices'], S, obs, acc)
    return acc


def snippet(case):
    if case.get('check') == 'server-binding':
        return ('import sys; sys.path.insert(0, "/verif")\nimport mc\nfrom mc.listener_mc import server_binding_problems\n'
                'def test_replay():\n    assert server_binding_problems()[0] == []\n')
    return ('import sys; sys.path.insert(0, "/verif")\nimport mc\nfrom checks import c16_listener_sched as c\n'
            'def test_replay():\n    S, obs = c.run_one(%r, %r)\n    assert not c.judge(%r, S, obs)\n' %
            (case['config'], case['choices'], case['config']))
