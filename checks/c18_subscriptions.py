"""C18 - the subscription manager owns exactly what it created and removes exactly that (mode H).

Explicit-state BFS (mc/explore.py) over histories of WBEMSubscriptionManager calls.  The live
object is: 1-2 pywbem_mock.FakedWBEMConnection "servers" (Interop namespace from the DMTF schema
MOF under tests/schema, pywbem_mock's namespace provider and the three subscription providers),
one pywbem.WBEMServer per connection and 1-3 WBEMSubscriptionManager objects with different ids.
Every event calls the real manager method.  Next to the live objects the state carries the
reference model mc/refmodels/ownership.py: the set of instance keys per server with an owner tag
(mgr:<id> | permanent | static | foreign) and the set of servers each manager is registered with.

The connections are built ONCE per process; a BFS snapshot is a pickle of (instance store of the
Interop namespace per server, the managers' attribute dicts with the WBEMServer objects replaced by
their index, the model).  Restoring a snapshot swaps these into the live singletons.

Oracle, evaluated after EVERY transition for ALL managers and servers (and in the initial state):
  * the instances of the three indication classes in the repository == the model's keys
    (so: a refused call changed nothing; remove_server / remove_all_servers / context exit deleted
    exactly the owned set and left permanent, static and foreign instances alone);
  * for every manager and registered server get_owned_destinations/filters/subscriptions, as sets
    of instance keys, == the model's owned set of that manager (which by the first point is the set
    of its owned instances actually present); for a server the manager is not registered with,
    get_owned_* raise ValueError;
  * the call's answer is of a class the documents allow: success (created / existing / ok),
    refusal (ValueError or CIMError - either counts as a refusal, messages and codes are not
    compared) or, never, any other exception.

Sub-checks (signature field 'check'):
  owned-lists  a manager's list differs from its owned instances in the server, outside discovery
  rediscovery  after add_server on a (new) manager object its lists differ from its owned set
  isolation    a manager lists or deletes an instance owned by a manager with a different id
  removal      remove_server / remove_all_servers / exit / remove_* deleted too much or too little
  refusal      a call that must be refused (referenced filter/destination, permanent subscription
               on an own owned filter/destination, taken Name, unregistered server) was not, or
               it changed something
  raised       an exception other than ValueError / CIMError, or a refusal of a call that the
               documents say works

Signature {'check','what','op','ids'}: op = manager method ('restart' counts as add_server,
'exit' as __exit__), ids = class of the run's manager ids: regex-invalid (an id is not a valid
regular expression), regex-collision (an id, read as a regular expression, matches another id of the
run), prefix, regex-meta (an id has regex metacharacters), plain.  finish() keeps, per
(check, what, op), only the simplest ids class in which the failure was seen.

A state in which the oracle complained is an error state: it is reported (BFS: shortest history
first) and not expanded further, so one root cause does not cascade into follow-up signatures.

Events (JSON lists; m = manager index, s = server index, keys = model keys F:<Name>, D:<Name>,
S:<filter key>|<destination key>):
  ['add_server', m, s]  ['restart', m, s]  ['remove_server', m, s]  ['remove_all', m]  ['exit', m]
  ['add_dest', m, s, owned, destination_id or name, url key, persistence_type]
  ['add_filter', m, s, owned, filter_id or name]
  ['add_sub', m, s, filter key, destination key | [keys] | None, owned]
  ['rm_dest', m, s, key | [keys]]  ['rm_filter', m, s, key]  ['rm_sub', m, s, key | [keys]]
Every run starts with the fixed prefix add_server(m, 0) for every manager (part of the recorded
history); the depth bound counts the events after the prefix.
"""
import json
import os
import pickle
import re
import tempfile
import zipfile

import pywbem
import pywbem_mock
import pywbem._subscription_manager as _sm
import pywbem_mock._subscriptionproviders as _sp
from pywbem import (CIMError, CIMInstance, CIMInstanceName, CIMDateTime, WBEMServer,
                    WBEMSubscriptionManager)
from pywbem_mock import FakedWBEMConnection
from pywbem_mock.config import (OBJECTMANAGERCREATIONCLASSNAME, SYSTEMCREATIONCLASSNAME,
                                OBJECTMANAGERNAME, SYSTEMNAME)

import mc
from mc.core import Acc, HarnessError, sigkey
from mc import explore
from mc.explore import Problem, StepResult
from mc.refmodels import ownership as own
from mc.refmodels.ownership import DEST, FILTER, SUB, Entry

ID = 'C18'
RULE = ('a case is one transition (state, event) of the state graph of manager calls, explored '
        'breadth-first with canonical-state dedup from the state after the prefix '
        '"every manager: add_server(server 0)"; every event is executed by the real '
        'WBEMSubscriptionManager on pywbem_mock servers; a transition is non-trivial unless the '
        'manager refused the call locally with ValueError; error states (oracle complained) are '
        'reported and not expanded; one BFS per (tuple of manager ids, alphabet levels, number of '
        'servers, depth[, first event])')
ASSUMPTIONS = [
    'the WBEM server is pywbem_mock.FakedWBEMConnection with install_namespace_provider and '
    'install_subscription_providers on an Interop namespace compiled from tests/schema (DMTF 2.49); '
    'the server refuses to delete a referenced filter/destination itself, so the client-side '
    'ReferenceNames guard of remove_filter/remove_destinations cannot be told apart from it',
    'socket.getfqdn (as imported by pywbem._subscription_manager) returns "client.example"; '
    'CIMDateTime.now in pywbem_mock._subscriptionproviders returns a constant',
    'instance identity = class + keybindings of the path (host and namespace ignored; the mock never '
    'sets a host); owned lists are compared as SETS of such keys',
    'ownership of a subscription = the manager through which it was created with owned=True (the '
    'statement: "owns exactly what it created"); permanent = created with owned=False; static and '
    'foreign instances are pre-loaded through the connection, not through a manager: a static '
    'filter and destination, and per manager id a "foreign" filter and destination whose Names look '
    'like owned Names with one more ":" component; for the first manager also a subscription between '
    'these two and a filter and destination with the pre-1.3 owned Name format',
    'a manager is only asked to remove instances it owns itself or permanent ones (removing another '
    'manager\'s instance by path is the caller\'s decision, and static instances must not be '
    'removed per the documentation); add_subscriptions uses every filter x destination that exists '
    '(own, other manager\'s, permanent, static) - foreign look-alikes are not subscribed to',
    'either ValueError or CIMError counts as "refused"; status codes and messages are not compared; '
    'a permanent subscription on ANOTHER manager\'s owned filter/destination may be accepted or '
    'refused (the documentation only promises the refusal for the manager\'s own owned instances); '
    'when an owned filter/destination is referenced by a subscription the manager does not own, '
    'remove_server/remove_all_servers/exit may fail with CIMError after deleting any subset of the '
    'owned instances',
    'a subscription created through manager X with owned=True on a filter/destination owned by '
    'manager Y is X\'s (statement: "owns exactly what it created", "managers with different IDs never '
    'see or delete each other\'s instances"); the documented discovery rule of add_server ("a '
    'subscription that references an owned filter or destination is owned as well") makes Y claim it '
    'after a restart - the check follows the statement and reports that; '
    'CROSS_MANAGER_SUBSCRIPTIONS = False removes these events',
    'where both "Name already exists" and "owned destination with the same URL and PersistenceType '
    'exists" apply, add_destination may raise CIM_ERR_ALREADY_EXISTS or return the existing one',
    'ids the manager constructor rejects (":" in the id, None, non-string) are trivial cases; '
    'destination/filter ids the add methods accept must work (add_destination accepts "x:y")',
]

IDS = ['m', 'm1', 'a.c', 'abc', 'a*', '(x', '[', 'm ', 'é']
BAD_IDS = ['a:b', ':', None, 5]
FQDN = 'client.example'
NS = 'interop'
CROSS_MANAGER_SUBSCRIPTIONS = True     # add_subscriptions on the other manager's filters/destinations
MAX_STATES_PER_BFS = 400000

URLS = {              # key -> (listener_url argument, Destination property or None if not acceptable)
    'u1': ('http://l:5000', 'http://l:5000'),
    'u1b': ('HTTP://l:5000/', 'http://l:5000'),
    'u2': ('https://[::1]:5001', 'https://[::1]:5001'),
    'noscheme': ('l:5000', None),
    'noport': ('http://l', None),
}

# alphabet levels: what a manager may do in a run
LEVELS = {
    # the "other" manager: creates owned instances, is removed, is restarted
    'small': dict(dest=[[True, 'd1', 'u1', None]], filt=[[True, 'f1']],
                  sub='own', sub_owned=[True], sub_forms=[], rm=[], rm_lists=False,
                  life=['restart', 'remove_server'], unreg=False, again=False),
    # interplay alphabet
    'mid': dict(dest=[[True, 'd1', 'u1', None]], filt=[[True, 'f1']],
                sub='all', sub_owned=[True, False], sub_forms=[], rm=['own'], rm_lists=False,
                life=['restart', 'remove_server', 'exit'], unreg=False, again=False),
    # everything
    'full': dict(dest=[[True, 'd1', 'u1', None], [True, 'd2', 'u1b', None], [True, 'x:y', 'u2', None],
                       [True, 'd4', 'u2', None],      # a second owned destination with its own URL
                       [False, 'pd', 'u1', None], [True, 'd2', 'u1', 'permanent'],
                       [True, 'd3', 'noport', None], [True, 'd3', 'noscheme', None],
                       [True, 'd3', 'u2', 'sticky'], [False, 'd3', 'u2', None, 'id-for-permanent']],
                 filt=[[True, 'f1'], [False, 'pf'], [True, 'x:y'], [True, 'f2', 'name-for-owned']],
                 sub='all', sub_owned=[True, False], sub_forms=['none', 'list'],
                 rm=['own', 'permanent', 'gone'], rm_lists=True,
                 life=['restart', 'remove_server', 'exit', 'remove_all'], unreg=True, again=True),
}
_COMMON = dict(ids=IDS, rejected_ids=BAD_IDS, prefix='add_server(m, 0) for every manager',
               urls=sorted(URLS), levels={k: {a: b for a, b in v.items()} for k, v in LEVELS.items()},
               cross_manager_subscriptions=CROSS_MANAGER_SUBSCRIPTIONS)
BOUNDS = {
    'quick': dict(_COMMON, runs=[
        dict(managers=1, ids='all 9', levels=['full'], servers=1, depth=3),
        dict(managers=2, ids='all 72 ordered pairs', levels=['mid', 'small'], servers=1, depth=3),
    ]),
    'thorough': dict(_COMMON, runs=[
        dict(managers=1, ids='all 9', levels=['full'], servers=1, depth=4),
        dict(managers=1, ids=['m'], levels=['full'], servers=1, depth=5, sharded_by='first event'),
        dict(managers=2, ids='all 72 ordered pairs', levels=['mid', 'small'], servers=1, depth=4),
        dict(managers=2, ids='6 pairs, one or two per id-pair class', levels=['mid', 'small'],
             servers=1, depth=5),
        dict(managers=2, ids='the same 6 pairs', levels=['full', 'small'], servers=1, depth=3),
        dict(managers=2, ids='4 pairs', levels=['mid', 'small'], servers=2, depth=4),
        dict(managers=3, ids='4 triples', levels=['mid', 'small', 'small'], servers=1, depth=4),
        dict(managers=3, ids='the same 4 triples', levels=['mid', 'small', 'small'], servers=2, depth=4),
    ]),
}
DEEP_SINGLES = ['m']
CLASS_PAIRS = [['m', 'é'], ['m', 'm1'], ['m1', 'm'], ['a.c', 'abc'], ['abc', 'a.c'], ['m ', 'a*']]
TWO_SERVER_PAIRS = [['m', 'm1'], ['a.c', 'abc'], ['abc', 'a.c'], ['é', 'a*']]
TRIPLES = [['a.c', 'abc', 'm'], ['m', 'm1', 'm '], ['abc', 'a.c', 'a*'], ['é', 'm', '(x']]

DEST_CLS = 'CIM_ListenerDestinationCIMXML'
FILTER_CLS = 'CIM_IndicationFilter'
SUB_CLS = 'CIM_IndicationSubscription'
_LETTER = {DEST_CLS.lower(): 'D', FILTER_CLS.lower(): 'F'}
_KIND = {'D': DEST, 'F': FILTER, 'S': SUB}
SERVER_URLS = ['http://srv0:5988', 'http://srv1:5988']
LEAF_CLASSES = ['CIM_Namespace', 'CIM_ObjectManager', SUB_CLS, DEST_CLS, FILTER_CLS]
QUERY = ('root/cimv2', 'SELECT * FROM CIM_AlertIndication', 'WQL')


# ------------------------------------------------------------------------------------------
# owned nondeterminism

class _FrozenDateTime(CIMDateTime):
    @classmethod
    def now(cls, tzinfo=None):
        return CIMDateTime('20200101000000.000000+000')


def _getfqdn():
    return FQDN


def _install():
    if _sm.getfqdn is not _getfqdn:
        _sm.getfqdn = _getfqdn
    if _sp.CIMDateTime is not _FrozenDateTime:
        _sp.CIMDateTime = _FrozenDateTime


# ------------------------------------------------------------------------------------------
# the servers (built once per process)

_BASE = {}


def _schema_pragma_file():
    """the DMTF 2.49 MOF files, unpacked from the zip under tests/schema into the scratch directory
    (pywbem_mock.DMTFCIMSchema is not used: its constructor re-writes every MOF file below
    tests/schema each time it is called, which would write to the repository and race)"""
    zname = 'tests/schema/cim_schema_2.49.0Final-MOFs.zip'
    zpath = [r + '/' + zname for r in (mc.REPO, '/repo') if os.path.isfile(r + '/' + zname)]
    if not zpath:
        raise HarnessError('no %s' % zname)
    scratch = os.environ.get('MC_SCRATCH') or tempfile.mkdtemp(prefix='c18-', dir='/var/tmp')
    dst = os.path.join(scratch, 'c18-schema-%d' % os.getpid())
    pragma = os.path.join(dst, 'cim_schema_2.49.0.mof')
    if not os.path.isfile(pragma):
        with zipfile.ZipFile(zpath[0]) as z:
            z.extractall(dst)
    return pragma


def _build_conn(url):
    conn = FakedWBEMConnection(default_namespace=NS, url=url)
    conn.compile_schema_classes(LEAF_CLASSES, _schema_pragma_file(), verbose=False)
    kb = dict(SystemCreationClassName=SYSTEMCREATIONCLASSNAME, SystemName=SYSTEMNAME,
              CreationClassName=OBJECTMANAGERCREATIONCLASSNAME, Name=OBJECTMANAGERNAME)
    om = CIMInstance('CIM_ObjectManager', properties=dict(kb, ElementName='Mock', Description='mock'),
                     path=CIMInstanceName('CIM_ObjectManager', keybindings=kb, namespace=NS))
    conn.add_cimobjects(om, namespace=NS)
    conn.install_namespace_provider(NS)
    conn.install_subscription_providers(NS)
    return conn


def base():
    """-> (connections, WBEMServer objects, pickled pristine instance-store dict)"""
    _install()
    if not _BASE:
        own.selftest()
        c0 = _build_conn(SERVER_URLS[0])
        c1 = pickle.loads(pickle.dumps(c0, pickle.HIGHEST_PROTOCOL))
        c1._url = SERVER_URLS[1]                  # pylint: disable=protected-access
        c1._host = 'srv1:5988'                    # pylint: disable=protected-access
        conns = [c0, c1]
        servers = [WBEMServer(c) for c in conns]
        for srv, url in zip(servers, SERVER_URLS):
            if srv.url != url or srv.interop_ns != NS or srv.cimom_inst['SystemName'] != SYSTEMNAME:
                raise HarnessError('mock server %s not as expected' % url)
        _BASE['conns'] = conns
        _BASE['servers'] = servers
        _BASE['pristine'] = pickle.dumps(_store(c0)._data, pickle.HIGHEST_PROTOCOL)
        _BASE['preloaded'] = {}
    return _BASE['conns'], _BASE['servers'], _BASE['pristine']


def _store(conn):
    return conn.cimrepository.get_instance_store(NS)


def key(path):
    """model key of an instance path of one of the three indication classes"""
    cn = path.classname.lower()
    kb = path.keybindings
    if cn == SUB_CLS.lower():
        return own.subkey(key(kb['Filter']), key(kb['Handler']))
    letter = _LETTER.get(cn)
    if letter is None:
        return None
    k = '%s:%s' % (letter, kb['Name'])
    if len(kb) != 4 or kb['CreationClassName'] != path.classname or \
            kb['SystemCreationClassName'] != SYSTEMCREATIONCLASSNAME or kb['SystemName'] != SYSTEMNAME:
        k += '#' + ','.join('%s=%s' % (n.lower(), v) for n, v in sorted(kb.items()) if n.lower() != 'name')
    return k


def store_paths(conn):
    """{key: path} of the indication instances in the repository of one server"""
    out = {}
    for p in _store(conn).iter_names():
        k = key(p)
        if k is not None:
            if k in out:
                raise HarnessError('two instances with the key %r' % k)
            out[k] = p
    return out


def foreign_names(mid):
    return dict(ff='pywbemfilter:%s:f9:z' % mid, fd='pywbemdestination:%s:d9:z' % mid,
                off='pywbemfilter:owned:%s:%s:f9:z' % (FQDN, mid),
                ofd='pywbemdestination:owned:%s:%s:d9' % (FQDN, mid))


def _preload(conn, ids):
    """static + foreign instances, created through the connection (another client)"""
    def mk(cls, name, **props):
        inst = CIMInstance(cls, properties=dict(
            CreationClassName=cls, SystemCreationClassName=SYSTEMCREATIONCLASSNAME,
            SystemName=SYSTEMNAME, Name=name, **props))
        return conn.CreateInstance(inst, namespace=NS)

    def mkf(name):
        return mk(FILTER_CLS, name, Query=QUERY[1], QueryLanguage=QUERY[2], SourceNamespaces=[QUERY[0]])

    def mkd(name, url):
        return mk(DEST_CLS, name, Destination=url)

    mkf('static-filter')
    mkd('static-dest', 'http://static:1')
    for i, mid in enumerate(ids):
        n = foreign_names(mid)
        f = mkf(n['ff'])
        d = mkd(n['fd'], 'http://foreign:1')
        if i == 0:
            conn.CreateInstance(CIMInstance(SUB_CLS, properties=dict(Filter=f, Handler=d)), namespace=NS)
            mkf(n['off'])
            mkd(n['ofd'], 'http://foreign:2')


SF, SD = 'F:static-filter', 'D:static-dest'


class World:
    """the live objects (singletons of this process) + the model; content is swapped by restore()"""

    def __init__(self, ids, levels, nservers):
        self.ids = list(ids)
        self.levels = list(levels)
        self.n = nservers
        conns, servers, pristine = base()
        self.conns = conns[:nservers]
        self.servers = servers[:nservers]
        self.sids = [s.url for s in self.servers]
        self.first = None
        ck = tuple(self.ids)
        pre = _BASE['preloaded'].get(ck)
        if pre is None:
            st = _store(conns[0])
            st._data = pickle.loads(pristine)               # pylint: disable=protected-access
            _preload(conns[0], self.ids)
            pre = pickle.dumps(st._data, pickle.HIGHEST_PROTOCOL)   # pylint: disable=protected-access
            _BASE['preloaded'][ck] = pre
        self.mgrs = []
        for mid in self.ids:
            self.mgrs.append(WBEMSubscriptionManager(mid))
        self.model = own.Ownership(nservers)
        self.paths = [dict() for _ in range(nservers)]      # key -> path, of everything ever seen
        self.broken = False
        self.at_root = True
        for s, conn in enumerate(self.conns):
            _store(conn)._data = pickle.loads(pre)          # pylint: disable=protected-access
            for k, p in sorted(store_paths(conn).items()):
                self.paths[s][k] = p
                inst = _store(conn).get(p, copy=False)
                tag = own.STATIC if k in (SF, SD) else own.FOREIGN
                if k[0] == 'S':
                    e = Entry(SUB, tag, filt=key(p.keybindings['Filter']), dest=key(p.keybindings['Handler']))
                elif k[0] == 'F':
                    e = Entry(FILTER, tag, name=inst['Name'])
                else:
                    e = Entry(DEST, tag, name=inst['Name'], url=inst['Destination'],
                              ptype=int(inst['PersistenceType']))
                self.model.preload(s, k, e)

    # ---- snapshots
    def snapshot(self):
        ms = []
        for m in self.mgrs:
            d = dict(m.__dict__)
            d['_servers'] = {sid: self.sids.index(sid) for sid in d['_servers']}
            ms.append(d)
        return pickle.dumps(([_store(c)._data for c in self.conns], ms, self.model, self.paths,  # pylint: disable=protected-access
                             self.broken, self.at_root), pickle.HIGHEST_PROTOCOL)

    def restore(self, token):
        data, ms, self.model, self.paths, self.broken, self.at_root = pickle.loads(token)
        for c, d in zip(self.conns, data):
            _store(c)._data = d                              # pylint: disable=protected-access
        self.mgrs = []
        for d in ms:
            m = WBEMSubscriptionManager.__new__(WBEMSubscriptionManager)
            d['_servers'] = {sid: self.servers[i] for sid, i in d['_servers'].items()}
            m.__dict__.update(d)
            self.mgrs.append(m)
        return self


class WorldSnap:
    def save(self, state, history):
        return state.snapshot()

    def load(self, token):
        return _LIVE[0].restore(token)


_LIVE = [None]


# ------------------------------------------------------------------------------------------
# canonical state

def _mgr_canon(w, m):
    out = []
    for sid in sorted(set(m._servers) | set(m._owned_destinations) | set(m._owned_filters) |  # pylint: disable=protected-access
                      set(m._owned_subscriptions)):                                            # pylint: disable=protected-access
        row = [sid, sid in m._servers]                                                         # pylint: disable=protected-access
        for lst in (m._owned_destinations, m._owned_filters, m._owned_subscriptions):          # pylint: disable=protected-access
            row.append(tuple(key(i.path) for i in lst[sid]) if sid in lst else None)
        out.append(tuple(row))
    return tuple(out)


def canon(w):
    stores = []
    for c in w.conns:
        rows = []
        st = _store(c)
        for p in st.iter_names():
            k = key(p)
            if k is None:
                continue
            if k[0] == 'D':
                inst = st.get(p, copy=False)
                rows.append((k, inst['Destination'], inst['PersistenceType']))
            else:
                rows.append((k,))
        rows.sort()
        stores.append(tuple(rows))
    gone_used = any('gone' in LEVELS[lv]['rm'] for lv in w.levels)
    return (w.broken, tuple(stores), tuple(_mgr_canon(w, m) for m in w.mgrs), w.model.canon(gone_used))


# ------------------------------------------------------------------------------------------
# events

def _present(w, s, kind, owners):
    """keys of kind present in server s (per model) whose owner tag is in / matches `owners`"""
    out = []
    for k in sorted(w.model.keys(s, kind)):
        o = w.model.entry(s, k).owner
        if o in owners or ('mgr:*' in owners and o.startswith('mgr:')):
            out.append(k)
    return out


def _manager_events(w, mi, s):
    lv = LEVELS[w.levels[mi]]
    mid = w.ids[mi]
    tag = own.mgr(mid)
    evs = []
    reg = w.model.registered(mid, s)
    if not reg:
        evs.append(['add_server', mi, s])
        if w.model.reg.get(mid):      # registered with another server: a restart forgets that
            evs.append(['restart', mi, s])
        if lv['unreg']:
            evs.append(['add_dest', mi, s] + lv['dest'][0])
            evs.append(['add_filter', mi, s] + lv['filt'][0])
            evs.append(['add_sub', mi, s, SF, SD, True])
            evs.append(['rm_filter', mi, s, SF])
            evs.append(['remove_server', mi, s])
        return evs
    if lv['again']:
        evs.append(['add_server', mi, s])
    for life in lv['life']:
        if life in ('restart', 'remove_server'):
            evs.append([life, mi, s])
    for d in lv['dest']:
        evs.append(['add_dest', mi, s] + d)
    for f in lv['filt']:
        evs.append(['add_filter', mi, s] + f)
    # subscriptions
    if lv['sub'] == 'own':
        fs = _present(w, s, FILTER, [tag])
        ds = _present(w, s, DEST, [tag])
    else:
        owners = [tag, own.PERMANENT, own.STATIC] + (['mgr:*'] if CROSS_MANAGER_SUBSCRIPTIONS else [])
        fs = _present(w, s, FILTER, owners)
        ds = _present(w, s, DEST, owners)
    for f in fs:
        for o in lv['sub_owned']:
            for d in ds:
                evs.append(['add_sub', mi, s, f, d, o])
            if 'none' in lv['sub_forms']:
                evs.append(['add_sub', mi, s, f, None, o])
            if 'list' in lv['sub_forms'] and len(ds) > 1:
                evs.append(['add_sub', mi, s, f, ds, o])
    # removals
    owners = ([tag] if 'own' in lv['rm'] else []) + ([own.PERMANENT] if 'permanent' in lv['rm'] else [])
    for kind, op in ((SUB, 'rm_sub'), (FILTER, 'rm_filter'), (DEST, 'rm_dest')):
        ks = _present(w, s, kind, owners)
        for k in ks:
            evs.append([op, mi, s, k])
        if lv['rm_lists'] and op != 'rm_filter' and len(ks) > 1:
            evs.append([op, mi, s, ks])
        if 'gone' in lv['rm']:
            for k in sorted(w.model.gone[s]):
                if k[0] == op[3].upper() and k not in w.model.inst[s]:
                    evs.append([op, mi, s, k])
    return evs


def enabled(w):
    if w.broken:
        return []
    if w.at_root and w.first is not None:
        return [w.first]
    evs = []
    for mi in range(len(w.ids)):
        for s in range(w.n):
            evs.extend(_manager_events(w, mi, s))
        lv = LEVELS[w.levels[mi]]
        for life in lv['life']:
            if life in ('exit', 'remove_all'):
                evs.append([life, mi])
    return evs


# ------------------------------------------------------------------------------------------
# calling the real code

def call(fn, *args, **kwargs):
    """-> ('ok', result) | ('ValueError', None) | ('CIMError', code) | ('exc', exception name)"""
    try:
        return 'ok', fn(*args, **kwargs)
    except CIMError as exc:
        return 'CIMError', exc.status_code
    except re.error:
        return 'exc', 're.error'
    except ValueError:
        return 'ValueError', None
    except Exception as exc:  # noqa: raised by the code under test, not by the harness
        return 'exc', type(exc).__name__


_CODENAMES = {getattr(pywbem, _n): _n for _n in dir(pywbem) if _n.startswith('CIM_ERR_')}
_META = set('.^$*+?{}[]\\|()')
_ID_ORDER = ['plain', 'prefix', 'regex-meta', 'regex-collision', 'regex-invalid']


def ids_class(ids):
    ids = list(ids)
    cls = 'plain'

    def up(c):
        nonlocal cls
        if _ID_ORDER.index(c) > _ID_ORDER.index(cls):
            cls = c
    for a in ids:
        try:
            pat = re.compile(a)
        except re.error:
            up('regex-invalid')
            continue
        if _META & set(a):
            up('regex-meta')
        for b in ids:
            if a != b:
                if pat.fullmatch(b):
                    up('regex-collision')
                if b.startswith(a):
                    up('prefix')
    return cls


OPNAME = {'restart': 'add_server', 'exit': '__exit__', 'remove_all': 'remove_all_servers',
          'add_dest': 'add_destination', 'add_sub': 'add_subscriptions', 'rm_dest': 'remove_destinations',
          'rm_filter': 'remove_filter', 'rm_sub': 'remove_subscriptions'}


def _kindname(k):
    return _KIND.get(k[0], 'instance')


def _describe(res):
    if res[0] == 'ok':
        v = res[1]
        if isinstance(v, list):
            return 'returned [%s]' % ', '.join(key(i.path) for i in v)
        if isinstance(v, CIMInstance):
            return 'returned ' + key(v.path)
        return 'returned %r' % (v,)
    if res[0] == 'CIMError':
        return 'CIMError ' + _CODENAMES.get(res[1], str(res[1]))
    if res[0] == 'ValueError':
        return 'ValueError'
    return 'raised ' + res[1]


class Ctx:
    """per-transition bookkeeping for problem reports"""

    def __init__(self, w, ev):
        self.w = w
        self.ev = ev
        self.op = OPNAME.get(ev[0], ev[0])
        self.idc = ids_class(w.ids)
        self.problems = []

    def add(self, check, what, expected, observed):
        self.problems.append(Problem(dict(check=check, what=what, op=self.op, ids=self.idc),
                                     expected, observed))


def audit(w, ctx, actor=None, discovery=False, before=None):
    """the state oracle: repository == model, every manager's lists == its owned set.
    actor: index of the manager that executed the event; before: model keys per server before it"""
    for s, conn in enumerate(w.conns):
        present = store_paths(conn)
        w.paths[s].update(present)
        have, want = set(present), w.model.keys(s)
        for k in sorted(want - have):
            oc = w.model.owner_class(s, k, w.ids[actor]) if actor is not None else 'some'
            ctx.add('isolation' if oc == 'other-managers' else 'removal',
                    'deleted-%s-%s' % (oc, _kindname(k)),
                    'server %d keeps %s (owner %s)' % (s, k, w.model.entry(s, k).owner), 'it is gone')
        for k in sorted(have - want):
            if before is not None and k in before[s]:
                ctx.add('removal', 'left-%s-%s' % (before[s][k], _kindname(k)),
                        'server %d: %s is deleted' % (s, k), 'it is still there')
            elif not any(p.sig['check'] == 'refusal' for p in ctx.problems):
                ctx.add('owned-lists', 'unexpected-%s-in-server' % _kindname(k),
                        'server %d: instances %s' % (s, sorted(want)), 'also %s' % k)
    for mi, m in enumerate(w.mgrs):
        mid = w.ids[mi]
        disc = discovery and mi == actor
        for s, sid in enumerate(w.sids):
            reg = w.model.registered(mid, s)
            lists = {}
            for kind, fn in ((DEST, m.get_owned_destinations), (FILTER, m.get_owned_filters),
                             (SUB, m.get_owned_subscriptions)):
                res = call(fn, sid)
                if res[0] == 'ok':
                    if not reg:
                        ctx.add('owned-lists', 'lists-for-unregistered-server',
                                'manager %r is not registered with server %d: ValueError' % (mid, s),
                                'get_owned_%ss returned %d instances' % (kind, len(res[1])))
                        lists = {}
                        break
                    lists[kind] = {key(i.path) for i in res[1]}
                elif res[0] == 'ValueError' and not reg:
                    continue
                else:
                    # (one report per manager and server, whichever list fails first)
                    ctx.add('owned-lists', 'get_owned-%s' % ('refused' if res[0] != 'exc'
                                                             else 'raised-' + res[1]),
                            'manager %r, server %d (%sregistered): list of owned %ss' %
                            (mid, s, '' if reg else 'not ', kind), _describe(res))
                    lists = {}
                    break
            wrong = set()       # filters / destinations listed although not owned
            unlisted = set()    # owned filters / destinations not listed
            for kind in (DEST, FILTER):
                if kind in lists:
                    want = w.model.owned(s, mid, kind)
                    wrong |= lists[kind] - want
                    unlisted |= want - lists[kind]
            for kind, listed in sorted(lists.items()):
                want = w.model.owned(s, mid, kind)
                for k in sorted(listed - want):
                    oc = w.model.owner_class(s, k, mid)
                    if kind == SUB and oc != 'absent':
                        e = w.model.entry(s, k)
                        if e.filt in wrong or e.dest in wrong:
                            continue      # follows from the wrongly listed filter/destination
                    chk = 'isolation' if oc == 'other-managers' else 'rediscovery' if disc else 'owned-lists'
                    ctx.add(chk, 'lists-%s-%s' % (oc, kind),
                            'manager %r, server %d: owned %ss %s' % (mid, s, kind, sorted(want)),
                            'lists also %s (owner %s)' % (k, getattr(w.model.entry(s, k), 'owner', None)))
                for k in sorted(want - listed):
                    detail = ''
                    e = w.model.entry(s, k)
                    if kind == SUB:
                        ownrefs = [r for r in (e.filt, e.dest) if w.model.owner_class(s, r, mid) == 'own']
                        if not ownrefs:
                            detail = '(filter-and-destination-not-owned)'
                        elif all(r in unlisted for r in ownrefs):
                            continue      # follows from the unlisted filter/destination
                    elif e.name.count(':') > 2:
                        detail = '(id-with-colon)'
                    ctx.add('rediscovery' if disc else 'owned-lists', 'misses-own-%s%s' % (kind, detail),
                            'manager %r, server %d: owned %ss %s' % (mid, s, kind, sorted(want)),
                            'does not list %s; lists %s' % (k, sorted(listed)))


def _sync_registration(w, mi):
    m = w.mgrs[mi]
    w.model.reg[w.ids[mi]] = {w.sids.index(sid) for sid in m._servers}   # pylint: disable=protected-access


def step(w, ev):
    w.at_root = False
    ctx = Ctx(w, ev)
    outcome, nontrivial = _step(w, ev, ctx)
    if ctx.problems:
        w.broken = True
        outcome = ev[0] + ':VIOLATION'
    return StepResult(outcome, nontrivial, ctx.problems, dict(op=ctx.op))


def _path(w, s, k):
    p = w.paths[s].get(k)
    if p is None:
        raise HarnessError('no path known for key %r' % (k,))
    return p.copy()


def _check_answer(ctx, exp, res, what_not_refused, delta_ok=True):
    """compare the class of the answer with the allowed ones; -> 'success' | 'refused' | 'exc'"""
    succ = [a for a in exp.allowed if a in ('ok', 'created', 'existing')]
    refu = [a for a in exp.allowed if a in ('ValueError', 'CIMError')]
    if res[0] == 'exc':
        ctx.add('raised', res[1], 'one of %s' % (list(exp.allowed),), _describe(res))
        return 'exc'
    if res[0] == 'ok':
        if not succ:
            ctx.add('refusal', what_not_refused, 'refused (%s)%s' % (
                '/'.join(refu), ' - ' + exp.note if exp.note else ''), _describe(res))
        return 'success'
    if not refu:
        ctx.add('raised', 'refused-with-%s' % (res[0] if res[0] == 'ValueError' else
                                               'CIMError:' + _CODENAMES.get(res[1], str(res[1]))),
                'success (%s)' % '/'.join(succ), _describe(res))
    return 'refused'


def _step(w, ev, ctx):
    kind, mi = ev[0], ev[1]
    m = w.mgrs[mi]
    mid = w.ids[mi]
    model = w.model
    before = [{k: model.owner_class(s, k, mid) for k in model.keys(s)} for s in range(w.n)]

    if kind in ('add_server', 'restart'):
        s = ev[2]
        if kind == 'restart':
            m = w.mgrs[mi] = WBEMSubscriptionManager(mid)
            exp = model.restart(mid, s)
        else:
            exp = model.add_server(mid, s)
        res = call(m.add_server, w.servers[s])
        cls = _check_answer(ctx, exp, res, 'second-add_server-accepted')
        if cls == 'exc':
            return kind + ':raised', True
        if cls == 'success' and res[1] != w.sids[s]:
            ctx.add('owned-lists', 'server-id-not-url', w.sids[s], res[1])
        audit(w, ctx, mi, discovery=(cls == 'success'), before=before)
        return '%s:%s' % (kind, 'ok' if cls == 'success' else 'refused'), cls == 'success'

    if kind in ('remove_server', 'remove_all', 'exit'):
        if kind == 'remove_server':
            s = ev[2]
            pre_owned = {s: model.owned(s, mid)}
            exp = model.remove_server(mid, s)
            res = call(m.remove_server, w.sids[s])
        else:
            pre_owned = {s: model.owned(s, mid) for s in range(w.n)}
            exp = model.remove_all_servers(mid)
            if kind == 'exit':
                def leave():
                    with m:
                        pass
                res = call(leave)
            else:
                res = call(m.remove_all_servers)
        cls = _check_answer(ctx, exp, res, 'removal-from-unregistered-server-accepted')
        if cls == 'exc':
            return kind + ':raised', True
        if exp.note == 'blocked':
            # any subset of the owned instances may be gone; nothing else
            for s, owned_keys in sorted(pre_owned.items()):
                gone = set(before[s]) - set(store_paths(w.conns[s]))
                for k in sorted(gone & owned_keys):
                    model.delete(s, k)
            _sync_registration(w, mi)
            audit(w, ctx, mi, before=None)
            return kind + (':blocked-ok' if cls == 'success' else ':blocked-refused'), True
        audit(w, ctx, mi, before=before)
        return '%s:%s' % (kind, 'ok' if cls == 'success' else 'refused'), cls == 'success'

    s = ev[2]
    sid = w.sids[s]
    pre = set(store_paths(w.conns[s]))

    if kind in ('add_dest', 'add_filter'):
        owned, ident = ev[3], ev[4]
        variant = ev[7] if kind == 'add_dest' and len(ev) > 7 else ev[5] if kind == 'add_filter' and len(ev) > 5 else None
        kw = dict(owned=owned)
        if kind == 'add_dest':
            urlkey, ptype = ev[5], ev[6]
            url_arg, url_norm = URLS[urlkey]
            kw['persistence_type'] = ptype
            if variant == 'id-for-permanent':
                kw['destination_id'] = ident
            else:
                kw['destination_id' if owned else 'name'] = ident
            exp = model.add_destination(mid, s, owned, ident, url_norm, ptype, valid_args=variant is None)
            res = call(m.add_destination, sid, url_arg, **kw)
        else:
            if variant == 'name-for-owned':
                kw['name'] = ident
            else:
                kw['filter_id' if owned else 'name'] = ident
            exp = model.add_filter(mid, s, owned, ident, valid_args=variant is None)
            res = call(m.add_filter, sid, QUERY[0], QUERY[1], QUERY[2], **kw)
        cls = _check_answer(ctx, exp, res, 'duplicate-name-accepted' if 'CIMError' in exp.allowed
                            else 'invalid-arguments-accepted')
        if cls == 'exc':
            return kind + ':raised', True
        post = store_paths(w.conns[s])
        added = sorted(set(post) - pre)
        out = kind + ':refused'
        if cls == 'success':
            inst = res[1]
            rk = key(inst.path) if isinstance(inst, CIMInstance) and inst.path is not None else None
            if added:
                out = kind + ':created'
                if 'created' in exp.allowed and len(added) == 1 and added[0] == rk:
                    st_inst = _store(w.conns[s]).get(post[rk], copy=False)
                    e = exp.new
                    if st_inst['Name'] != e.name:
                        ctx.add('owned-lists', 'created-with-other-Name', e.name, st_inst['Name'])
                    if e.kind == DEST:
                        if st_inst['Destination'] != e.url:
                            raise HarnessError('URL table: %r -> %r, not %r' % (ev, st_inst['Destination'], e.url))
                        e.ptype = int(st_inst['PersistenceType'])
                    model.commit(s, rk, e)
                elif 'created' in exp.allowed:
                    ctx.add('owned-lists', 'add-returned-other-instance', 'created %s and returned it' % added, rk)
            else:
                out = kind + ':existing'
                if 'existing' in exp.allowed:
                    if rk not in exp.existing:
                        ctx.add('owned-lists', 'add-returned-other-instance', 'one of %s' % exp.existing, rk)
                elif 'created' in exp.allowed and rk not in model.owned(s, mid, exp.new.kind):
                    # (returning one of the manager's owned instances instead of creating one keeps
                    # lists and server in agreement: when exactly that happens is not part of C18)
                    ctx.add('owned-lists', 'add-created-nothing', 'a new %s %r' % (exp.new.kind, exp.new.name),
                            _describe(res))
        audit(w, ctx, mi, before=before)
        return out, res[0] != 'ValueError'

    if kind == 'add_sub':
        fkey, dspec, owned = ev[3], ev[4], ev[5]
        if dspec is None:
            dkeys = [key(i.path) for i in m._owned_destinations.get(sid, [])]   # pylint: disable=protected-access
            want_d = sorted(model.owned(s, mid, DEST)) if model.registered(mid, s) else []
            if sorted(dkeys) != want_d:
                raise HarnessError('owned destinations differ in an un-broken state')
            darg = None
        elif isinstance(dspec, list):
            dkeys = list(dspec)
            darg = [_path(w, s, k) for k in dkeys]
        else:
            dkeys = [dspec]
            darg = _path(w, s, dspec)
        # the documented behaviour, one destination after the other (the subscriptions of one call
        # have different destinations, so they do not influence each other's answer)
        news = []         # (subscription key, Entry, lenient)
        strict = None     # Expect of the first destination whose subscription must be refused
        if not model.registered(mid, s):
            strict = own.Expect(['ValueError'], note='server not registered')
        else:
            for dk in dkeys:
                e1 = model.add_subscription(mid, s, fkey, dk, owned)
                if 'created' in e1.allowed:
                    lenient = (not owned and 'other-managers' in
                               (model.owner_class(s, fkey, mid), model.owner_class(s, dk, mid)))
                    news.append((own.subkey(fkey, dk), e1.new, lenient))
                elif 'existing' not in e1.allowed:
                    strict = e1
                    strict.note = 'destination %s' % dk
                    break
        res = call(m.add_subscriptions, sid, _path(w, s, fkey), darg, owned)
        added = set(store_paths(w.conns[s])) - pre
        obs = 'success' if res[0] == 'ok' else 'exc' if res[0] == 'exc' else 'refused'
        acceptable = [('success' if strict is None else 'refused', [x[0] for x in news])]
        for i, x in enumerate(news):
            if x[2]:     # a permanent subscription on another manager's owned instance may be refused
                acceptable.append(('refused', [y[0] for y in news[:i]]))
        match = [a for a in acceptable if a[0] == obs and set(a[1]) == added]
        if not match:
            what = 'unregistered-server-accepted'
            if strict is not None and strict.allowed == ('ValueError',) and model.registered(mid, s):
                what = 'permanent-subscription-on-owned-%s-accepted' % (
                    'filter' if fkey in model.owned(s, mid, FILTER) else 'destination')
            elif strict is not None and strict.allowed == ('CIMError',):
                what = 'existing-subscription-created-again'
            _check_answer(ctx, strict or own.Expect(['ok']), res, what)
            if obs == 'refused' and strict is not None and added - set(acceptable[0][1]):
                # (list of destinations) the call failed later on, but not where it had to
                ctx.add('refusal', what, 'refused at %s, only %s created' % (strict.note, acceptable[0][1]),
                        '%s; created %s' % (_describe(res), sorted(added)))
        for sk, e, _ in news:
            if sk in (match[0][1] if match else acceptable[0][1]):
                model.commit(s, sk, e)
        if obs == 'exc':
            return 'add_sub:raised', True
        if obs == 'success' and strict is None:
            got = [key(i.path) for i in res[1]]
            wantk = [own.subkey(fkey, dk) for dk in dkeys]
            if got != wantk:
                ctx.add('owned-lists', 'add-returned-other-instance', wantk, got)
        audit(w, ctx, mi, before=before)
        if obs == 'refused':
            out = 'add_sub:refused' + ('-on-other-managers-instance' if strict is None else '')
        else:
            out = 'add_sub:created' if added else 'add_sub:existing'
        return out, res[0] != 'ValueError'

    if kind in ('rm_dest', 'rm_filter', 'rm_sub'):
        spec = ev[3]
        keys = spec if isinstance(spec, list) else [spec]
        arg = [_path(w, s, k) for k in keys] if isinstance(spec, list) else _path(w, s, spec)
        final = None
        for k in keys:
            e1 = model.remove(mid, s, k)
            if e1.allowed != ('ok',):
                final = e1
                break
        if final is None:
            final = own.Expect(['ok'])
        fn = {'rm_dest': m.remove_destinations, 'rm_filter': m.remove_filter,
              'rm_sub': m.remove_subscriptions}[kind]
        res = call(fn, sid, arg)
        what = 'unregistered-server-accepted'
        if final.note == 'referenced':
            what = 'removed-referenced-%s' % _kindname(keys[0])
        elif final.note == 'absent':
            what = 'removed-absent-instance'
        cls = _check_answer(ctx, final, res, what)
        if cls == 'exc':
            return kind + ':raised', True
        audit(w, ctx, mi, before=before)
        out = kind + (':ok' if cls == 'success' else ':refused-' + (final.note or 'unregistered')
                      if final.allowed != ('ok',) else ':refused')
        return out, res[0] != 'ValueError'

    raise HarnessError('unknown event %r' % (ev,))


def invariant_initial(w):
    ctx = Ctx(w, ['init'])
    audit(w, ctx)
    return ctx.problems


# ------------------------------------------------------------------------------------------
# runs

POPULATED = [['add_dest', 0, 0, True, 'd1', 'u1', None], ['add_dest', 0, 0, True, 'd4', 'u2', None],
             ['add_filter', 0, 0, True, 'f1'],
             ['add_sub', 0, 0, 'F:pywbemfilter:%s:f1', 'D:pywbemdestination:%s:d4', True]]


def prefix_of(ids, populated=False):
    out = [['add_server', i, 0] for i in range(len(ids))]
    if populated:
        # start the exploration from a non-initial state: manager 0 owns two destinations, a filter
        # and a subscription on the SECOND destination (list removals then fail in the middle)
        for ev in POPULATED:
            out.append([x % ids[0] if isinstance(x, str) and '%s' in x else x for x in ev])
    return out


def start(ids, levels, nservers, populated=False):
    """-> (world after the prefix, [(history, Problem)] found on the way, trace)"""
    w = World(ids, levels, nservers)
    _LIVE[0] = w
    found = [([], p) for p in invariant_initial(w)]
    trace = []
    hist = []
    for ev in prefix_of(ids, populated):
        if w.broken:
            break
        r = step(w, ev)
        hist.append(ev)
        trace.append((ev, r))
        found.extend((list(hist), p) for p in r.problems)
    w.at_root = True
    return w, found, trace


def _case(ids, levels, nservers, history):
    return dict(check='bfs', ids=list(ids), levels=list(levels), servers=nservers, history=history)


def _runs(tier):
    """[(ids, levels, nservers, depth, shard_by_first_event)]"""
    out = []
    if tier == 'quick':
        for a in IDS:
            out.append(([a], ['full'], 1, 3, False))
        out.append((['m'], ['full'], 1, 2, 'populated'))
        for a in IDS:
            for b in IDS:
                if a != b:
                    out.append(([a, b], ['mid', 'small'], 1, 3, False))
    else:
        for a in IDS:
            out.append(([a], ['full'], 1, 4, False))
        out.append((['m'], ['full'], 1, 3, 'populated'))
        out.append((['m', 'm1'], ['full', 'small'], 1, 2, 'populated'))
        for a in DEEP_SINGLES:
            out.append(([a], ['full'], 1, 5, True))
        for a in IDS:
            for b in IDS:
                if a != b:
                    out.append(([a, b], ['mid', 'small'], 1, 4, False))
        for p in CLASS_PAIRS:
            out.append((p, ['mid', 'small'], 1, 5, False))
            out.append((p, ['full', 'small'], 1, 3, False))
        for p in TWO_SERVER_PAIRS:
            out.append((p, ['mid', 'small'], 2, 4, False))
        for t in TRIPLES:
            out.append((t, ['mid', 'small', 'small'], 1, 4, False))
            out.append((t, ['mid', 'small', 'small'], 2, 4, False))
    return out


def plan(tier, seed):
    base()        # built here once: the worker processes are forked from this one and inherit it
    shards = [dict(check='ctor')]
    for ids, levels, n, depth, by_first in _runs(tier):
        sh = dict(check='bfs', ids=ids, levels=levels, servers=n, depth=depth)
        if by_first == 'populated':
            shards.append(dict(sh, populated=True))
            continue
        if not by_first:
            shards.append(sh)
            continue
        w, _, _ = start(ids, levels, n)
        firsts = enabled(w)
        if not firsts:
            shards.append(sh)
        for i, ev in enumerate(firsts):
            shards.append(dict(sh, first=ev, report_prefix=(i == 0)))
    return shards


def _ctor_shard():
    acc = Acc()
    for mid in IDS + BAD_IDS:
        res = call(WBEMSubscriptionManager, mid)
        ok_expected = isinstance(mid, str) and ':' not in mid
        if res[0] == 'ok':
            out = 'ctor:accepted'
            if not ok_expected:
                out = 'ctor:accepted-invalid-id'     # the statement does not demand the rejection
        elif res[0] == 'ValueError' or (res[0] == 'exc' and res[1] == 'TypeError'):
            out = 'ctor:rejected'
            if ok_expected:
                acc.violation(dict(check='raised', what='id-rejected', op='__init__', ids=ids_class([mid])),
                              dict(check='ctor', id=mid), 'manager with id %r' % (mid,), _describe(res))
        else:
            out = 'ctor:raised'
            acc.violation(dict(check='raised', what=str(res[1]), op='__init__',
                               ids=ids_class([mid]) if isinstance(mid, str) else 'plain'),
                          dict(check='ctor', id=mid), 'manager or ValueError/TypeError', _describe(res))
        acc.case(('ctor', repr(mid)), nontrivial=res[0] == 'ok', outcome=out)
    acc.state_hashes = set()
    return acc


def run_shard(shard, tier):
    if shard['check'] == 'ctor':
        return _ctor_shard()
    acc = Acc()
    acc.state_hashes = set()
    ids, levels, n, depth = shard['ids'], shard['levels'], shard['servers'], shard['depth']
    w, found, trace = start(ids, levels, n, shard.get('populated', False))
    w.first = shard.get('first')
    report_prefix = shard.get('report_prefix', True)
    tid = (tuple(ids), tuple(levels), n, bool(shard.get('populated')))
    if report_prefix:
        for ev, r in trace:
            acc.case((tid, 'prefix', json.dumps(ev)), nontrivial=r.nontrivial, outcome=r.outcome)
        for hist, p in found:
            acc.violation(p.sig, _case(ids, levels, n, hist), p.expected, p.observed)
    prefix = [ev for ev, _ in trace]
    sampled = (ids == ['m', 'm1'] and 'first' not in shard)

    def on_transition(parent_key, d, ev, r, child_key):
        acc.case((tid, hash(parent_key), json.dumps(ev)), nontrivial=r.nontrivial, outcome=r.outcome,
                 sample=dict(ids=ids, event=ev, outcome=r.outcome, after_events=d + len(prefix))
                 if sampled and d == 2 and r.outcome in ('restart:ok', 'rm_filter:refused-referenced',
                                                         'add_sub:created') else None)

    res = explore.bfs(w, enabled, step, canon, max_depth=depth, snap=WorldSnap(),
                      on_transition=on_transition, max_states=MAX_STATES_PER_BFS)
    for v in res.violations.values():
        acc.violation(v['sig'], _case(ids, levels, n, prefix + v['history']), v['expected'], v['observed'])
        acc.violations[sigkey(v['sig'])]['count'] += v['count'] - 1
    acc.state_hashes |= {hash((tid, k)) for k in res.state_keys}
    acc.count('bfs_runs')
    acc.count('bfs_complete_state_graph' if res.fixpoint else 'bfs_stopped_by_depth_bound')
    acc.count('error_states_not_expanded', sum(1 for k in res.state_keys if k[0]))
    if res.capped:
        acc.cap(res.capped)
    return acc


def finish(total, tier):
    """per (check, what, op) keep only the simplest class of manager ids in which it was seen"""
    groups = {}
    for k, v in total.violations.items():
        s = v['sig']
        groups.setdefault((s.get('check'), s.get('what'), s.get('op')), []).append(k)
    for ks in groups.values():
        if len(ks) < 2:
            continue
        ks.sort(key=lambda k: _ID_ORDER.index(total.violations[k]['sig'].get('ids', 'plain'))
                if total.violations[k]['sig'].get('ids') in _ID_ORDER else 99)
        keep = total.violations[ks[0]]
        for k in ks[1:]:
            keep['count'] += total.violations[k]['count']
            del total.violations[k]


def replay(case, tier):
    acc = Acc()
    if case.get('check') == 'ctor':
        full = _ctor_shard()
        for k, v in full.violations.items():
            if v['case'].get('id') == case.get('id'):
                acc.violations[k] = v
        acc.case(('ctor', repr(case.get('id'))), outcome='ctor:replayed')
        return acc
    ids, levels, n = case['ids'], case['levels'], case['servers']
    w = World(ids, levels, n)
    _LIVE[0] = w
    for p in invariant_initial(w):
        acc.violation(p.sig, _case(ids, levels, n, []), p.expected, p.observed)
    hist = []
    for ev in case['history']:
        r = step(w, ev)
        hist.append(ev)
        acc.case((tuple(ids), json.dumps(ev)), nontrivial=r.nontrivial, outcome=r.outcome)
        for p in r.problems:
            acc.violation(p.sig, _case(ids, levels, n, list(hist)), p.expected, p.observed)
    return acc


def snippet(case):
    return ('import sys; sys.path.insert(0, "/verif")\n'
            'import mc\n'
            'from checks import c18_subscriptions as c18\n'
            'def test_replay():\n'
            '    # managers %r on %s mock server(s); events: see the module docstring\n'
            '    acc = c18.replay(%r, "quick")\n'
            '    assert not acc.violations, [v["sig"] for v in acc.violations.values()]\n'
            % (case.get('ids', case.get('id')), case.get('servers', 0), case))
