"""C09 — the MOF compiler is total: it succeeds or raises MOFCompileError (mode D).

Every case is one concrete compiler input (MOF text, auxiliary files, namespace, search path,
repository fault) that differs from a valid template in a bounded number of places.  Each case is
run on the real compiler through one of three seams:

  mofwbem   MOFCompiler(MOFWBEMConnection(conn=StubRepo)).compile_string / compile_file
  direct    MOFCompiler(StubRepo).compile_string / compile_file  (every repository operation of the
            compiler reaches the stub, so every CIMError translation site can be faulted)
  mock      FakedWBEMConnection.compile_mof_string

StubRepo is a small in-memory WBEMConnection subclass (no network) that can raise a chosen
pywbem.Error at a chosen call index.

Signature field 'check':
  deviation  token / character / initializer deviations of the templates
  pragma     pragma parameters, include structures, namespace arguments
  fault      repository faults (call index x status code / error class)
  hygiene    the same compiler object compiled the reference unit differently after a failure, or
             (retry differential) treated one of the files it had just worked on differently from
             a brand-new MOFCompiler on a deep copy of the same repository state
"""
import collections
import contextlib
import copy
import json
import os
import shutil
import signal
import sys
import tempfile
import warnings

import pywbem
import pywbem_mock
from pywbem import _mof_compiler as MOFC
from pywbem import CIMError, CIMInstanceName, MOFCompileError, MOFCompiler, MOFWBEMConnection
from pywbem._nocasedict import NocaseDict

import mc
from mc.core import Acc, HarnessError
from mc import objdump

ID = 'C09'
RULE = ('cases are all inputs that differ from one of the valid MOF templates by one deviation '
        '(thorough: two token deviations at distance <= 3, or one deviation plus one fault): token '
        'level (drop / duplicate / swap / replace by / insert each token of the alphabet, tokenised '
        'with pywbem\'s own lexer), character level (every prefix, every deletion, every insertion '
        'of the character alphabet), every literal kind as initializer of every declared type in '
        'every initializer context, pragma parameters and include structures, namespace arguments, '
        'and for every template every repository call index x every CIM status code 1..28 (plus '
        'other pywbem.Error classes); non-trivial = the input differs from its template (or a '
        'fault was injected) and the compiler was run on it')
ASSUMPTIONS = [
    'PLY parser and lexer tables are built once per worker process and shared (shallow copy of the '
    'LRParser, Lexer.clone()) between the MOFCompiler objects of that worker; '
    'MOFCompiler.__init__ itself runs unmodified for every case',
    'StubRepo is the trusted model of a repository: every namespace exists, no Interop namespace, '
    'CreateClass rejects missing superclasses / reference classes and existing classes, '
    'CreateInstance rejects existing paths; returned objects are copies',
    'a position is inside the offending input if it is inside the compiled string / the file named '
    'by exc.file (read the way compile_file reads it) / an embedded-instance MOF string passed to '
    'compile_embedded_value; an exception built without parser token carries no position at all '
    '(lineno, column, file, context all None), as documented for parser_token=None',
    'FakedWBEMConnection.compile_mof_string may additionally raise CIMError (documented there)',
    'a non-CIMError pywbem.Error raised by the repository may propagate unchanged (the statement '
    'quantifies over CIM status codes; BaseRepositoryConnection allows any pywbem.Error)',
    'any OSError is accepted for include / compile_file targets that are not readable files',
    'a case that does not finish within %d s is reported as non-termination' % 5,
]
WATCHDOG_S = 5.0
BOUNDS = {
    'quick': {
        'templates': 13,
        'token_deviations': 1, 'token_ops': 'drop, duplicate, swap with next, replace by / insert '
                                            'before / append each token of the alphabet',
        'token_alphabet': 71, 'char_deviations': 1, 'char_alphabet': 12,
        'initializer_contexts': 'every literal kind (35) x every data type (14) x 10 contexts + '
                                'references, array sizes, qualifier values',
        'pragma_cases': 'names (8) x parameters (38) x string/file entry x with/without trailing unit; '
                        'namespace arguments (11) x templates x 2 seams; include structures',
        'faults': 1, 'fault_positions': 'every repository call of every template, seams mofwbem and direct',
        'status_codes': '1..28 plus 0, 29 and 8 other pywbem.Error classes',
        'mock_seam': 'token deviations with the 16-token alphabet, initializers, pragma cases',
        'watchdog_s': WATCHDOG_S},
    'thorough': {
        'adds': 'token pairs at distance <= 3 (ops drop/dup/swap + replace/insert of 8 tokens); '
                'deviation x fault (drop/dup/swap of every token x every call x 9 status codes, seam '
                'direct); two faults (every call pair x 9 x 9 status codes, seam direct)',
        'token_deviations': 2, 'pair_distance': 3, 'pair_alphabet': 8, 'faults': 2,
        'distinguished_status_codes': [1, 2, 3, 4, 6, 7, 10, 11, 28],
        'watchdog_s': WATCHDOG_S},
}
EXPLANATION = ('every case is compiled by the unmodified pywbem MOF compiler; the oracle is the '
               'exception-type / position / hygiene predicate of the property statement')

DEFAULT_NS = 'root/cimv2'

# ------------------------------------------------------------------------------------------
# MOF material

PRELUDE = r'''
Qualifier Abstract : boolean = false, Scope(class, association, indication), Flavor(EnableOverride, Restricted);
Qualifier Association : boolean = false, Scope(association), Flavor(DisableOverride, ToSubclass);
Qualifier Indication : boolean = false, Scope(class, indication), Flavor(DisableOverride, ToSubclass);
Qualifier Key : boolean = false, Scope(property, reference), Flavor(DisableOverride, ToSubclass);
Qualifier Description : string = null, Scope(any), Flavor(EnableOverride, ToSubclass, Translatable);
Qualifier EmbeddedInstance : string = null, Scope(property, method, parameter), Flavor(EnableOverride, ToSubclass);
Qualifier EmbeddedObject : boolean = false, Scope(property, method, parameter), Flavor(DisableOverride, ToSubclass);
Qualifier In : boolean = true, Scope(parameter), Flavor(DisableOverride, ToSubclass);
Qualifier Out : boolean = false, Scope(parameter), Flavor(DisableOverride, ToSubclass);
Qualifier Override : string = null, Scope(property, reference, method), Flavor(EnableOverride, Restricted);
Qualifier Values : string[], Scope(property, method, parameter), Flavor(EnableOverride, ToSubclass, Translatable);
Qualifier ValueMap : string[], Scope(property, method, parameter), Flavor(EnableOverride, ToSubclass);
Qualifier MaxLen : uint32 = null, Scope(property, method, parameter), Flavor(EnableOverride, ToSubclass);
class TST_Base { [Key] string Id; uint32 Num; };
class TST_Emb { [Key] string Id; string S; sint32 N; };
class TST_Types {
  [Key] string Id;
%(tp)s};
[Association] class TST_TRef { [Key] TST_Base REF P_ref; [Key] TST_Base REF Q_ref; };
'''

DTYPES = ['boolean', 'string', 'char16', 'datetime', 'uint8', 'sint8', 'uint16', 'sint16', 'uint32',
          'sint32', 'uint64', 'sint64', 'real32', 'real64']


def prelude_text():
    tp = ''.join('  %s P_%s;\n  %s PA_%s[];\n' % (t, t, t, t) for t in DTYPES)
    return PRELUDE % dict(tp=tp)


def prelude_ext_text():
    """typed qualifier declarations, only present for the initializer cases (case['ext'])"""
    return ''.join('Qualifier TQT_%s : %s, Scope(any);\nQualifier TQTA_%s : %s[], Scope(any);\n'
                   % (t, t, t, t) for t in DTYPES)


# the unit every compiler must still compile correctly after a failure (self-contained: declares
# every qualifier it uses, own class names, aliases defined before use, default namespace)
REFERENCE_UNIT = r'''
Qualifier Key : boolean = false, Scope(property, reference), Flavor(DisableOverride, ToSubclass);
Qualifier Association : boolean = false, Scope(association), Flavor(DisableOverride, ToSubclass);
Qualifier REF_Q : string = null, Scope(any), Flavor(EnableOverride, ToSubclass);
[REF_Q("c")] class REF_A { [Key, REF_Q("k")] string Id; uint8 N = 3; sint16 A[] = {-1, 0x10}; };
[Association] class REF_L { [Key] REF_A REF X; [Key] REF_A REF Y; };
instance of REF_A as $r1 { Id = "1"; N = 1; };
instance of REF_A as $r2 { Id = "2"; A = {7}; };
instance of REF_L { X = $r1; Y = $r2; };
'''
REF_QUALS = ['Key', 'Association', 'REF_Q']
REF_CLASSES = ['REF_A', 'REF_L']

# name -> dict(entry, text, files, ns, search)
TEMPLATES = collections.OrderedDict()


def _tpl(name, text, entry='string', files=None, ns=None, search=False):
    TEMPLATES[name] = dict(entry=entry, text=text, files=files or {}, ns=ns, search=search)


_tpl('qualdecl', r'''// qualifier declarations of every shape
Qualifier TQ_Bool : boolean = true, Scope(class, property), Flavor(DisableOverride, ToSubclass);
Qualifier TQ_Str : string = "ab" "c\n", Scope(any);
Qualifier TQ_Arr : uint8[] = {1, 2}, Scope(property, method, parameter, reference), Flavor(EnableOverride, Restricted, Translatable);
Qualifier TQ_Fix : sint16[2] = null, Scope(association, indication), Flavor(ToInstance);
Qualifier TQ_Real : real32 = 1.5e1, Scope(method);
Qualifier TQ_Chr : char16 = 'x', Scope(any);
Qualifier TQ_Dt : datetime = "20240101000000.000000+000", Scope(any);
Qualifier TQ_Nodef : uint64, Scope(any);
Qualifier Indication : boolean = false, Scope(class, indication), Flavor(DisableOverride, ToSubclass);
''')

_tpl('class', r'''[Description("all" " kinds"), Abstract(false)]
class TST_All as $c : TST_Base {
  [Description("x"): Translatable DisableOverride] uint8 U8 = 255;
  sint8 S8 = -128;
  uint16 U16 = 0xFFFF;
  sint16 S16 = -0x1;
  uint32 U32 = 0777;
  sint32 S32 = -1010b;
  uint64 U64 = 18446744073709551615;
  sint64 S64 = +5;
  real32 R32 = .5;
  real64 R64 = -1.0E-3;
  char16 C = 'a';
  string S = "s\x41\\" "t";
  boolean B = TRUE;
  datetime D = "20240101000000.000000+000";
  string SA[] = {"a", "b"};
  uint8 FA[3] = {1, 2, 3};
  uint16 EA[] = {};
  sint8 N = NULL;
  [MaxLen(8)] string Q;
  [Values{"a", "b"}, ValueMap{"1", "2"}] uint16 VM[];
  [Description("q")] string QD = "d";
  [Description("qa")] uint8 QA[2] = {0, 1};
  string schema;
  uint32 Meth([In] uint8 p1, [In(false), Out] string p2[], TST_Base REF p3, [In] TST_Base REF p4[2], sint64 p5[4]);
  [Description("m")] boolean M0();
};
''')

_tpl('assoc', r'''[Association, Description("a")]
class TST_Assoc {
  [Key] TST_Base REF Left;
  [Key, Description("r")] TST_Base REF Right = NULL;
  uint8 W = 1;
};
[Indication] class TST_Ind : TST_Base { string Msg; };
[Association] class TST_Ref2 { [Key] TST_Assoc REF A; [Key] TST_Ind REF I = "TST_Ind.Id=\"1\""; };
''')

_tpl('inst-alias', r'''[Association] class TST_Link { [Key] TST_Base REF Left; [Key] TST_Base REF Right; };
instance of TST_Base as $b1 { Id = "1"; Num = 7; };
instance of TST_Base as $b2 { Id = "2"; };
instance of TST_Link { Left = $b1; Right = $b2; };
instance of TST_Link as $l2 { Left = $b2; Right = "TST_Base.Id=\"1\""; };
''')

_tpl('inst-emb', r'''class TST_Holder {
  [Key] string Id;
  [EmbeddedInstance("TST_Emb")] string E;
  [EmbeddedObject] string O;
  [EmbeddedInstance("TST_Emb")] string EA[];
};
instance of TST_Holder {
  Id = "h";
  E = "instance of TST_Emb { Id = \"e\"; N = -3; };";
  O = "instance of TST_Emb {Id=\"o\";};";
  EA = {"instance of TST_Emb { Id = \"e1\"; };", "instance of TST_Emb { Id = \"e2\"; S = \"s\"; };"};
};
''')

_tpl('inst-types', r'''[Description("i")] instance of TST_Types as $t {
  [Description("p")] Id = "t";
  P_boolean = false; PA_boolean = {true, FALSE};
  P_string = "a" "b"; PA_string = {"", "x\t"};
  P_char16 = 'c'; PA_char16 = {'\x41', '\n'};
  P_datetime = "00000001000000.000000:000"; PA_datetime = {"20240101000000.000000+000"};
  P_uint8 = 0; PA_uint8 = {0x7f, 11b, 07};
  P_sint8 = -1; P_uint16 = 1; P_sint16 = -32768; P_uint32 = 4294967295; P_sint32 = +1;
  P_uint64 = 0; P_sint64 = -9223372036854775808;
  P_real32 = 1.5; PA_real32 = {-.5, +1.0e2};
  P_real64 = 1.0E-300; PA_real64 = {};
  PA_sint64 = NULL;
};
instance of TST_TRef { P_ref = "TST_Base.Id=\"1\""; Q_ref = "/root/cimv2:TST_Base.Id=\"2\""; };
''')

_tpl('comments', r'''/* block
   comment */ class TST_Cm { // line comment
  string /* inline */ A = "x//y/*z*/"; /**/
  // only a comment
  uint8 B; /* multi
  line */ uint8 C;
};
// last line comment without newline''')

_tpl('pragmas', r'''#pragma locale ("en_US")
#pragma include ("inc/q.mof")
#pragma namespace ("root/other")
#pragma include("inc/q.mof")
#pragma Include ("inc/c.mof")
instance of TST_Inc { Id = "i"; };
#PRAGMA namespace("root/cimv2")
instance of TST_Base { Id = "b"; };
''', entry='file', files={
    'inc/q.mof': 'Qualifier Key : boolean = false, Scope(property, reference), '
                 'Flavor(DisableOverride, ToSubclass);\nQualifier TQ_Inc : string, Scope(any);\n',
    'inc/c.mof': '// included class\n#pragma include ("sub/d.mof")\n'
                 'class TST_Inc : TST_IncBase { [TQ_Inc("x")] uint8 V; };\n',
    'inc/sub/d.mof': 'class TST_IncBase { [Key] string Id; };\n',
})

_tpl('pragmas-str', r'''#pragma include ("inc/q.mof")
#pragma namespace("root/other")
class TST_PS { string A; };
''', entry='string', files={
    'inc/q.mof': 'Qualifier TQ_Inc : string, Scope(any);\n',
})

_tpl('crlines', 'class TST_CR {\r\n  string A;\n\r\r  uint8 B = 1;\n\r};\r\n\r\rinstance of TST_Base {\r\n\r  Id = "1";\n\r\r};\n')

_tpl('depsearch', r'''class TST_Sub : TST_SpBase { [TQ_Sp("s")] string X; };
[Association] class TST_SubA { [Key] TST_SpRef REF R; [Key] TST_Sub REF S; };
instance of TST_SpCls { Id = "1"; };
''', ns='root/empty', search=True, files={
    'sp/qualifiers.mof': 'Qualifier Key : boolean = false, Scope(property, reference), '
                         'Flavor(DisableOverride, ToSubclass);\nQualifier TQ_Sp : string, Scope(any);\n'
                         'Qualifier Association : boolean = false, Scope(association), '
                         'Flavor(DisableOverride, ToSubclass);\n',
    'sp/a/TST_SpBase.mof': 'class TST_SpBase { [Key] string Id; };\n',
    'sp/a/tst_spref.mof': 'class TST_SpRef { [Key] string Id; };\n',
    'sp/TST_SpCls.mof': 'class TST_SpCls { [Key] string Id; };\n',
})

_tpl('dups', r'''class TST_Dup { [Key] string Id; };
class TST_Dup { [Key] string Id; uint8 N; };
instance of TST_Dup { Id = "1"; };
instance of TST_Dup { Id = "1"; N = 2; };
instance of TST_Dup { N = 3; };
Qualifier TQ_Dup : string, Scope(any);
Qualifier TQ_Dup : string = "x", Scope(any);
''')

_tpl('keywords', r'''class TST_Kw {
  [Key] string Id;
  string any; uint8 as; boolean class; string disableoverride; string enableoverride;
  string flavor; string instance; string method; string of; string parameter; string pragma;
  string property; string qualifier; string reference; string restricted; string scope;
  string tosubclass; string toinstance; string translatable; string uint8; string datetime;
  uint8 string(uint8 boolean, string real32[]);
};
instance of TST_Kw { Id = "k"; any = "a"; class = TRUE; uint8 = "u"; };
''')

# ------------------------------------------------------------------------------------------
# deviation alphabets

TOKEN_ALPHABET = [
    # literals of every kind
    '1', '-1', '0', '+0x1F', '101b', '017', '1.5', '-.5e-3', "'c'", "'\\x41'", '"s"', '""', 'true',
    'FALSE', 'null',
    # punctuation
    '#', '(', ')', '{', '}', ';', '[', ']', ',', '$', ':', '=',
    # keywords / identifiers / aliases
    'class', 'instance', 'of', 'as', 'qualifier', 'scope', 'flavor', 'ref', 'pragma', 'string',
    'uint8', 'any', 'association', 'indication', 'translatable', 'foo', 'TST_Base', 'Key', '$b1',
    '$zz',
    # bad numbers
    '08', '2b', '0x', '99999999999999999999999', '1e999', '1.0e999', '-0', '0b',
    # bad strings / characters
    '"\\x"', '"\\q"', '"a', "'ab'", "''", "'", '"a\x00b"', '"\\x0"', '"\\xZ"', '"a\\', '/*', '//',
    '\\', '\x00', '\u00e9', '@',
]
# characters that cannot start any MOF token: a text that has one of them at a token boundary
# (outside strings and comments) is not MOF, so the compiler must not report success on it
ILLEGAL_TOKENS = ('\\', '\x00', '@')
MAX_TIMEOUTS_PER_SHARD = 3
# reduced alphabet for pairs (thorough) and for the mock seam
TOKEN_ALPHABET_PAIRS = ['1', '"s"', '}', ';', ',', '=', 'foo', '"a']
TOKEN_ALPHABET_SMALL = ['1', '"s"', 'null', '(', '}', ';', ',', '$', '=', 'class', 'foo', '$zz',
                        '08', '"\\x"', '"a', '\x00']
CHAR_ALPHABET = ['"', "'", '\\', '/', '*', '#', '{', '(', '$', '\x00', '\r', '\u00e9']

LITERALS = ['1', '-1', '0', '256', '-129', '65536', '4294967296', '18446744073709551616',
            '-9223372036854775809', '0x1F', '101b', '017', '1.5', '-1.5e300', '1.0e999', "'c'",
            "'\\x41'", '"s"', '"1"', '""', '"20240101000000.000000+000"', '"TST_Base.Id=\\"1\\""',
            'true', 'false', 'null', '{1}', '{}', '{"a", "b"}', '{null}', '{1, "a"}', '{true}',
            "{'c'}", '{1.5}', '$b', 'foo']

PRAGMA_PARAMS = ['1:', '//h/ns', '', 'root/other', '/root/other/', 'root//x', 'a b', '\u00e9',
                 'http://h/ns', 'ns:', ':', '/', 'x\x00y', '\\x41', 'ns', '//', 'a:b', 'a/', '1',
                 '-', 'a/b/c/d', '://', 'a:/b', 'h:5988/ns', '[::1]/ns', 'inc/q.mof', 'nofile.mof',
                 'inc', 'self.mof', 'm1.mof', 'bad.mof', 'bin.mof', 'deep1.mof', 'miss.mof',
                 '../c09x/inc/q.mof', 'inc/../inc/q.mof', 'x.txt', 'abc']
PRAGMA_NAMES = ['include', 'namespace', 'locale', 'foo', 'NAMESPACE', 'Include', 'instancelocale',
                'class']
PRAGMA_FILES = {
    'inc/q.mof': 'Qualifier TQ_Inc : string, Scope(any);\n',
    'self.mof': 'class TST_S1 { string A; };\n#pragma include ("self.mof")\n',
    'm1.mof': '#pragma include ("m2.mof")\n',
    'm2.mof': '#pragma include ("m1.mof")\n',
    'bad.mof': '// syntax error on line 3\nclass TST_B1 { string A; };\n   class class ;\n',
    'bin.mof': b'class TST_B2 { string A = "\xe9\xff"; };\n',
    'deep1.mof': '#pragma include ("d/deep2.mof")\n',
    'd/deep2.mof': '#pragma include ("e/deep3.mof")\nclass TST_D2 { string A; };\n',
    'd/e/deep3.mof': '\n\n  instance of TST_Nope { Id = 1; };\n',
    'miss.mof': 'class TST_M1 { string A; };\n#pragma include ("gone.mof")\n',
    'x.txt': 'class TST_X { string A; };\n',
}
NAMESPACE_ARGS = [None, 'root/other', '', '1:', '//h/ns', '\u00e9', 'root/cimv2/', '/root/cimv2',
                  'ROOT/CIMV2', 'a b', 'x\x00y']

STATUS_CODES = list(range(1, 29))
DISTINGUISHED_CODES = [1, 2, 3, 4, 6, 7, 10, 11, 28]
OTHER_ERRORS = ['ConnectionError', 'AuthError', 'HTTPError', 'TimeoutError', 'CIMXMLParseError',
                'ModelError', 'VersionError', 'Error', 'CIMError0', 'CIMError29']

# ------------------------------------------------------------------------------------------
# stub repository


class StubRepo(pywbem.WBEMConnection):
    """In-memory repository with WBEMConnection operation signatures; never touches the network.
    fault = (k, kind, code): the k-th operation (0-based) raises."""

    def __init__(self, pristine, faults=(), ext=False):
        super().__init__('http://stub.invalid', default_namespace=DEFAULT_NS)
        self.quals = {DEFAULT_NS: NocaseDict(pristine['quals'] + (pristine['ext'] if ext else []))}
        self.classes = {DEFAULT_NS: NocaseDict(pristine['classes'])}
        self.insts = {}
        self.ncalls = 0
        self.calls = []
        self.faults = {f[0]: tuple(f) for f in faults if f}
        self.injected = None

    # -- no network, ever
    def _imethodcall(self, *a, **k):   # pragma: no cover
        raise HarnessError('StubRepo: unexpected intrinsic operation %r' % (a[:1],))

    def _methodcall(self, *a, **k):    # pragma: no cover
        raise HarnessError('StubRepo: unexpected extrinsic operation %r' % (a[:1],))

    def _op(self, name):
        k = self.ncalls
        self.ncalls += 1
        self.calls.append(name)
        if k in self.faults:
            self.injected = make_error(self.faults[k][1], self.faults[k][2])
            raise self.injected

    def disarm(self):
        self.faults = {}

    def _ns(self, namespace):
        ns = namespace if namespace is not None else self.default_namespace
        return ns.strip('/') if isinstance(ns, str) else ns

    def _cls(self, ns):
        return self.classes.setdefault(ns, NocaseDict())

    def _resolved(self, ns, name, seen=()):
        cc = self._cls(ns)[name].copy()
        if cc.superclass and cc.superclass in self._cls(ns) and cc.superclass.lower() not in seen:
            sup = self._resolved(ns, cc.superclass, seen + (name.lower(),))
            for p in sup.properties.values():
                if p.name not in cc.properties:
                    cc.properties[p.name] = p
            for m in sup.methods.values():
                if m.name not in cc.methods:
                    cc.methods[m.name] = m
        return cc

    # -- class operations
    def GetClass(self, ClassName, namespace=None, LocalOnly=None, IncludeQualifiers=None,
                 IncludeClassOrigin=None, PropertyList=None):
        self._op('GetClass')
        ns = self._ns(namespace)
        name = ClassName.classname if hasattr(ClassName, 'classname') else ClassName
        if name not in self._cls(ns):
            raise CIMError(pywbem.CIM_ERR_NOT_FOUND, 'class %s not found' % name)
        if LocalOnly is False:
            return self._resolved(ns, name)
        return self._cls(ns)[name].copy()

    def CreateClass(self, NewClass, namespace=None):
        self._op('CreateClass')
        ns = self._ns(namespace)
        cc = NewClass
        store = self._cls(ns)
        if cc.classname in store:
            raise CIMError(pywbem.CIM_ERR_ALREADY_EXISTS, 'class %s exists' % cc.classname)
        if cc.superclass and cc.superclass not in store:
            raise CIMError(pywbem.CIM_ERR_INVALID_SUPERCLASS, 'superclass %s' % cc.superclass)
        objs = list(cc.properties.values())
        for m in cc.methods.values():
            objs += list(m.parameters.values())
        for o in objs:
            if o.type == 'reference' and o.reference_class not in store and \
                    o.reference_class.lower() != cc.classname.lower():
                raise CIMError(pywbem.CIM_ERR_INVALID_PARAMETER,
                               'reference class %s' % o.reference_class)
        store[cc.classname] = cc.copy()

    def ModifyClass(self, ModifiedClass, namespace=None):
        self._op('ModifyClass')
        ns = self._ns(namespace)
        if ModifiedClass.classname not in self._cls(ns):
            raise CIMError(pywbem.CIM_ERR_NOT_FOUND, 'class %s' % ModifiedClass.classname)
        self._cls(ns)[ModifiedClass.classname] = ModifiedClass.copy()

    def DeleteClass(self, ClassName, namespace=None):
        self._op('DeleteClass')
        ns = self._ns(namespace)
        if ClassName not in self._cls(ns):
            raise CIMError(pywbem.CIM_ERR_NOT_FOUND, 'class %s' % ClassName)
        del self._cls(ns)[ClassName]

    def EnumerateClassNames(self, namespace=None, ClassName=None, DeepInheritance=None):
        self._op('EnumerateClassNames')
        return list(self._cls(self._ns(namespace)).keys())

    def EnumerateClasses(self, namespace=None, ClassName=None, DeepInheritance=None,
                         LocalOnly=None, IncludeQualifiers=None, IncludeClassOrigin=None):
        self._op('EnumerateClasses')
        return [c.copy() for c in self._cls(self._ns(namespace)).values()]

    # -- instance operations
    def _path(self, ns, inst):
        cls = self._resolved(ns, inst.classname)
        return CIMInstanceName.from_instance(cls, inst, namespace=ns, strict=False)

    def CreateInstance(self, NewInstance, namespace=None):
        self._op('CreateInstance')
        ns = self._ns(namespace)
        if NewInstance.classname not in self._cls(ns):
            raise CIMError(pywbem.CIM_ERR_INVALID_CLASS, 'class %s' % NewInstance.classname)
        path = self._path(ns, NewInstance)
        store = self.insts.setdefault(ns, [])
        for i in store:
            if i.path == path:
                raise CIMError(pywbem.CIM_ERR_ALREADY_EXISTS, 'instance exists')
        inst = NewInstance.copy()
        inst.path = path
        store.append(inst)
        return path.copy()

    def ModifyInstance(self, ModifiedInstance, IncludeQualifiers=None, PropertyList=None):
        self._op('ModifyInstance')
        path = ModifiedInstance.path
        ns = self._ns(path.namespace if path is not None else None)
        store = self.insts.setdefault(ns, [])
        for n, i in enumerate(store):
            if i.path == path:
                store[n] = ModifiedInstance.copy()
                return
        raise CIMError(pywbem.CIM_ERR_NOT_FOUND, 'instance not found')

    def DeleteInstance(self, InstanceName):
        self._op('DeleteInstance')
        ns = self._ns(InstanceName.namespace)
        store = self.insts.setdefault(ns, [])
        for n, i in enumerate(store):
            if i.path == InstanceName:
                del store[n]
                return
        raise CIMError(pywbem.CIM_ERR_NOT_FOUND, 'instance not found')

    def _enum(self, ClassName, namespace):
        ns = self._ns(namespace)
        if isinstance(ns, str) and ns.lower() in ('interop', 'root/interop', 'root/pg_interop',
                                                   'root/cimv2/interop'):
            raise CIMError(pywbem.CIM_ERR_INVALID_NAMESPACE, 'namespace %s' % ns)
        if ClassName not in self._cls(ns):
            raise CIMError(pywbem.CIM_ERR_INVALID_CLASS, 'class %s' % ClassName)
        return [i for i in self.insts.get(ns, []) if i.classname.lower() == ClassName.lower()]

    def EnumerateInstanceNames(self, ClassName, namespace=None):
        self._op('EnumerateInstanceNames')
        return [i.path.copy() for i in self._enum(ClassName, namespace)]

    def EnumerateInstances(self, ClassName, namespace=None, LocalOnly=None, DeepInheritance=None,
                           IncludeQualifiers=None, IncludeClassOrigin=None, PropertyList=None):
        self._op('EnumerateInstances')
        return [i.copy() for i in self._enum(ClassName, namespace)]

    def GetInstance(self, InstanceName, LocalOnly=None, IncludeQualifiers=None,
                    IncludeClassOrigin=None, PropertyList=None):
        self._op('GetInstance')
        for i in self.insts.get(self._ns(InstanceName.namespace), []):
            if i.path == InstanceName:
                return i.copy()
        raise CIMError(pywbem.CIM_ERR_NOT_FOUND, 'instance not found')

    def InvokeMethod(self, MethodName, ObjectName, Params=None, **params):
        self._op('InvokeMethod')
        raise CIMError(pywbem.CIM_ERR_METHOD_NOT_AVAILABLE, 'no methods')

    # -- qualifier operations
    def _q(self, ns):
        return self.quals.setdefault(ns, NocaseDict())

    def EnumerateQualifiers(self, namespace=None):
        self._op('EnumerateQualifiers')
        return [q.copy() for q in self._q(self._ns(namespace)).values()]

    def GetQualifier(self, QualifierName, namespace=None):
        self._op('GetQualifier')
        ns = self._ns(namespace)
        if QualifierName not in self._q(ns):
            raise CIMError(pywbem.CIM_ERR_NOT_FOUND, 'qualifier %s' % QualifierName)
        return self._q(ns)[QualifierName].copy()

    def SetQualifier(self, QualifierDeclaration, namespace=None):
        self._op('SetQualifier')
        self._q(self._ns(namespace))[QualifierDeclaration.name] = QualifierDeclaration.copy()

    def DeleteQualifier(self, QualifierName, namespace=None):
        self._op('DeleteQualifier')
        ns = self._ns(namespace)
        if QualifierName not in self._q(ns):
            raise CIMError(pywbem.CIM_ERR_NOT_FOUND, 'qualifier %s' % QualifierName)
        del self._q(ns)[QualifierName]


def make_error(kind, code):
    if kind == 'CIMError':
        return CIMError(code, 'injected status %d' % code)
    if kind == 'CIMError0':
        return CIMError(0, 'injected status 0')
    if kind == 'CIMError29':
        return CIMError(29, 'injected status 29')
    if kind == 'HTTPError':
        return pywbem.HTTPError(500, 'injected')
    if kind == 'CIMXMLParseError':
        return pywbem.CIMXMLParseError('injected')
    cls = getattr(pywbem, kind)
    return cls('injected')


class CustomRepo(MOFC.BaseRepositoryConnection):
    """A user-written CIM repository connection (the documented extension point) WITHOUT a WBEM
    connection behind it: every operation is delegated to a StubRepo, there is no `conn`."""

    def __init__(self, stub):
        self._stub = stub
        super().__init__()

    @property
    def default_namespace(self):
        return self._stub.default_namespace

    @default_namespace.setter
    def default_namespace(self, ns):
        self._stub.default_namespace = ns


for _op in ('EnumerateInstanceNames', 'CreateInstance', 'ModifyInstance', 'DeleteInstance', 'GetClass',
            'ModifyClass', 'CreateClass', 'DeleteClass', 'EnumerateQualifiers', 'GetQualifier',
            'SetQualifier', 'DeleteQualifier'):
    def _deleg(self, *a, _op=_op, **k):
        return getattr(self._stub, _op)(*a, **k)
    setattr(CustomRepo, _op, _deleg)
CustomRepo.__abstractmethods__ = frozenset()


# ------------------------------------------------------------------------------------------
# per-process state

class _Worker:
    pass


_W = None
_EMBEDDED = []


def worker():
    """Per-process cache: PLY tables, prelude objects, scratch directory, expected dumps."""
    global _W
    if _W is not None and _W.pid == os.getpid():
        return _W
    w = _Worker()
    w.pid = os.getpid()
    base = os.environ.get('MC_SCRATCH') or tempfile.gettempdir()
    w.root = os.path.join(base, 'c09x-%d' % w.pid)
    shutil.rmtree(w.root, ignore_errors=True)
    os.makedirs(w.root)
    w.disk = {}
    # build the PLY tables once with pywbem's own factory functions
    if not hasattr(MOFC, '_c09_real_yacc'):
        MOFC._c09_real_yacc = MOFC._yacc
        MOFC._c09_real_lex = MOFC._lex
    w.parser0 = MOFC._c09_real_yacc(False)
    w.lexer0 = MOFC._c09_real_lex(False)

    def cached_yacc(verbose=False, out_dir=None):
        return copy.copy(w.parser0)

    def cached_lex(verbose=False, out_dir=None):
        return w.lexer0.clone()
    MOFC._yacc = cached_yacc
    MOFC._lex = cached_lex
    # observation only: remember the MOF strings handed to compile_embedded_value (positions of
    # errors inside an embedded instance are relative to that string)
    if not hasattr(MOFC.MOFCompiler, '_c09_real_cev'):
        real_cev = MOFC.MOFCompiler.compile_embedded_value
        MOFC.MOFCompiler._c09_real_cev = real_cev

        def compile_embedded_value(self, mof, ns, filename=None):
            _EMBEDDED.extend(mof if isinstance(mof, list) else [mof])
            return real_cev(self, mof, ns, filename)
        MOFC.MOFCompiler.compile_embedded_value = compile_embedded_value
    # prelude objects
    h = MOFWBEMConnection()
    MOFCompiler(h, log_func=None).compile_string(prelude_text(), DEFAULT_NS)
    w.pristine = dict(quals=[(q.name, q) for q in h.qualifiers[DEFAULT_NS].values()],
                      classes=[(c.classname, c) for c in h.classes[DEFAULT_NS].values()])
    w.prelude_objs = [q for _, q in w.pristine['quals']] + [c for _, c in w.pristine['classes']]
    h = MOFWBEMConnection()
    MOFCompiler(h, log_func=None).compile_string(prelude_ext_text(), DEFAULT_NS)
    w.pristine['ext'] = [(q.name, q) for q in h.qualifiers[DEFAULT_NS].values()]
    w.mock0 = {}
    _W = w
    w.expected = {}
    for seam in ('mofwbem', 'direct', 'custom'):
        stub, handle, comp = new_compiler(seam, None, False, False, w)
        comp.compile_string(REFERENCE_UNIT, None)
        w.expected[seam] = reference_dump(seam, stub, handle)
        if not w.expected[seam]['instances'] or None in w.expected[seam]['classes']:
            raise HarnessError('reference unit did not compile into the %s seam' % seam)
    return w


def new_compiler(seam, faults, search, ext=False, w=None):
    w = w or worker()
    stub = StubRepo(w.pristine, faults or (), ext)
    handle = MOFWBEMConnection(stub) if seam == 'mofwbem' else CustomRepo(stub) if seam == 'custom' else stub
    comp = MOFCompiler(handle, search_paths=[os.path.join(w.root, 'sp')] if search else None,
                       log_func=None)
    return stub, handle, comp


def reference_dump(seam, stub, handle):
    ns = DEFAULT_NS
    if seam == 'mofwbem':
        quals = handle.qualifiers.get(ns, {})
        classes = handle.classes.get(ns, {})
        insts = handle.instances.get(ns, [])
    else:
        quals = stub.quals.get(ns, {})
        classes = stub.classes.get(ns, {})
        insts = stub.insts.get(ns, [])
    return dict(
        qualifiers=[objdump.dump(quals[n]) if n in quals else None for n in REF_QUALS],
        classes=[objdump.dump(classes[n]) if n in classes else None for n in REF_CLASSES],
        instances=[objdump.dump(i) for i in insts if i.classname.startswith('REF_')])


def sync_files(files):
    """make the scratch tree contain exactly `files` (relpath -> str | bytes)"""
    w = worker()
    if w.disk == files:
        return
    for rel in list(w.disk):
        if rel not in files or files[rel] != w.disk[rel]:
            try:
                os.remove(os.path.join(w.root, rel))
            except OSError:
                pass
            del w.disk[rel]
    for rel, content in files.items():
        if rel in w.disk:
            continue
        path = os.path.join(w.root, rel)
        os.makedirs(os.path.dirname(path), exist_ok=True)
        if isinstance(content, bytes):
            with open(path, 'wb') as f:
                f.write(content)
        else:
            with open(path, 'w', encoding='utf-8', newline='') as f:
                f.write(content)
        w.disk[rel] = content
    # drop directories that became empty (os.walk of the search path must not depend on history)
    for dirpath, dirnames, filenames in os.walk(w.root, topdown=False):
        if dirpath != w.root and not os.listdir(dirpath):
            os.rmdir(dirpath)


# ------------------------------------------------------------------------------------------
# watchdog

class _Timeout(BaseException):
    pass


def _on_alarm(signum, frame):
    raise _Timeout()


@contextlib.contextmanager
def watchdog(seconds):
    old = signal.signal(signal.SIGALRM, _on_alarm)
    signal.setitimer(signal.ITIMER_REAL, seconds)
    try:
        yield
    finally:
        signal.setitimer(signal.ITIMER_REAL, 0)
        signal.signal(signal.SIGALRM, old)


# ------------------------------------------------------------------------------------------
# oracle

_PKG_DIRS = None


def pywbem_frames(tb):
    """module.qualname of every traceback frame that lies in pywbem / pywbem_mock (outer first)"""
    global _PKG_DIRS
    if _PKG_DIRS is None:
        _PKG_DIRS = (os.path.join(mc.REPO, 'pywbem') + os.sep,
                     os.path.join(mc.REPO, 'pywbem_mock') + os.sep)
    out = []
    while tb is not None:
        code = tb.tb_frame.f_code
        fn = os.path.abspath(code.co_filename)
        if fn.startswith(_PKG_DIRS) and os.sep + '_vendor' + os.sep not in fn:
            mod = os.path.splitext(os.path.basename(fn))[0]
            out.append('%s.%s' % (mod, getattr(code, 'co_qualname', code.co_name)))
        tb = tb.tb_next
    return out


# constructors / validators of CIM values raise ValueError / TypeError by contract; the root cause of
# such an exception escaping the compiler is the innermost caller outside these modules
VALUE_LAYER = ('_cim_obj.', '_cim_types.', '_nocasedict.', '_utils.', '_exceptions.')
VALUE_TYPES = ('_cim_obj.', '_cim_types.', '_nocasedict.')
PRAGMA_FRAMES = ('_mof_compiler.p_compilerDirective', '_mof_compiler.p_pragmaParameter',
                 '_mof_compiler.p_pragmaName')


def where_of(exc):
    frames = pywbem_frames(exc.__traceback__)
    if not frames:
        return 'outside-pywbem'
    if isinstance(exc, RecursionError):
        cnt = collections.Counter(frames)
        rec = sorted(f for f, n in cnt.items() if n >= 3)
        return 'recursion:' + (rec[0] if rec else frames[-1])
    for f in reversed(frames):
        if not f.startswith(VALUE_LAYER):
            return f
    return frames[-1]


def check_of(exc, stub):
    """signature field 'check', derived from the failure (not from the generator): 'fault' if the
    injected repository error is the exception or in its context chain, 'pragma' if it arose
    inside a compiler directive, else 'deviation'"""
    if exc is not None and caused_by_fault(exc, stub):
        return 'fault'
    if exc is not None and any(f in PRAGMA_FRAMES for f in pywbem_frames(exc.__traceback__)):
        return 'pragma'
    return 'deviation'


def stub_operation(exc):
    """name of the StubRepo operation that raised exc (public method nearest to the raise), else
    None"""
    me = os.path.abspath(__file__)
    tb = exc.__traceback__
    ops = []
    while tb is not None:
        code = tb.tb_frame.f_code
        qn = getattr(code, 'co_qualname', code.co_name)
        if os.path.abspath(code.co_filename) == me and qn.startswith('StubRepo.'):
            ops.append(code.co_name)
        else:
            ops = []        # only a trailing run of stub frames counts
        tb = tb.tb_next
    public = [o for o in ops if not o.startswith('_')]
    return public[-1] if public else None


def caused_by_fault(exc, stub):
    """the injected repository error is exc itself or is in its cause / context chain"""
    if stub is None or stub.injected is None:
        return False
    seen = 0
    while exc is not None and seen < 50:
        if exc is stub.injected:
            return True
        exc = exc.__cause__ or exc.__context__
        seen += 1
    return False


def scrub(text):
    w = worker()
    return str(text).replace(w.root, '<scratch>')


def position_problem(exc, case, embedded):
    """None, or a 'position:...' class, for a MOFCompileError"""
    w = worker()
    lineno, column, file_, context = exc.lineno, exc.column, exc.file, exc.context
    if lineno is None:
        if column is None and file_ is None and context is None:
            return None
        return 'position:partial'
    if isinstance(lineno, bool) or not isinstance(lineno, int) or \
            isinstance(column, bool) or not isinstance(column, int):
        return 'position:not-int'
    if file_ is not None and not isinstance(file_, str):
        return 'position:file-not-str'
    # candidate sources
    sources = []
    if file_ is None:
        if case['entry'] == 'string':
            sources.append(case['text'])
        sources.extend(embedded)
        if not sources:
            return 'position:file-none-for-file-input'
    else:
        real = os.path.realpath(file_)
        if not real.startswith(os.path.realpath(w.root) + os.sep) or not os.path.isfile(real):
            return 'position:file-not-an-input-file'
        try:
            with open(real, encoding='utf-8') as f:
                sources.append(f.read())
        except (OSError, ValueError):
            return 'position:file-not-an-input-file'
    verdict = 'position:lineno-out-of-range'
    for src in sources:
        lines = src.split('\n')
        if not 1 <= lineno <= len(lines) + 1:
            continue
        line = lines[lineno - 1] if lineno <= len(lines) else ''
        if 0 <= column <= len(line) + 1:
            return None
        # which way is the line number off? (classification only: the line text of the context)
        verdict = 'position:column-out-of-range'
        if isinstance(context, list) and len(context) >= 2:
            ctx = context[-2]
            hits = [i + 1 for i, ln in enumerate(lines)
                    if ln.strip('\r\n') == ctx or (ctx and ln.startswith(ctx))]
            if hits and all(h > lineno for h in hits):
                verdict += ':lineno-behind-token'
            elif hits and all(h < lineno for h in hits):
                verdict += ':lineno-ahead-of-token'
    return verdict


def classify(exc, case, stub, embedded):
    """-> (outcome, what|None, where|None, expected, observed, check)"""
    out, what, where, exp, obs = _classify(exc, case, stub, embedded)
    chk = None
    if what is not None:
        # a wrong position / rendering is a property of the error object, whatever provoked it
        chk = 'deviation' if what.startswith(('position:', 'render-raised', 'not-a-pywbem', 'timeout')) \
            else check_of(exc, stub)
    return out, what, where, exp, obs, chk


def _classify(exc, case, stub, embedded):
    seam = case['seam']
    if exc is None:
        return 'ok', None, None, None, None
    expected = 'success, MOFCompileError with a position inside the input, or OSError for a missing file'
    if isinstance(exc, _Timeout):
        return ('violation', 'timeout', 'watchdog', 'terminates within %gs' % WATCHDOG_S,
                'still running, interrupted in %s' % (pywbem_frames(exc.__traceback__)[-1:] or ['?'])[0])
    if isinstance(exc, MOFCompileError):
        name = type(exc).__name__ if type(exc) in (pywbem.MOFParseError, pywbem.MOFDependencyError,
                                                    pywbem.MOFRepositoryError) else 'MOFCompileError-other'
        if not isinstance(exc, pywbem.Error):
            return 'violation', 'not-a-pywbem-Error', where_of(exc), expected, repr(exc)
        try:
            s1 = str(exc)
            s2 = exc.get_err_msg()
            if not isinstance(s1, str) or not isinstance(s2, str):
                raise TypeError('message is not a string')
        except Exception as exc2:   # noqa: rendering must not raise
            return ('violation', 'render-raised:' + type(exc2).__name__, where_of(exc2),
                    'str(exc) and exc.get_err_msg() return text', scrub(repr(exc2)))
        prob = position_problem(exc, case, embedded)
        if prob:
            return ('violation', prob, where_of(exc), 'line/column/file inside the input',
                    scrub('lineno=%r column=%r file=%r context=%r msg=%r' %
                          (exc.lineno, exc.column, exc.file, exc.context, exc.msg)))
        return name + ('' if exc.lineno is not None else '(no-position)'), None, None, None, None
    if isinstance(exc, OSError):
        return 'OSError', None, None, None, None
    if stub is not None and exc is stub.injected and not isinstance(exc, CIMError):
        return 'fault-propagated', None, None, None, None
    if seam == 'mock' and isinstance(exc, CIMError):
        return 'mock:CIMError', None, None, None, None
    what = 'escaped:' + type(exc).__name__
    op = stub_operation(exc)
    if op:
        # the error of this repository operation was not translated
        what += '@' + op
    frames = pywbem_frames(exc.__traceback__)
    if type(exc) in (ValueError, TypeError) and frames and frames[-1].startswith(VALUE_TYPES):
        # a CIM value / object constructor rejected the value: one failure class for both types
        what = 'escaped:value-conversion'
    return ('violation', what, where_of(exc), expected,
            scrub('%s: %s' % (type(exc).__name__, str(exc)[:300])))


def case_key(case):
    files = case.get('files') or {}
    return (case['seam'], case['entry'], case['text'], case.get('ns'), bool(case.get('search')),
            bool(case.get('ext')),
            tuple(case['fault']) if case.get('fault') else None,
            tuple(case['fault2']) if case.get('fault2') else None,
            tuple(sorted((k, v if isinstance(v, str) else v.decode('latin-1'))
                         for k, v in files.items())))


def execute(case):
    """Run one case. -> ([(outcome, what, where, expected, observed, check)], repository calls);
    first result = the compile itself, optional second = hygiene."""
    w = worker()
    sync_files(case.get('files') or {})
    seam = case['seam']
    text = case['text']
    ns = case.get('ns')
    if case['entry'] == 'file':
        main = os.path.join(w.root, 'main.mof')
        with open(main, 'w', encoding='utf-8', newline='') as f:
            f.write(text)
    del _EMBEDDED[:]
    cwd = os.getcwd()
    os.chdir(w.root)     # a MOF string has no file: its includes are relative to the cwd
    try:
        return _execute(w, case, seam, text, ns)
    finally:
        os.chdir(cwd)
        if case['entry'] == 'file':
            try:
                os.remove(os.path.join(w.root, 'main.mof'))
            except OSError:
                pass


def _guarded(fn):
    """run fn() under the watchdog; -> the exception that escaped, or None"""
    with watchdog(WATCHDOG_S):
        try:
            fn()
        except (HarnessError, KeyboardInterrupt):
            raise
        except BaseException as e:   # noqa: classified by the caller
            return e
    return None


def _execute(w, case, seam, text, ns):
    stub = handle = comp = None
    if seam == 'mock':
        ext = bool(case.get('ext'))
        if ext not in w.mock0:
            m = pywbem_mock.FakedWBEMConnection(default_namespace=DEFAULT_NS)
            m.add_namespace('root/other')
            m.add_namespace('root/empty')
            m.add_cimobjects([o.copy() for o in w.prelude_objs] +
                             ([q.copy() for _, q in w.pristine['ext']] if ext else []), DEFAULT_NS)
            w.mock0[ext] = m
        conn = copy.deepcopy(w.mock0[ext])
        sp = [os.path.join(w.root, 'sp')] if case.get('search') else None
        exc = _guarded(lambda: conn.compile_mof_string(text, ns, search_paths=sp))
    else:
        stub, handle, comp = new_compiler(seam, (case.get('fault'), case.get('fault2')),
                                          case.get('search'), bool(case.get('ext')))
        if case['entry'] == 'file':
            exc = _guarded(lambda: comp.compile_file(os.path.join(w.root, 'main.mof'), ns))
        else:
            exc = _guarded(lambda: comp.compile_string(text, ns))
    results = [classify(exc, case, stub, [e for e in _EMBEDDED if isinstance(e, str)])]
    ncalls = stub.ncalls if stub is not None else 0
    # hygiene: the same compiler object must still compile the reference unit correctly
    if exc is not None and comp is not None and not isinstance(exc, _Timeout):
        stub.disarm()
        hexc = _guarded(lambda: comp.compile_string(REFERENCE_UNIT, None))
        if hexc is not None:
            what = 'timeout' if isinstance(hexc, _Timeout) else 'reference-raised:' + type(hexc).__name__
            results.append(('violation', what, where_of(hexc) if not isinstance(hexc, _Timeout) else 'watchdog',
                            'reference unit compiles after the failed compile',
                            scrub('%s: %s' % (type(hexc).__name__, str(hexc)[:300])), 'hygiene'))
        else:
            got = reference_dump(seam, stub, handle)
            exp = w.expected[seam]
            if got != exp:
                # failure class: which kind of reference object is missing / different
                kinds = []
                for k in ('qualifiers', 'classes', 'instances'):
                    if got[k] == exp[k]:
                        continue
                    present = [x for x in got[k] if x is not None]
                    kinds.append('%s=%s' % (k, 'missing' if not present else
                                            'partly-missing' if len(present) < len(exp[k]) else
                                            'different'))
                first = [k for k in ('qualifiers', 'classes', 'instances') if got[k] != exp[k]][0]
                d = objdump.diff(exp[first], got[first])
                results.append(('violation', 'reference-differs', ';'.join(kinds),
                                'objects equal to those of a fresh compiler',
                                scrub('after %s: %s' % (results[0][1] or results[0][0], str(d)[:400])),
                                'hygiene'))
    # hygiene 2 (retry differential): whatever the failed compile left inside the compiler object
    # must not change how it treats the files it has just worked on.  Each probe is run by the used
    # compiler on the handle and by a brand-new MOFCompiler on a deep copy of that handle; outcome
    # and resulting repository content must be identical.
    if exc is not None and comp is not None and not isinstance(exc, _Timeout) and \
            (case['entry'] == 'file' or case.get('files')):
        probes = []
        if case['entry'] == 'file':
            probes += [('file', 'main.mof'), ('include', 'main.mof')]
        probes += [('include', rel) for rel in sorted(case.get('files') or {})
                   if rel.endswith('.mof') and isinstance(case['files'][rel], str)][:RETRY_PROBES]
        sp = [os.path.join(w.root, 'sp')] if case.get('search') else None
        for kind, rel in probes:
            h2 = copy.deepcopy(handle)
            comp2 = MOFCompiler(h2, search_paths=sp, log_func=None)
            outs = []
            for c, h in ((comp, handle), (comp2, h2)):
                if kind == 'file':
                    e = _guarded(lambda: c.compile_file(os.path.join(w.root, rel), ns))
                else:
                    e = _guarded(lambda: c.compile_string('#pragma include ("%s")\n' % rel, ns))
                if isinstance(e, _Timeout):
                    outs.append(('timeout',))
                else:
                    outs.append(('ok' if e is None else type(e).__name__,
                                 None if e is None else scrub(str(e)[:300]), full_dump(h)))
            if outs[0] != outs[1]:
                field = 'type' if outs[0][0] != outs[1][0] else 'message' if outs[0][1] != outs[1][1] \
                    else 'repository'
                results.append(('violation', 'retry-differs:' + field,
                                '%s:%s->%s' % (kind, outs[1][0], outs[0][0]),
                                'the used compiler treats %s of %s like a new MOFCompiler on the same '
                                'repository state: %s' % (kind, rel, str(outs[1][:2])[:300]),
                                str(outs[0][:2])[:300], 'hygiene'))
                break
    return results, ncalls


RETRY_PROBES = 4


def full_dump(handle):
    """everything the handle (and the stub behind it) holds, as comparable data"""
    out = []
    hs = [handle, handle.conn] if isinstance(handle, MOFWBEMConnection) else [handle]
    for h in hs:
        for attr in ('qualifiers', 'classes', 'instances', 'quals', 'insts', 'class_names'):
            d = getattr(h, attr, None)
            if d is None:
                continue
            for ns in sorted(d, key=str):
                v = d[ns]
                if isinstance(v, list):
                    items = [objdump.dump(x) if not isinstance(x, str) else x for x in v]
                else:
                    items = [(str(k), objdump.dump(x)) for k, x in v.items()]
                out.append((type(h).__name__, attr, str(ns), repr(items)))
    return out


def check_case(case, acc, base_text=None):
    if case['seam'] == 'mock' and case['entry'] != 'string':
        case = dict(case, entry='string')     # compile_mof_string has no file entry
    results, ncalls = execute(case)
    changed = bool(case.get('fault')) or base_text is None or case['text'] != base_text
    outcome = results[0][0] if results[0][1] is None else 'violation:' + results[0][1].split(':')[0]
    acc.case(case_key(case), nontrivial=changed, outcome='%s/%s' % (case['seam'], outcome),
             calls=1 + ncalls,
             sample=dict(case, files=sorted(case.get('files') or {})) if outcome != 'ok' and
             len(case['text']) < 400 else None)
    if case.get('illegal') and results[0][0] in ('ok', 'mock:CIMError'):
        # (a CIMError of the mock repository is raised by an operation, i.e. after parsing went on)
        results = [('violation', 'accepted:illegal-character', 'lexer',
                    'MOFParseError for a character that cannot start a token',
                    'compile reported %s' % results[0][0], 'deviation')] + results[1:]
    for idx, (out, what, where, exp, obs, chk) in enumerate(results):
        if what is None:
            continue
        acc.violation(dict(check=chk, what=what, where=where), dict(case, sigidx=idx), exp, obs)
        if what == 'timeout':
            acc.count('watchdog-timeouts')
            if acc.extra['watchdog-timeouts'] >= MAX_TIMEOUTS_PER_SHARD:
                raise _ShardAbort()


class _ShardAbort(Exception):
    pass


_MIN_TIMEOUTS = [0]


def _still(case, idx, sig):
    if sig[1] == 'accepted:illegal-character':
        return False      # not minimised (the flag belongs to the token edit, not to the text)
    if _MIN_TIMEOUTS[0] >= 2:
        return False      # candidates run into the watchdog: stop shrinking
    r, _ = execute(case)
    if any(x[1] == 'timeout' for x in r):
        _MIN_TIMEOUTS[0] += 1
    return len(r) > idx and (r[idx][5], r[idx][1], r[idx][2]) == sig


def minimize_case(case, idx, sig, budget=300):
    """drop unneeded auxiliary files, then ddmin over the characters of the text"""
    tests = [0]
    files = dict(case.get('files') or {})
    for rel in sorted(files):
        trial = {k: v for k, v in files.items() if k != rel}
        tests[0] += 1
        if _still(dict(case, files=trial), idx, sig):
            files = trial
    case = dict(case, files=files)

    def fails(text):
        tests[0] += 1
        return _still(dict(case, text=text), idx, sig)

    text = case['text']
    n = 2
    while len(text) >= 2 and tests[0] < budget:
        size = max(1, len(text) // n)
        chunks = [text[i:i + size] for i in range(0, len(text), size)]
        reduced = False
        for i in range(len(chunks)):
            cand = ''.join(chunks[:i] + chunks[i + 1:])
            if tests[0] >= budget:
                break
            if fails(cand):
                text = cand
                n = max(n - 1, 2)
                reduced = True
                break
        if not reduced:
            if size == 1:
                break
            n = min(n * 2, len(text))
    return dict(case, text=text, origin=(case.get('origin') or '') + ' (minimised)')


def finish(total, tier):
    """runs once in the parent on the merged result: shrink the (already smallest) witness of every
    signature; deterministic because the merged witness is"""
    from mc.core import unjson, jsonable
    import time
    warnings.simplefilter('ignore')
    t0 = time.perf_counter()
    _MIN_TIMEOUTS[0] = 0
    for k in sorted(total.violations):
        v = total.violations[k]
        case = unjson(v['case'])
        idx = case.pop('sigidx', 0)
        sig = (v['sig']['check'], v['sig']['what'], v['sig']['where'])
        if sig[1] == 'timeout' or not _still(case, idx, sig):
            continue
        if case['seam'] != 'mofwbem' and not case.get('fault'):
            # prefer a witness on the plain MOFCompiler / MOFWBEMConnection seam
            trial = dict(case, seam='mofwbem')
            if _still(trial, idx, sig):
                case = trial
        small = minimize_case(case, idx, sig)
        r, _ = execute(small)
        if not (len(r) > idx and (r[idx][5], r[idx][1], r[idx][2]) == sig):
            continue
        small = jsonable(dict(small, sigidx=idx))
        v.update(case=small, size=len(json.dumps(small, ensure_ascii=True)),
                 expected=jsonable(r[idx][3]), observed=jsonable(r[idx][4]))
    if os.environ.get('MC_DEBUG'):
        sys.stderr.write('c09.finish: %d signatures minimised in %.1fs\n'
                         % (len(total.violations), time.perf_counter() - t0))


# ------------------------------------------------------------------------------------------
# case generators (deterministic order; every generator yields (case, base_text))

def tpl_case(name, text=None, **kw):
    t = TEMPLATES[name]
    case = dict(check='deviation', seam='mofwbem', entry=t['entry'],
                text=t['text'] if text is None else text, files=t['files'], ns=t['ns'],
                search=t['search'], fault=None, origin=name)
    case.update(kw)
    return case


_SPANS = {}


def token_spans(name):
    """[(start, end)] of the tokens of a template, by pywbem's own lexer"""
    if name not in _SPANS:
        w = worker()
        lx = w.lexer0.clone()
        text = TEMPLATES[name]['text']
        lx.input(text)
        spans = []
        while True:
            tok = lx.token()
            if tok is None:
                break
            if tok.type == 'error':
                raise HarnessError('template %s does not tokenise at %d' % (name, tok.lexpos))
            spans.append((tok.lexpos, lx.lexpos))
        _SPANS[name] = spans
    return _SPANS[name]


def token_ops(alphabet):
    ops = [('drop', None), ('dup', None), ('swap', None)]
    ops += [('rep', t) for t in alphabet]
    ops += [('ins', t) for t in alphabet]
    return ops


def apply_token_ops(text, spans, edits):
    """edits: [(token index, op, tok)] with increasing, non-overlapping indices"""
    out = []
    pos = 0
    edits = sorted(edits, key=lambda e: e[0])
    for ti, op, tok in edits:
        s, e = spans[ti]
        if s < pos:
            return None      # overlaps a previous swap
        out.append(text[pos:s])
        cur = text[s:e]
        if op == 'drop':
            pass
        elif op == 'dup':
            out.append(cur + ' ' + cur)
        elif op == 'rep':
            out.append(tok)
        elif op == 'ins':
            out.append(tok + ' ' + cur)
        elif op == 'swap':
            if ti + 1 >= len(spans):
                return None
            s2, e2 = spans[ti + 1]
            out.append(text[s2:e2] + text[e:s2] + cur)
            e = e2
        pos = e
    out.append(text[pos:])
    return ''.join(out)


def gen_token_single(seam='mofwbem', alphabet=None):
    ops = token_ops(alphabet or TOKEN_ALPHABET)
    for name, t in TEMPLATES.items():
        spans = token_spans(name)
        for ti in range(len(spans)):
            for op, tok in ops:
                yield name, ((ti, op, tok),), seam
        # appending a token after the last one
        for tok in (alphabet or TOKEN_ALPHABET):
            yield name, ((len(spans), 'app', tok),), seam


def build_token_case(name, edits, seam):
    t = TEMPLATES[name]
    spans = token_spans(name)
    if len(edits) == 1 and edits[0][1] == 'app':
        text = t['text'] + '\n' + edits[0][2]     # (a new line: the template may end in a // comment)
    else:
        text = apply_token_ops(t['text'], spans, list(edits))
        if text is None:
            return None
    illegal = any(op in ('rep', 'ins', 'app') and tok in ILLEGAL_TOKENS for _, op, tok in edits)
    return tpl_case(name, text, seam=seam, illegal=illegal,
                    origin='%s tokens %s' % (name, json.dumps(edits, ensure_ascii=True)))


def gen_token_pairs(distance):
    ops = token_ops(TOKEN_ALPHABET_PAIRS)
    for name, t in TEMPLATES.items():
        n = len(token_spans(name))
        for i in range(n):
            for j in range(i + 1, min(i + distance, n - 1) + 1):
                for o1 in ops:
                    for o2 in ops:
                        yield name, ((i, o1[0], o1[1]), (j, o2[0], o2[1])), 'mofwbem'


def gen_chars():
    for name, t in TEMPLATES.items():
        text = t['text']
        for i in range(len(text) + 1):
            if i < len(text):
                yield name, ('trunc', i, None)
                yield name, ('del', i, None)
            for ch in CHAR_ALPHABET:
                yield name, ('ins', i, ch)


def build_char_case(name, edit):
    text = TEMPLATES[name]['text']
    op, i, ch = edit
    if op == 'trunc':
        new = text[:i]
    elif op == 'del':
        new = text[:i] + text[i + 1:]
    else:
        new = text[:i] + ch + text[i:]
    return tpl_case(name, new, origin='%s char %s' % (name, json.dumps(edit, ensure_ascii=True)))


def initializer_texts():
    """every literal kind as initializer for every declared type, in every initializer context"""
    for t in DTYPES:
        for lit in LITERALS:
            yield 'class TST_M { %s P = %s; };' % (t, lit)
            yield 'class TST_M { [Description("x")] %s P = %s; };' % (t, lit)
            yield 'class TST_M { %s P[] = %s; };' % (t, lit)
            yield 'class TST_M { [Description("x")] %s P[2] = %s; };' % (t, lit)
            yield 'instance of TST_Types { Id = "1"; P_%s = %s; };' % (t, lit)
            yield 'instance of TST_Types { Id = "1"; PA_%s = %s; };' % (t, lit)
            yield 'Qualifier TQ_M : %s = %s, Scope(any);' % (t, lit)
            yield 'Qualifier TQ_M : %s[] = %s, Scope(any);' % (t, lit)
            yield '[TQT_%s(%s)] class TST_M { };' % (t, lit)
            if lit.startswith('{'):
                yield '[TQTA_%s %s] class TST_M { };' % (t, lit)
            else:
                yield '[TQTA_%s { %s }] class TST_M { };' % (t, lit)
    for lit in LITERALS:
        yield 'class TST_M { TST_Base REF R = %s; };' % lit
        yield 'class TST_M { [Description("x")] TST_Base REF R = %s; };' % lit
        yield 'instance of TST_TRef { Q_ref = "TST_Base.Id=\\"1\\""; P_ref = %s; };' % lit
        yield 'instance of TST_Types { Id = %s; };' % lit
        yield 'class TST_M { uint8 P[%s]; };' % lit
        yield 'class TST_M { uint8 M(uint8 p[%s]); };' % lit
        yield 'Qualifier TQ_M : uint8[%s], Scope(any);' % lit
        yield '[Description(%s)] class TST_M { };' % lit
        yield '[Description(%s)] instance of TST_Types { Id = "1"; };' % lit
        yield ('instance of TST_Base as $b { Id = "0"; };\n'
               'instance of TST_TRef { Q_ref = $b; P_ref = %s; };' % lit)


def gen_initializers():
    for text in initializer_texts():
        yield dict(check='deviation', seam='mofwbem', entry='string', text=text, files={}, ns=None,
                   search=False, fault=None, ext=True, origin='initializer')


def gen_pragmas():
    for pname in PRAGMA_NAMES:
        for par in PRAGMA_PARAMS:
            for entry in ('string', 'file'):
                for tail in ('', '\nclass TST_P { string A; };\n'):
                    text = '#pragma %s ("%s")%s' % (pname, par, tail)
                    yield dict(check='pragma', seam='mofwbem', entry=entry, text=text,
                               files=PRAGMA_FILES, ns=None, search=False, fault=None,
                               origin='pragma')
    # include found through the search path, and shapes of the directive itself
    for text in ['#pragma include ("TST_SpCls.mof")', '#pragma include ("nofile.mof")',
                 '#pragma include ("sp/TST_SpCls.mof")', '#pragma include ("a.b")',
                 '#pragma include ("abc")', '#pragma include ("qualifiers.mof")']:
        for entry in ('string', 'file'):
            yield dict(check='pragma', seam='mofwbem', entry=entry, text=text,
                       files=TEMPLATES['depsearch']['files'], ns='root/empty', search=True,
                       fault=None, origin='pragma-search')
    # unresolvable and circular class dependencies, in the default namespace and in a namespace chosen
    # with #pragma namespace, with every shape of EmbeddedInstance qualifier value next to them
    dep_files = dict(TEMPLATES['depsearch']['files'])
    dep_files.update({
        'sp/TST_CycA.mof': 'class TST_CycA : TST_CycB { string A; };\n',
        'sp/TST_CycB.mof': 'class TST_CycB : TST_CycA { string B; };\n',
        'sp/TST_RefA.mof': 'class TST_RefA { [Key] string Id; TST_RefB REF R; };\n',
        'sp/TST_RefB.mof': 'class TST_RefB { [Key] string Id; TST_RefA REF R; };\n',
        'sp/TST_SelfSup.mof': 'class TST_SelfSup : TST_SelfSup { string A; };\n',
    })
    quals = ('Qualifier EmbeddedInstance : string = null, Scope(property, method, parameter);\n'
             'Qualifier Key : boolean = false, Scope(property, reference), Flavor(DisableOverride, ToSubclass);\n')
    deps = ['class TST_DP : TST_Missing { string A; };', 'class TST_DP { TST_Missing REF R; };',
            'class TST_DP { uint8 M(TST_Missing REF p); };',
            'class TST_DP : TST_CycA { };', 'class TST_DP { TST_CycA REF R; };',
            'class TST_DP { TST_RefA REF R; };', 'class TST_DP : TST_SelfSup { };',
            'class TST_DP : TST_DP { };', 'class TST_DP { TST_DP REF R; };']
    embs = ['', '[EmbeddedInstance] string e; ', '[EmbeddedInstance(NULL)] string e; ',
            '[EmbeddedInstance("TST_Missing2")] string e; ', '[EmbeddedInstance("TST_DP")] string e; ']
    for pre in ('', '#pragma namespace ("root/other")\n'):
        for dep in deps:
            for emb in embs:
                text = pre + quals + dep.replace('{ ', '{ ' + emb, 1)
                for search in (False, True):
                    for seam in ('mofwbem', 'mock'):
                        yield dict(check='pragma', seam=seam, entry='string', text=text, files=dep_files,
                                   ns=None, search=search, fault=None, origin='dependency')
    # a class defined again in the same unit, with itself / a subclass of itself as superclass
    for body in ('class TST_RD { uint8 k; };\nclass TST_RD : TST_RD { };',
                 'class TST_RD { uint8 k; };\nclass TST_RD : TST_RD { };\ninstance of TST_RD { k = 1; };',
                 'class TST_RB { uint8 k; };\nclass TST_RA : TST_RB { };\nclass TST_RB : TST_RA { };\n'
                 'instance of TST_RA { k = 1; };',
                 'class TST_RD { uint8 k; };\nclass TST_RD { uint16 k; string s; };\ninstance of TST_RD { k = 1; };',
                 'class TST_RD { uint8 k; };\nclass tst_rd : TST_Base { };\ninstance of TST_RD { Id = "1"; };'):
        for seam in ('mofwbem', 'direct', 'mock'):
            yield dict(check='pragma', seam=seam, entry='string', text=body, files={}, ns=None,
                       search=False, fault=None, origin='redefinition')
    # namespace argument of compile_string / compile_file
    for name in TEMPLATES:
        for ns in NAMESPACE_ARGS:
            for seam in ('mofwbem', 'direct'):
                yield tpl_case(name, check='pragma', ns=ns, seam=seam, origin='%s ns' % name)
    # self-including / mutually including main file
    yield dict(check='pragma', seam='mofwbem', entry='file', text='#pragma include ("main.mof")\n',
               files={}, ns=None, search=False, fault=None, origin='self-include')
    yield dict(check='pragma', seam='mofwbem', entry='file', text='#pragma include ("o.mof")\n',
               files={'o.mof': '#pragma include ("main.mof")\n'}, ns=None, search=False,
               fault=None, origin='mutual-include')
    # compile_file on things that are not readable MOF files
    for text, files in [('', {}), ('\n', {}), ('\ufeffclass TST_Bom { };', {}), ('\x00', {}),
                        ('\r\n\rclass TST_Cr { };\r\n', {})]:
        for entry in ('string', 'file'):
            yield dict(check='pragma', seam='mofwbem', entry=entry, text=text, files=files, ns=None,
                       search=False, fault=None, origin='odd-input')


_BASECALLS = {}


def base_calls(name, seam):
    """number of repository calls of the unfaulted template"""
    if (name, seam) not in _BASECALLS:
        case = tpl_case(name, seam=seam)
        results, ncalls = execute(case)
        if results[0][0] != 'ok':
            raise HarnessError('template %s does not compile in seam %s: %r' % (name, seam, results[0]))
        _BASECALLS[(name, seam)] = ncalls
    return _BASECALLS[(name, seam)]


def gen_faults(tier):
    for name in TEMPLATES:
        for seam in ('mofwbem', 'direct', 'custom'):
            n = base_calls(name, seam)
            for k in range(n):
                for code in STATUS_CODES:
                    yield tpl_case(name, seam=seam, fault=[k, 'CIMError', code], origin='%s fault' % name)
                for kind in OTHER_ERRORS:
                    yield tpl_case(name, seam=seam, fault=[k, kind, 0], origin='%s fault' % name)


def gen_dev_x_fault():
    """thorough: structural token deviation x fault at every call of the deviated unit"""
    for name in TEMPLATES:
        spans = token_spans(name)
        for ti in range(len(spans)):
            for op in ('drop', 'dup', 'swap'):
                yield name, ((ti, op, None),)


def gen_mock():
    ops = token_ops(TOKEN_ALPHABET_SMALL)
    for name, t in TEMPLATES.items():
        yield tpl_case(name, seam='mock', origin=name)
        spans = token_spans(name)
        for ti in range(len(spans)):
            for op, tok in ops:
                c = build_token_case(name, ((ti, op, tok),), 'mock')
                if c is not None:
                    yield c
    for c in gen_initializers():
        yield dict(c, seam='mock')
    for c in gen_pragmas():
        if c['entry'] == 'string' and c['seam'] == 'mofwbem':
            yield dict(c, seam='mock')


# ------------------------------------------------------------------------------------------
# plan / run

SHARDS = {'token': 96, 'char': 48, 'init': 12, 'pragma': 8, 'fault': 24, 'mock': 32}
SHARDS_THOROUGH = {'pairs': 128, 'devfault': 64, 'fault2': 16}


def plan(tier, seed):
    shards = []
    for sub, n in SHARDS.items():
        chk = {'token': 'deviation', 'char': 'deviation', 'init': 'deviation', 'pragma': 'pragma',
               'fault': 'fault', 'mock': 'mock'}[sub]
        shards += [dict(check=chk, sub=sub, part=i, of=n) for i in range(n)]
    if tier == 'thorough':
        for sub, n in SHARDS_THOROUGH.items():
            chk = {'pairs': 'deviation', 'devfault': 'fault', 'fault2': 'fault'}[sub]
            shards += [dict(check=chk, sub=sub, part=i, of=n) for i in range(n)]
    return shards


def run_shard(shard, tier):
    warnings.simplefilter('ignore')
    acc = Acc()
    worker()
    try:
        _run_shard(shard, tier, acc)
    except _ShardAbort:
        acc.cap('shards were abandoned after %d watchdog timeouts each (non-termination is '
                'reported as a violation)' % MAX_TIMEOUTS_PER_SHARD)
    return acc


def _run_shard(shard, tier, acc):
    part, of, sub = shard['part'], shard['of'], shard['sub']

    def mine(i):
        return i % of == part

    if sub == 'token':
        for i, (name, edits, seam) in enumerate(gen_token_single()):
            if mine(i):
                c = build_token_case(name, edits, seam)
                if c is not None:
                    check_case(c, acc, TEMPLATES[name]['text'])
    elif sub == 'char':
        for i, (name, edit) in enumerate(gen_chars()):
            if mine(i):
                check_case(build_char_case(name, edit), acc, TEMPLATES[name]['text'])
    elif sub == 'init':
        for i, c in enumerate(gen_initializers()):
            if mine(i):
                check_case(c, acc, None)
    elif sub == 'pragma':
        for i, c in enumerate(gen_pragmas()):
            if mine(i):
                check_case(c, acc, None)
    elif sub == 'fault':
        if part == 0:
            for name in TEMPLATES:      # the unchanged templates themselves, in every seam
                for seam in ('mofwbem', 'direct'):
                    check_case(tpl_case(name, seam=seam), acc, TEMPLATES[name]['text'])
        for i, c in enumerate(gen_faults(tier)):
            if mine(i):
                check_case(c, acc, None)
    elif sub == 'mock':
        for i, c in enumerate(gen_mock()):
            if mine(i):
                check_case(c, acc, None)
    elif sub == 'pairs':
        for i, (name, edits, seam) in enumerate(gen_token_pairs(BOUNDS[tier]['pair_distance'])):
            if mine(i):
                c = build_token_case(name, edits, seam)
                if c is not None:
                    check_case(c, acc, TEMPLATES[name]['text'])
    elif sub == 'devfault':
        for i, (name, edits) in enumerate(gen_dev_x_fault()):
            if not mine(i):
                continue
            c = build_token_case(name, edits, 'direct')
            if c is None:
                continue
            _, n = execute(c)
            for k in range(n):
                for code in DISTINGUISHED_CODES:
                    check_case(dict(c, fault=[k, 'CIMError', code]), acc, None)
    elif sub == 'fault2':
        i = 0
        for name in TEMPLATES:
            n = base_calls(name, 'direct')
            for k1 in range(n):
                for c1 in DISTINGUISHED_CODES:
                    i += 1
                    if not mine(i):
                        continue
                    first = tpl_case(name, seam='direct', fault=[k1, 'CIMError', c1])
                    _, n2 = execute(first)
                    for k2 in range(k1 + 1, n2 + 1):
                        for c2 in DISTINGUISHED_CODES:
                            check_case(dict(first, fault2=[k2, 'CIMError', c2]), acc, None)
    else:   # pragma: no cover
        raise HarnessError('unknown shard %r' % (shard,))
    return acc


def replay(case, tier):
    warnings.simplefilter('ignore')
    acc = Acc()
    case = dict(case)
    idx = case.pop('sigidx', None)
    check_case(case, acc, None)
    if idx is not None:
        acc.violations = {k: v for k, v in acc.violations.items()
                          if v['case'].get('sigidx') == idx} or acc.violations
    return acc


def snippet(case):
    return ('import sys; sys.path.insert(0, "/verif")\nimport mc\nfrom checks import c09_mof_total as c\n'
            'def test_replay():\n    acc = c.replay(%r, "quick")\n    assert not acc.violations\n' % (case,))
