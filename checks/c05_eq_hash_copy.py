"""C05 — equality, hashing and copying of CIM objects are lawful (mode E).

Per kind a POOL of objects is built from base specs by applying every single-attribute variation
(thorough: also every commuting pair of representative variations). All ordered pairs of a pool
are evaluated on the real code.

Sub-checks (signature field 'check'):
  eq-laws         a == a; (a == b) == (b == a); a == b => rows of a and b in the == matrix agree
                  (transitivity over every c); ==, != never raise for two objects of one kind
  eq-expected     observed a == b against the reference model of the statement (mc.objspecs.canon):
                  equal if only lexical case of names/host/namespace and child order differ,
                  unequal if any other public attribute differs, no demand where docs are silent
  ne              (a != b) == (not (a == b))
  hash            a == b => hash(a) == hash(b); set / dict membership agrees with ==
  copy-equal      copy(), copy.copy, copy.deepcopy, pickle protocols 0..5: result == original,
                  same hash, public state identical (types, order, lexical case)
  copy-isolation  every single mutation of the copy down to the documented depth leaves the
                  original's public state unchanged
"""
import copy
import hashlib
import itertools
import json
import pickle
import warnings

from pywbem._vendor.nocasedict import NocaseDict as VendorNocaseDict

from mc.core import Acc, HarnessError
from mc import domains as D
from mc import objspecs as O

ID = 'C05'
RULE = ('per kind, a pool = base objects x every single-attribute variation (other value, None vs '
        'default, case variant, numeric Python type, list order, child order / added / removed / '
        'nested attribute), thorough tier x commuting pairs of representative variations; every '
        'ordered pair (and, through the == matrix, every triple) of a pool is evaluated; every '
        'pool object is copied 9 ways and every single mutation of the copy down to the documented '
        'depth is applied. A pair is non-trivial when the reference model demands an answer '
        '(strictly equal or certainly different); pairs that differ only in ways the docs are '
        'silent about (int vs UintN vs real of equal value, str vs Char16, bool vs 1, scopes '
        'order/case, non-simple case mappings such as sz/ss) are law-checked but count as trivial '
        'for the expected value; specs rejected by the pywbem constructors are trivial')
ASSUMPTIONS = [
    'public attributes = the attribute lists of the __eq__ docstrings (mc.objspecs.ATTRS)',
    'classname, name, host, namespace, superclass, class_origin, reference_class are the CIM names '
    'whose case is ignorable; order/key case of keybindings, properties, methods, parameters, '
    'qualifiers (and of NocaseDict itself) is ignorable; everything else distinguishes',
    'copy.copy is documented as completely shallow: only re-assignment of top-level attributes of '
    'the copy is required to leave the original unchanged',
    'copy(): the documented depth is "every mutable attribute value is copied, except the objects '
    'inside the dictionaries"; a mutable value object (embedded instance/class, reference) is an '
    'attribute value',
    'NaN-carrying values are not generated',
]
BOUNDS = {
    'quick': {'variations_per_object': '1 (CIMClassName: 2)', 'nested_depth': 3,
              'pool_sizes': 'InstanceName 112, ClassName 102, Instance 260, Class 284, Property 323, '
                            'Method 130, Parameter 227, Qualifier 90, QualifierDeclaration 96, '
                            'DateTime 59, NocaseDict 56 (1 739 objects, all ordered pairs)',
              'copies': 'every pool object x copy(), copy.copy, copy.deepcopy, pickle protocols 0..5',
              'copy_isolation_objects': 'every base and every single-variation object whose '
                                        'structure (set of mutation positions) is new',
              'mutations': 'every attribute re-assignment, dict add/del/replace/clear/popitem, '
                           'list append/set/del/reverse/clear at every position of the documented depth'},
    'thorough': {'variations_per_object': 2, 'nested_depth': 3,
                 'pool_sizes': 'InstanceName 325, ClassName 102, Instance 418, Class 674, Property 1483, '
                               'Method 359, Parameter 628, Qualifier 437, QualifierDeclaration 569, '
                               'DateTime 59, NocaseDict 86 (5 140 objects, all ordered pairs)',
                 'copies': 'as quick, on every pool object',
                 'copy_isolation_objects': 'every base and every single-variation object',
                 'mutations': 'as quick'},
}

KINDS = ['CIMInstanceName', 'CIMClassName', 'CIMInstance', 'CIMClass', 'CIMProperty', 'CIMMethod',
         'CIMParameter', 'CIMQualifier', 'CIMQualifierDeclaration', 'CIMDateTime', 'NocaseDict']
VIAS = ['copy()', 'copy.copy', 'copy.deepcopy', 'pickle0', 'pickle1', 'pickle2', 'pickle3',
        'pickle4', 'pickle5']
HASH_PARTS = {'quick': 4, 'thorough': 16}
COPY_PARTS = {'quick': 4, 'thorough': 8}
HEAVY = {'CIMClass': 4, 'CIMInstance': 3, 'CIMProperty': 2, 'CIMParameter': 2, 'CIMMethod': 2}   # x parts


# ==========================================================================================
# spec edits

def _get(node, path):
    for p in path:
        node = node[p]
    return node


def apply_edits(spec, edits):
    spec = copy.deepcopy(spec)
    for ed in edits:
        op, path = ed[0], ed[1]
        if op == 'set':
            if not path:
                spec = copy.deepcopy(ed[2])
            else:
                _get(spec, path[:-1])[path[-1]] = copy.deepcopy(ed[2])
        elif op == 'del':
            del _get(spec, path[:-1])[path[-1]]
        elif op == 'ins':
            _get(spec, path).insert(ed[2], copy.deepcopy(ed[3]))
        elif op == 'perm':
            lst = _get(spec, path)
            lst[:] = [lst[i] for i in ed[2]]
        else:
            raise HarnessError('bad edit %r' % (ed,))
    return spec


def V(n, attr, vc, tag, *edits):
    """variation: name, top-level attribute touched, variation class, declared tag
    ('ign' | 'dist' | 'unspec' | None = derive from the reference model), spec edits"""
    return dict(n=n, attr=attr, vc=vc, tag=tag, ed=list(edits))


def prefixed(vs, prefix, attr, label, brief=False):
    """variations of a nested spec, re-rooted at prefix; brief keeps one per (attr, class)"""
    out, seen = [], set()
    for v in vs:
        k = (v['attr'], v['vc'])
        if brief and k in seen:
            continue
        seen.add(k)
        eds = [[e[0], prefix + e[1]] + e[2:] for e in v['ed']]
        out.append(dict(n='%s/%s' % (label, v['n']), attr=attr, vc='nested-' + v['vc'].replace(
            'nested-', ''), tag=v['tag'], ed=eds))
    return out


def recase(s):
    out = []
    for t in (s.upper(), s.lower(), s.swapcase()):
        if t != s and t not in out:
            out.append(t)
    return out


def name_vars(path, attr, cur, optional=False):
    vs = [V('%s=%s' % (attr, t), attr, 'case', 'ign', ['set', path, t]) for t in recase(cur)]
    vs.append(V('%s=%sx' % (attr, cur), attr, 'other', 'dist', ['set', path, cur + 'x']))
    vs.append(V('%s=Zed' % attr, attr, 'other', 'dist', ['set', path, 'Zed']))
    if optional:
        vs.append(V('%s=None' % attr, attr, 'none', 'dist', ['set', path, None]))
    return vs


def flag_vars(path, attr, cur):
    vs = []
    for alt in (True, False, None):
        if alt is not cur:
            vs.append(V('%s=%s' % (attr, alt), attr, 'none' if alt is None or cur is None
                        else 'other', 'dist', ['set', path, alt]))
    return vs


def perms(n):
    if n < 2:
        return []
    if n <= 3:
        return [list(p) for p in itertools.permutations(range(n))][1:]
    ident = list(range(n))
    out = [ident[::-1], ident[1:] + ident[:1], [1, 0] + ident[2:], ident[:-2] + [n - 1, n - 2]]
    res = []
    for p in out:
        if p != ident and p not in res:
            res.append(p)
    return res


def children_vars(path, attr, children, child_vars, new_child, name_idx=1, depth=0):
    """variations of a child list: order, name case, removed, added, renamed, nested attribute"""
    vs = []
    n = len(children)
    for p in perms(n):
        vs.append(V('%s-order%s' % (attr, ''.join(map(str, p))), attr, 'order', 'ign',
                    ['perm', path, p]))
    for i, ch in enumerate(children):
        nm = ch[name_idx]
        for t in recase(nm)[:2]:
            vs.append(V('%s[%s]-name=%s' % (attr, nm, t), attr, 'child-case', 'ign',
                        ['set', path + [i, name_idx], t]))
        vs.append(V('%s[%s]-removed' % (attr, nm), attr, 'child-removed', 'dist',
                    ['del', path + [i]]))
        vs.append(V('%s[%s]-renamed' % (attr, nm), attr, 'child-renamed', 'dist',
                    ['set', path + [i, name_idx], nm + 'x']))
        if child_vars is not None and depth < 3:
            vs.extend(prefixed(child_vars(ch, depth + 1), path + [i], attr, '%s[%s]' % (attr, nm),
                               brief=depth >= 1))
    vs.append(V('%s-added-last' % attr, attr, 'child-added', 'dist', ['ins', path, n, new_child]))
    if n:
        vs.append(V('%s-added-first' % attr, attr, 'child-added', 'dist',
                    ['ins', path, 0, new_child]))
        vs.append(V('%s-order-reversed+case' % attr, attr, 'order+case', 'ign',
                    ['perm', path, list(range(n))[::-1]],
                    *[['set', path + [i, name_idx], children[n - 1 - i][name_idx].swapcase()]
                      for i in range(n)]))
        vs.append(V('%s-all-removed' % attr, attr, 'child-removed', 'dist', ['set', path, []]))
    return vs


# ---- values ------------------------------------------------------------------------------

def value_vars(path, attr, vs_, depth=0, typed=False):
    """variations of a value spec. typed: the owning element converts the value to its CIM type,
    so numeric Python type variations collapse (tags derived)"""
    t = vs_[0]
    out = []

    def add(n, vc, tag, val):
        out.append(V('%s:%s' % (attr, n), attr, vc, tag, ['set', path, val]))
    if t == 's':
        add('other', 'value-other', 'dist', ['s', vs_[1] + 'x'])
        add('swapcase', 'value-case', 'dist', ['s', vs_[1].swapcase()])
        add('empty', 'value-other', 'dist', ['s', ''])
        add('char16', 'value-pytype', None, ['c16', vs_[1]])
        add('null', 'value-null', None, ['n'])
    elif t == 'b':
        add('flip', 'value-other', 'dist', ['b', not vs_[1]])
        add('as-int', 'value-pytype', None, ['i', None, int(vs_[1])])
        add('null', 'value-null', None, ['n'])
    elif t == 'i':
        add('other', 'value-other', 'dist', ['i', vs_[1], vs_[2] + 1])
        for ty in ('uint8', 'uint16', 'sint64', None):
            if ty != vs_[1]:
                add('as-%s' % ty, 'value-pytype', None, ['i', ty, vs_[2]])
        add('as-real32', 'value-pytype', None, ['r', 'real32', float(vs_[2]).hex()])
        add('as-float', 'value-pytype', None, ['r', None, float(vs_[2]).hex()])
        if vs_[2] in (0, 1):
            add('as-bool', 'value-pytype', None, ['b', bool(vs_[2])])
        add('as-str', 'value-kind', None, ['s', str(vs_[2])])
        add('null', 'value-null', None, ['n'])
    elif t == 'r':
        f = float.fromhex(vs_[2])
        add('other', 'value-other', 'dist', ['r', vs_[1], (f + 1.0).hex()])
        add('negated', 'value-other', 'dist', ['r', vs_[1], (-f).hex()])
        for ty in ('real32', 'real64', None):
            if ty != vs_[1]:
                add('as-%s' % ty, 'value-pytype', None, ['r', ty, vs_[2]])
        add('null', 'value-null', None, ['n'])
    elif t == 'dt':
        # other instants only: CIMDateTime's own equality is exercised in its own pool
        add('other', 'value-other', 'dist', ['dt', '20150924193040.654321+120'])
        add('interval', 'value-other', 'dist', ['dt', '00000183132542.234567:000'])
        add('null', 'value-null', None, ['n'])
    elif t == 'a':
        items = vs_[1]
        n = len(items)
        if n > 1:
            add('reversed', 'list-order', 'dist', ['a', items[::-1]])
            add('shorter', 'list-length', 'dist', ['a', items[:-1]])
        if n:
            add('longer', 'list-length', 'dist', ['a', items + [items[0]]])
            add('elem-null', 'list-elem', 'dist', ['a', [['n']] + items[1:]])
            if depth < 3:
                for v in value_vars(path + [1, n - 1], attr, items[n - 1], depth + 1, typed):
                    if v['vc'] != 'value-null':
                        v['n'] = v['n'].replace(':', ':elem-', 1)
                        v['vc'] = 'list-elem-' + v['vc']
                        out.append(v)
        add('empty', 'list-length', 'dist', ['a', []])
        add('null', 'value-null', None, ['n'])
    elif t == 'ipath':
        out.extend(prefixed(ipath_vars(vs_, depth + 1), path, attr, attr + ':ref', brief=depth >= 1))
        add('classpath', 'value-kind', None, ['cpath', vs_[1], vs_[3], vs_[4]])
        add('null', 'value-null', None, ['n'])
    elif t == 'inst':
        out.extend(prefixed(inst_vars(vs_, depth + 1), path, attr, attr + ':emb', brief=True))
        add('null', 'value-null', None, ['n'])
    elif t == 'class':
        out.extend(prefixed(class_vars(vs_, depth + 1), path, attr, attr + ':embc', brief=True))
        add('null', 'value-null', None, ['n'])
    return out


# ---- element kinds -----------------------------------------------------------------------

U1, U2 = ['i', 'uint8', 1], ['i', 'uint8', 2]
Q_KEY = ['qual', 'Key', ['b', True], {'overridable': False, 'tosubclass': True}]
Q_DESC = ['qual', 'Description', ['s', 'Some text'], {'translatable': True}]
Q_NEW = ['qual', 'NewQ', ['s', 'n'], {}]
Q_FULL = ['qual', 'Q1', ['a', [['s', 'x'], ['s', 'y']]],
          {'type': 'string', 'propagated': False, 'overridable': True, 'tosubclass': True,
           'toinstance': False, 'translatable': True}]
Q_NUM = ['qual', 'MaxLen', ['i', 'uint32', 5], {}]
Q_BOOL = ['qual', 'Key', ['b', True], {}]

IPATH_IN = ['ipath', 'Bar', [['x', ['i', None, 1]], ['Y', ['s', 'z']]], 'ns1', 'h1']
IPATH = ['ipath', 'Foo', [['K1', ['s', 'v']], ['k2', ['i', 'uint8', 5]], ['Ref', IPATH_IN]],
         'root/cimv2', 'Host1:5988']
IPATH_UNI = ['ipath', 'Stra\u00dfe', [['\u00dcn\u00ef', ['s', 'v']]], 'n\u00df', 'h']
CPATH = ['cpath', 'Foo', 'root/cimv2', 'Host1:5988']

EMB = ['inst', 'Emb', [['prop', 'e1', ['s', 'x'], {}], ['prop', 'E2', ['i', 'uint8', 3], {}]], None, {}]
EMBC = ['class', 'EmbC', [['prop', 'c1', ['s', 'x'], {}]], [], {}]
PROP_S = ['prop', 'P1', ['s', 'abc'], {}]
PROP_A = ['prop', 'p2', ['a', [U1, U2]],
          {'type': 'uint8', 'class_origin': 'Orig', 'array_size': 2, 'propagated': False,
           'is_array': True, 'qualifiers': [Q_KEY, Q_DESC]}]
PROP_E = ['prop', 'E3', EMB, {}]
PROP_R = ['prop', 'R4', IPATH_IN, {'reference_class': 'Bar'}]
PROP_D = ['prop', 'D5', ['dt', '20140924193040.654321+120'], {}]
PROP_F = ['prop', 'F6', ['r', 'real32', (1.5).hex()], {}]
PROP_C = ['prop', 'C7', EMBC, {}]
PROP_B = ['prop', 'B8', ['b', True], {}]
PROP_EA = ['prop', 'EA9', ['a', [EMB]], {}]
PROP_NEW = ['prop', 'NewP', ['s', 'n'], {}]

PARAM_A = ['param', 'P1', 'uint8', {'is_array': True, 'array_size': 2,
                                    'qualifiers': [Q_KEY, Q_DESC], 'value': ['a', [U1, U2]]}]
PARAM_R = ['param', 'R2', 'reference', {'reference_class': 'Bar', 'value': IPATH_IN}]
PARAM_E = ['param', 'E3', 'string', {'value': EMB}]
PARAM_S = ['param', 's4', 'string', {}]
PARAM_D = ['param', 'P1', 'uint8', {'is_array': True, 'array_size': 2, 'qualifiers': [Q_KEY, Q_DESC]}]
PARAM_RD = ['param', 'R2', 'reference', {'reference_class': 'Bar'}]
PARAM_NEW = ['param', 'NewPar', 'boolean', {}]

METH = ['meth', 'M1', 'uint32', [PARAM_D, PARAM_RD, PARAM_S],
        {'class_origin': 'Orig', 'propagated': False, 'qualifiers': [Q_DESC, Q_KEY]}]
METH2 = ['meth', 'm2', 'string', [], {}]
METH_NEW = ['meth', 'NewM', 'boolean', [], {}]

INST = ['inst', 'Foo', [PROP_S, PROP_A, PROP_E, PROP_R], IPATH, {'qualifiers': [Q_KEY, Q_DESC]}]
INST_MIN = ['inst', 'Foo', [], None, {}]
CLASS = ['class', 'Foo', [PROP_S, PROP_A, PROP_R], [METH, METH2],
         {'superclass': 'Sup', 'qualifiers': [Q_DESC, Q_KEY], 'path': CPATH}]
CLASS_MIN = ['class', 'Foo', [], [], {}]

QDECL = ['qdecl', 'Q1', 'string',
         {'value': ['a', [['s', 'x'], ['s', 'y']]], 'is_array': True, 'array_size': 2,
          'scopes': [['CLASS', True], ['PROPERTY', True], ['METHOD', False]],
          'overridable': True, 'tosubclass': False, 'toinstance': False, 'translatable': True}]
QDECL_NUM = ['qdecl', 'MaxLen', 'uint32', {'value': ['i', 'uint32', 5]}]


def kw_name_vars(spec, kwi, key, optional=True):
    cur = spec[kwi].get(key)
    if cur is None:
        return [V('%s=Zed' % key, key, 'none', 'dist', ['set', [kwi, key], 'Zed'])]
    return name_vars([kwi, key], key, cur, optional)


def quals_vars(spec, kwi, depth):
    qs = spec[kwi].get('qualifiers')
    if qs is None:
        return [V('qualifiers-added', 'qualifiers', 'child-added', 'dist',
                  ['set', [kwi, 'qualifiers'], [Q_NEW]]),
                V('qualifiers=[]', 'qualifiers', 'default', 'ign', ['set', [kwi, 'qualifiers'], []])]
    vs = children_vars([kwi, 'qualifiers'], 'qualifiers', qs, qual_vars, Q_NEW, depth=depth)
    vs.append(V('qualifiers=None', 'qualifiers', 'none', 'dist', ['set', [kwi, 'qualifiers'], None]))
    return vs


def qual_vars(spec, depth=0):
    kw = spec[3]
    vs = name_vars([1], 'name', spec[1])
    vs += value_vars([2], 'value', spec[2], depth, typed=True)
    cur_t = kw.get('type')
    if cur_t is None:
        vs.append(V('type=explicit', 'type', 'default', None, ['set', [3, 'type'],
                                                               _inferred_type(spec[2])]))
    alt = {'string': 'char16', 'uint32': 'uint16', 'boolean': 'string'}.get(
        cur_t or _inferred_type(spec[2]), 'string')
    vs.append(V('type=%s' % alt, 'type', 'other', None, ['set', [3, 'type'], alt]))
    for f in ('propagated', 'overridable', 'tosubclass', 'toinstance', 'translatable'):
        vs += flag_vars([3, f], f, kw.get(f))
    return vs


def _inferred_type(vspec):
    t = vspec[0]
    if t == 'a':
        return _inferred_type(vspec[1][0])
    return {'s': 'string', 'b': 'boolean', 'dt': 'datetime', 'c16': 'char16', 'ipath': 'reference',
            'inst': 'string', 'class': 'string'}.get(t) or vspec[1]


def prop_vars(spec, depth=0):
    kw = spec[3]
    vs = name_vars([1], 'name', spec[1])
    vs += value_vars([2], 'value', spec[2], depth, typed=True)
    it = kw.get('type') or _inferred_type(spec[2])
    if kw.get('type') is None:
        vs.append(V('type=explicit', 'type', 'default', None, ['set', [3, 'type'], it]))
    alt = {'string': 'char16', 'uint8': 'uint16', 'real32': 'real64', 'boolean': 'string',
           'datetime': 'string', 'reference': 'string'}.get(it, 'string')
    vs.append(V('type=%s' % alt, 'type', 'other', None, ['set', [3, 'type'], alt]))
    vs += kw_name_vars(spec, 3, 'class_origin')
    if spec[2][0] == 'ipath' or 'reference_class' in kw:
        vs += kw_name_vars(spec, 3, 'reference_class')
    cur = kw.get('array_size')
    for alt in (2, 3, None):
        if alt != cur:
            vs.append(V('array_size=%s' % alt, 'array_size', 'none' if None in (alt, cur) else
                        'other', 'dist', ['set', [3, 'array_size'], alt]))
    vs += flag_vars([3, 'propagated'], 'propagated', kw.get('propagated'))
    isarr = spec[2][0] == 'a'
    if kw.get('is_array') is None:
        vs.append(V('is_array=explicit', 'is_array', 'default', 'ign', ['set', [3, 'is_array'], isarr]))
    vs.append(V('is_array=flipped', 'is_array', 'other', None, ['set', [3, 'is_array'], not isarr]))
    vs.append(V('is_array=flipped+null', 'is_array', 'other', None,
                ['set', [3, 'is_array'], not isarr], ['set', [2], ['n']], ['set', [3, 'type'], it]))
    emb = {'inst': 'instance', 'class': 'object'}.get((spec[2][1][0] if isarr and spec[2][1]
                                                        else spec[2])[0])
    if emb:
        vs.append(V('embedded_object=explicit', 'embedded_object', 'default', 'ign',
                    ['set', [3, 'embedded_object'], emb]))
        if emb == 'instance':
            vs.append(V('embedded_object=object', 'embedded_object', 'other', 'dist',
                        ['set', [3, 'embedded_object'], 'object']))
        vs.append(V('value=other-embedded-kind', 'value', 'value-kind', 'dist',
                    ['set', [2], EMBC if emb == 'instance' else EMB],
                    ['set', [3, 'embedded_object'], 'object']))
        vs.append(V('value=plain-string', 'value', 'value-kind', 'dist', ['set', [2], ['s', 'abc']]))
        vs.append(V('value=null-embedded', 'value', 'value-null', 'dist', ['set', [2], ['n']],
                    ['set', [3, 'type'], 'string'], ['set', [3, 'embedded_object'], emb]))
    else:
        vs.append(V('embedded_object=False', 'embedded_object', 'default', 'ign',
                    ['set', [3, 'embedded_object'], False]))
        if it == 'string' and not isarr:
            vs.append(V('value=null+embedded_object', 'embedded_object', 'other', 'dist',
                        ['set', [2], ['n']], ['set', [3, 'type'], 'string'],
                        ['set', [3, 'embedded_object'], 'instance']))
    vs += quals_vars(spec, 3, depth)
    return vs


def param_vars(spec, depth=0):
    kw = spec[3]
    vs = name_vars([1], 'name', spec[1])
    alt = {'string': 'char16', 'uint8': 'uint16', 'reference': 'string', 'boolean': 'string'}.get(
        spec[2], 'string')
    vs.append(V('type=%s' % alt, 'type', 'other', None, ['set', [2], alt]))
    if spec[2] == 'reference' or 'reference_class' in kw:
        vs += kw_name_vars(spec, 3, 'reference_class')
    val = kw.get('value')
    isarr = bool(kw.get('is_array'))
    if kw.get('is_array') is None:
        vs.append(V('is_array=explicit', 'is_array', 'default', 'ign',
                    ['set', [3, 'is_array'], bool(val and val[0] == 'a')]))
    if val is None:
        vs.append(V('is_array=flipped', 'is_array', 'other', 'dist', ['set', [3, 'is_array'], not isarr]))
    cur = kw.get('array_size')
    for a in (2, 3, None):
        if a != cur:
            vs.append(V('array_size=%s' % a, 'array_size', 'none' if None in (a, cur) else 'other',
                        'dist', ['set', [3, 'array_size'], a]))
    if val is not None:
        vs += value_vars([3, 'value'], 'value', val, depth, typed=True)
        emb = {'inst': 'instance', 'class': 'object'}.get(val[0])
        if emb:
            vs.append(V('embedded_object=explicit', 'embedded_object', 'default', 'ign',
                        ['set', [3, 'embedded_object'], emb]))
            vs.append(V('embedded_object=object', 'embedded_object', 'other', 'dist',
                        ['set', [3, 'embedded_object'], 'object']))
            vs.append(V('value=other-embedded-kind', 'value', 'value-kind', 'dist',
                        ['set', [3, 'value'], EMBC], ['set', [3, 'embedded_object'], 'object']))
            vs.append(V('value=plain-string', 'value', 'value-kind', 'dist',
                        ['set', [3, 'value'], ['s', 'abc']]))
    else:
        v0 = {'uint8': U1, 'string': ['s', 'abc'], 'boolean': ['b', True]}.get(spec[2])
        if v0 and not isarr:
            vs.append(V('value=set', 'value', 'value-null', 'dist', ['set', [3, 'value'], v0]))
        if spec[2] == 'string' and not isarr:
            vs.append(V('embedded_object=instance', 'embedded_object', 'other', 'dist',
                        ['set', [3, 'embedded_object'], 'instance']))
        vs.append(V('embedded_object=False', 'embedded_object', 'default', 'ign',
                    ['set', [3, 'embedded_object'], False]))
    vs += quals_vars(spec, 3, depth)
    return vs


def meth_vars(spec, depth=0):
    vs = name_vars([1], 'name', spec[1])
    for alt in ('uint8', 'string'):
        if alt != spec[2]:
            vs.append(V('return_type=%s' % alt, 'return_type', 'other', 'dist', ['set', [2], alt]))
    vs += children_vars([3], 'parameters', spec[3], param_vars, PARAM_NEW, depth=depth)
    vs += kw_name_vars(spec, 4, 'class_origin')
    vs += flag_vars([4, 'propagated'], 'propagated', spec[4].get('propagated'))
    vs += quals_vars(spec, 4, depth)
    return vs


def ipath_vars(spec, depth=0):
    vs = name_vars([1], 'classname', spec[1])
    kbs = spec[2] or []
    vs += children_vars([2], 'keybindings', kbs, None, ['newkey', ['s', 'n']], name_idx=0)
    for i, (k, v) in enumerate(kbs):
        vs += value_vars([2, i, 1], 'keybindings', v, depth)
    vs.append(V('keybindings=None', 'keybindings', 'none', None, ['set', [2], None]))
    if depth == 0:
        vs.append(V('keybindings-unnamed-key-added', 'keybindings', 'child-added', 'dist',
                    ['ins', [2], len(kbs), [None, ['s', 'u']]]))
    vs += _ns_host_vars(3, 4, spec)
    return vs


def _ns_host_vars(nsi, hi, spec):
    vs = []
    ns, host = spec[nsi], spec[hi]
    if ns is None:
        vs.append(V('namespace=a', 'namespace', 'none', 'dist', ['set', [nsi], 'a']))
    else:
        vs += name_vars([nsi], 'namespace', ns, optional=True)
        vs.append(V('namespace=/ns/', 'namespace', 'slashes', 'ign', ['set', [nsi], '/%s/' % ns]))
        vs.append(V('namespace=empty', 'namespace', 'other', 'dist', ['set', [nsi], '']))
    if host is None:
        vs.append(V('host=h', 'host', 'none', 'dist', ['set', [hi], 'h']))
    else:
        vs += name_vars([hi], 'host', host, optional=True)
        vs.append(V('host=empty', 'host', 'other', 'dist', ['set', [hi], '']))
    return vs


def cpath_vars(spec, depth=0):
    return name_vars([1], 'classname', spec[1]) + _ns_host_vars(2, 3, spec)


def inst_vars(spec, depth=0):
    vs = name_vars([1], 'classname', spec[1])
    vs += children_vars([2], 'properties', spec[2], prop_vars, PROP_NEW, depth=depth)
    if spec[3] is None:
        vs.append(V('path=set', 'path', 'none', 'dist', ['set', [3], ['ipath', spec[1], [], None, None]]))
    else:
        vs += prefixed(ipath_vars(spec[3], depth + 1), [3], 'path', 'path', brief=depth >= 1)
        vs.append(V('path=None', 'path', 'none', 'dist', ['set', [3], None]))
        if depth == 0:
            k, v = spec[3][2][0]
            n = len(spec[2])
            vs.append(V('properties-added-key-property-same-value', 'properties', 'child-added',
                        'dist', ['ins', [2], n, ['prop', k, v, {}]]))
            vs.append(V('properties-added-key-property-other-value', 'properties', 'child-added',
                        'dist', ['ins', [2], n, ['prop', k, ['s', 'other'], {}]]))
    vs += quals_vars(spec, 4, depth)
    return vs


def class_vars(spec, depth=0):
    vs = name_vars([1], 'classname', spec[1])
    vs += kw_name_vars(spec, 4, 'superclass')
    vs += children_vars([2], 'properties', spec[2], prop_vars, PROP_NEW, depth=depth)
    vs += children_vars([3], 'methods', spec[3], meth_vars, METH_NEW, depth=depth)
    if spec[4].get('path') is None:
        vs.append(V('path=set', 'path', 'none', 'dist', ['set', [4, 'path'], ['cpath', spec[1], None, None]]))
    else:
        vs += prefixed(cpath_vars(spec[4]['path']), [4, 'path'], 'path', 'path')
        vs.append(V('path=None', 'path', 'none', 'dist', ['set', [4, 'path'], None]))
    vs += quals_vars(spec, 4, depth)
    return vs


def qdecl_vars(spec, depth=0):
    kw = spec[3]
    vs = name_vars([1], 'name', spec[1])
    alt = {'string': 'char16', 'uint32': 'uint16'}.get(spec[2], 'string')
    vs.append(V('type=%s' % alt, 'type', 'other', None, ['set', [2], alt]))
    val = kw.get('value')
    if val is not None:
        vs += value_vars([3, 'value'], 'value', val, depth, typed=True)
    isarr = bool(kw.get('is_array'))
    vs.append(V('is_array=flipped+null', 'is_array', 'other', 'dist',
                ['set', [3, 'is_array'], not isarr], ['set', [3, 'value'], ['n']]))
    if 'is_array' not in kw:
        vs.append(V('is_array=explicit', 'is_array', 'default', 'ign', ['set', [3, 'is_array'], False]))
        vs.append(V('is_array=None', 'is_array', 'default', 'ign', ['set', [3, 'is_array'], None]))
    cur = kw.get('array_size')
    for a in (2, 3, None):
        if a != cur:
            vs.append(V('array_size=%s' % a, 'array_size', 'none' if None in (a, cur) else 'other',
                        'dist', ['set', [3, 'array_size'], a]))
    sc = kw.get('scopes')
    if sc:
        n = len(sc)
        for p in perms(n):
            vs.append(V('scopes-order%s' % ''.join(map(str, p)), 'scopes', 'scopes-order', 'unspec',
                        ['perm', [3, 'scopes'], p]))
        for i, (k, b) in enumerate(sc):
            vs.append(V('scopes[%s]-lowercase' % k, 'scopes', 'scopes-case', 'unspec',
                        ['set', [3, 'scopes', i, 0], k.lower()]))
            vs.append(V('scopes[%s]-flipped' % k, 'scopes', 'scope-value', 'dist',
                        ['set', [3, 'scopes', i, 1], not b]))
            vs.append(V('scopes[%s]-removed' % k, 'scopes', 'scope-removed', 'dist',
                        ['del', [3, 'scopes', i]]))
        vs.append(V('scopes-added', 'scopes', 'scope-added', 'dist',
                    ['ins', [3, 'scopes'], n, ['ANY', True]]))
        vs.append(V('scopes-added-false', 'scopes', 'scope-added', 'dist',
                    ['ins', [3, 'scopes'], n, ['ANY', False]]))
        vs.append(V('scopes=None', 'scopes', 'none', 'dist', ['set', [3, 'scopes'], None]))
    else:
        vs.append(V('scopes-added', 'scopes', 'scope-added', 'dist',
                    ['set', [3, 'scopes'], [['ANY', True]]]))
        vs.append(V('scopes=[]', 'scopes', 'default', 'ign', ['set', [3, 'scopes'], []]))
    for f in ('overridable', 'tosubclass', 'toinstance', 'translatable'):
        vs += flag_vars([3, f], f, kw.get(f))
    return vs


# ---- CIMDateTime -------------------------------------------------------------------------

def datetime_pool():
    """(spec, name, attr, varclass); variations are relative to the first entry of each family"""
    out = []

    def fam(base, items):
        out.append((['dt', base], 'base', '', 'base', []))
        for n, attr, vc, spec in items:
            out.append((spec, n, attr, vc, [n]))
    fam('20140924193040.654321+120', [
        ('year+1', 'datetime', 'other', ['dt', '20150924193040.654321+120']),
        ('month+1', 'datetime', 'other', ['dt', '20141024193040.654321+120']),
        ('day+1', 'datetime', 'other', ['dt', '20140925193040.654321+120']),
        ('hour+1', 'datetime', 'other', ['dt', '20140924203040.654321+120']),
        ('minute+1', 'datetime', 'other', ['dt', '20140924193140.654321+120']),
        ('second+1', 'datetime', 'other', ['dt', '20140924193041.654321+120']),
        ('usec+1', 'datetime', 'other', ['dt', '20140924193040.654322+120']),
        ('offset-other-same-wallclock', 'datetime', 'other', ['dt', '20140924193040.654321+060']),
        ('offset-negated', 'datetime', 'other', ['dt', '20140924193040.654321-120']),
        ('same-instant-offset+060', 'minutes_from_utc', 'same-instant', ['dt', '20140924183040.654321+060']),
        ('same-instant-offset+000', 'minutes_from_utc', 'same-instant', ['dt', '20140924173040.654321+000']),
        ('same-instant-offset-300', 'minutes_from_utc', 'same-instant', ['dt', '20140924123040.654321-300']),
        ('from-aware-datetime', '', 'constructor-form', ['dtd', [2014, 9, 24, 19, 30, 40, 654321], 120]),
        ('from-timezone-datetime', '', 'constructor-form', ['dtd', [2014, 9, 24, 19, 30, 40, 654321], 'tz:120']),
        ('from-naive-datetime', 'minutes_from_utc', 'same-wallclock-utc', ['dtd', [2014, 9, 24, 19, 30, 40, 654321], None]),
        ('interval', 'is_interval', 'other', ['dt', '00000183132542.234567:000']),
    ])
    z = '20140101000000.000000+000'
    items = [('from-naive-datetime', '', 'constructor-form', ['dtd', [2014, 1, 1, 0, 0, 0, 0], None]),
             ('from-utc-datetime', '', 'constructor-form', ['dtd', [2014, 1, 1, 0, 0, 0, 0], 0])]
    for p in (20, 19, 18, 17, 16, 15, 12, 10, 8, 6, 4, 0):
        s = z[:p] + ''.join('*' if c.isdigit() else c for c in z[p:21]) + z[21:]
        items.append(('precision=%d' % p, 'precision', 'precision', ['dt', s]))
    items.append(('precision=18-other-value', 'datetime', 'other', ['dt', '20140101000000.001***+000']))
    items.append(('offset+001-same-wallclock', 'datetime', 'other', ['dt', '20140101000000.000000+001']))
    items.append(('same-instant-offset+001', 'minutes_from_utc', 'same-instant', ['dt', '20140101000100.000000+001']))
    items.append(('same-instant-offset-001', 'minutes_from_utc', 'same-instant', ['dt', '20131231235900.000000-001']))
    fam(z, items)
    iv = '00000183132542.234000:000'
    items = [('from-timedelta', '', 'constructor-form', ['dti', 183, 13 * 3600 + 25 * 60 + 42, 234000]),
             ('days+1', 'timedelta', 'other', ['dt', '00000184132542.234000:000']),
             ('hours+1', 'timedelta', 'other', ['dt', '00000183142542.234000:000']),
             ('minutes+1', 'timedelta', 'other', ['dt', '00000183132642.234000:000']),
             ('seconds+1', 'timedelta', 'other', ['dt', '00000183132543.234000:000']),
             ('usec+1', 'timedelta', 'other', ['dt', '00000183132542.234001:000']),
             ('zero', 'timedelta', 'other', ['dt', '00000000000000.000000:000']),
             ('max', 'timedelta', 'other', ['dt', '99999999235959.999999:000']),
             ('precision=18', 'precision', 'precision', ['dt', '00000183132542.234***:000']),
             ('hours-overflow-normalised', '', 'constructor-form', ['dti', 182, 37 * 3600 + 25 * 60 + 42, 234000])]
    fam(iv, items)
    z2 = '00000001000000.000000:000'
    items = []
    for p in (20, 15, 12, 10, 8):
        s = z2[:p] + ''.join('*' if c.isdigit() else c for c in z2[p:21]) + z2[21:]
        items.append(('precision=%d' % p, 'precision', 'precision', ['dt', s]))
    items.append(('timestamp-same-digits', 'is_interval', 'other', ['dt', '00010101000000.000000+000']))
    fam(z2, items)
    for s in D.DATETIMES + D.INTERVALS:
        out.append((['dt', s], 'lattice:' + s, 'datetime', 'other', ['lattice:' + s]))
    return out


# ---- NocaseDict ---------------------------------------------------------------------------

NCD = ['ncd', [['Alpha', ['i', None, 1]], ['beta', ['s', 'x']], ['Gamma', Q_KEY]]]
NCD_UNI = ['ncd', [['Stra\u00dfe', ['i', None, 1]], ['\u00dcn\u00ef', ['s', 'x']]]]


def ncd_vars(spec, depth=0):
    items = spec[1]
    vs = children_vars([1], '<keys>', items, None, ['newkey', ['s', 'n']], name_idx=0)
    for i, (k, v) in enumerate(items):
        if v[0] == 'qual':
            vs += prefixed(qual_vars(v, 1), [1, i, 1], '<value>', '[%s]' % k, brief=True)
        else:
            vs += value_vars([1, i, 1], '<value>', v, depth)
    vs.append(V('empty', '<keys>', 'child-removed', 'dist', ['set', [1], []]))
    return vs


def uni_vars(spec):
    """non-simple case mappings: law-checked, expected value mostly unspecified (tags derived)"""
    vs = []
    if spec[0] == 'ipath':
        vs.append(V('classname=STRASSE', 'classname', 'case-special', 'unspec', ['set', [1], 'STRASSE']))
        vs.append(V('classname=STRA\u00dfE', 'classname', 'case', 'ign', ['set', [1], 'STRA\u00dfE']))
        vs.append(V('classname=\u017ftra\u00dfe', 'classname', 'case-special', None, ['set', [1], '\u017ftra\u00dfe']))
        vs.append(V('classname=other', 'classname', 'other', 'dist', ['set', [1], 'Strase']))
        vs.append(V('key=\u00dcN\u00cf', 'keybindings', 'child-case', 'ign', ['set', [2, 0, 0], '\u00dcN\u00cf']))
        vs.append(V('key=decomposed', 'keybindings', 'child-renamed', 'dist', ['set', [2, 0, 0], 'U\u0308ni\u0308']))
        vs.append(V('namespace=NSS', 'namespace', 'case-special', 'unspec', ['set', [3], 'NSS']))
        vs.append(V('namespace=N\u1e9e', 'namespace', 'case-special', None, ['set', [3], 'N\u1e9e']))
        vs.append(V('host=H', 'host', 'case', 'ign', ['set', [4], 'H']))
    else:
        vs.append(V('key=STRASSE', '<keys>', 'case-special', 'unspec', ['set', [1, 0, 0], 'STRASSE']))
        vs.append(V('key=strasse', '<keys>', 'case-special', 'unspec', ['set', [1, 0, 0], 'strasse']))
        vs.append(V('key=STRA\u00dfE', '<keys>', 'child-case', 'ign', ['set', [1, 0, 0], 'STRA\u00dfE']))
        vs.append(V('key=\u00dcN\u00cf', '<keys>', 'child-case', 'ign', ['set', [1, 1, 0], '\u00dcN\u00cf']))
        vs.append(V('key=decomposed', '<keys>', 'child-renamed', 'dist', ['set', [1, 1, 0], 'U\u0308ni\u0308']))
        vs.append(V('key-order', '<keys>', 'order', 'ign', ['perm', [1], [1, 0]]))
    return vs


# ==========================================================================================
# pools

FAMILIES = {
    'CIMInstanceName': [(IPATH, ipath_vars), (IPATH_UNI, uni_vars),
                        (['ipath', 'Foo', [], None, None], ipath_vars)],
    'CIMClassName': [(CPATH, cpath_vars), (['cpath', 'Foo', None, None], cpath_vars),
                     (['cpath', '\u00dcn\u00ef', 'a/B', '[fe80::1-eth0]:5989'], cpath_vars)],
    'CIMInstance': [(INST, inst_vars), (INST_MIN, inst_vars)],
    'CIMClass': [(CLASS, class_vars), (CLASS_MIN, class_vars)],
    'CIMProperty': [(PROP_A, prop_vars), (PROP_S, prop_vars), (PROP_E, prop_vars),
                    (PROP_R, prop_vars), (PROP_D, prop_vars), (PROP_F, prop_vars),
                    (PROP_C, prop_vars), (PROP_B, prop_vars), (PROP_EA, prop_vars)],
    'CIMMethod': [(METH, meth_vars), (METH2, meth_vars)],
    'CIMParameter': [(PARAM_A, param_vars), (PARAM_R, param_vars), (PARAM_E, param_vars),
                     (PARAM_S, param_vars), (PARAM_D, param_vars)],
    'CIMQualifier': [(Q_FULL, qual_vars), (Q_NUM, qual_vars), (Q_BOOL, qual_vars), (Q_DESC, qual_vars)],
    'CIMQualifierDeclaration': [(QDECL, qdecl_vars), (QDECL_NUM, qdecl_vars),
                                (['qdecl', 'Key', 'boolean', {}], qdecl_vars)],
    'NocaseDict': [(NCD, ncd_vars), (NCD_UNI, uni_vars), (['ncd', []], ncd_vars),
                   (['ncdk', [Q_KEY, Q_DESC]], None)],
}

_POOLS = {}


def commute(v1, v2):
    """two variations may be combined if no edit path of one is a prefix of one of the other"""
    for e1 in v1['ed']:
        for e2 in v2['ed']:
            p1, p2 = e1[1], e2[1]
            if e1[0] in ('del', 'ins') or e2[0] in ('del', 'ins') or e1[0] == 'perm' or e2[0] == 'perm':
                # structural edits shift indexes: only combine with edits outside that list
                q1 = p1[:-1] if e1[0] == 'del' else p1
                q2 = p2[:-1] if e2[0] == 'del' else p2
                m = min(len(q1), len(q2))
                if q1[:m] == q2[:m]:
                    return False
            m = min(len(p1), len(p2))
            if p1[:m] == p2[:m]:
                return False
    return True


def pool(kind, tier):
    """list of entries dict(spec, obj, fam, vars=[names], attrs, vcs, tags); deterministic"""
    key = (kind, tier)
    if key in _POOLS:
        return _POOLS[key]
    entries, seen = [], set()

    def add(spec, fam, names, attrs, vcs, tag=None):
        k = json.dumps(spec, sort_keys=False, ensure_ascii=True)
        if k in seen:
            return
        seen.add(k)
        try:
            with warnings.catch_warnings():
                warnings.simplefilter('ignore')
                obj = O.build(spec)
        except (ValueError, TypeError):
            entries.append(dict(spec=spec, obj=None, fam=fam, vars=names, attrs=attrs, vcs=vcs,
                                tag=tag))
            return
        if O.has_nan(obj):
            raise HarnessError('NaN in pool')
        entries.append(mk_entry(spec, obj, fam, names, attrs, vcs, tag))

    if kind == 'CIMDateTime':
        fam = -1
        for spec, n, attr, vc, names in datetime_pool():
            if n == 'base':
                fam += 1
            add(spec, fam, names, [attr] if attr else [], [vc])
    else:
        for fam, (base, gen) in enumerate(FAMILIES[kind]):
            add(base, fam, [], [], ['base'])
            vs = gen(base) if gen else []
            for v in vs:
                add(apply_edits(base, v['ed']), fam, [v['n']], [v['attr']], [v['vc']], v['tag'])
            if tier == 'thorough' or kind in ('CIMClassName',):
                reps, seenk = [], set()
                for v in vs:
                    # one representative per (attribute, variation class); nested variations
                    # are grouped by their declared tag
                    k = (v['attr'], v['vc'] if not v['vc'].startswith('nested-')
                         else 'nested:%s' % v['tag'])
                    if k not in seenk:
                        seenk.add(k)
                        reps.append(v)
                for v1, v2 in itertools.combinations(reps, 2):
                    if commute(v1, v2):
                        add(apply_edits(base, v1['ed'] + v2['ed']), fam, [v1['n'], v2['n']],
                            [v1['attr'], v2['attr']], [v1['vc'], v2['vc']])
    built = [e for e in entries if e['obj'] is not None]
    rejected = len(entries) - len(built)
    _check_tags(kind, built)
    _POOLS[key] = (built, rejected)
    return _POOLS[key]


def mk_entry(spec, obj, fam=0, names=(), attrs=(), vcs=(), tag=None):
    k = hashlib.sha1(json.dumps(spec, ensure_ascii=True).encode()).hexdigest()[:16]
    return dict(spec=spec, obj=obj, fam=fam, vars=list(names), attrs=list(attrs), vcs=list(vcs),
                tag=tag, k=k, cs=O.canon(obj, False), cl=O.canon(obj, True))


def _check_tags(kind, built):
    """harness self-check: a declared tag must agree with the reference model (base vs variant)"""
    bases = {}
    for e in built:
        if not e['vars']:
            bases[e['fam']] = e
    for e in built:
        if len(e['vars']) != 1 or e.get('tag') is None or e['fam'] not in bases:
            e['dtag'] = None
            continue
        b = bases[e['fam']]
        e['dtag'] = relation(b, e)
        want = {'ign': 'same', 'dist': 'different', 'unspec': 'unspecified'}[e['tag']]
        if e['dtag'] != want:
            raise HarnessError('%s: variation %s declared %s but the reference model says %s' %
                               (kind, e['vars'], e['tag'], e['dtag']))


def relation(ea, eb):
    """'same' (must compare equal), 'different' (must compare unequal), 'unspecified'"""
    if ea['cs'] == eb['cs']:
        if ea['cl'] != eb['cl']:
            raise HarnessError('reference model: strict-equal but loose-different')
        return 'same'
    if ea['cl'] != eb['cl']:
        return 'different'
    return 'unspecified'


# ==========================================================================================
# pair laws

def safe(fn):
    """-> (value, None) or (None, exception class name) for exceptions raised by pywbem"""
    try:
        return fn(), None
    except HarnessError:
        raise
    except Exception as exc:  # noqa: every exception out of ==, !=, hash is a finding
        return None, type(exc).__name__


def raising_attrs(kind, a, b):
    """public attributes whose own comparison raises (cause of an exception out of a == b)"""
    out = []
    for at in O.ATTRS.get(kind, []):
        va, vb = getattr(a, at), getattr(b, at)
        if va is None or vb is None:
            continue
        if safe(lambda: va == vb)[1]:
            out.append(at)
    return out


def lex_attrs(kind, a, b):
    """top-level public attributes whose exact public state differs"""
    if kind in ('NocaseDict', 'CIMDateTime') or type(a) is not type(b):
        return ['<items>'] if O.dump(a) != O.dump(b) else []
    return [at for at in O.ATTRS[kind] if O.dump(getattr(a, at)) != O.dump(getattr(b, at))]


def attr_class(attrs):
    out = set()
    for at in attrs:
        out.add('name-attr' if at in O.NAME_ATTRS else
                'child-collection' if at in O.DICT_ATTRS or at == '<items>' else at)
    return '+'.join(sorted(out)) or '<none>'


def var_class(ea, eb):
    vcs = set(ea['vcs']) ^ set(eb['vcs']) if ea['fam'] == eb['fam'] else set(ea['vcs']) | set(eb['vcs'])
    out = set()
    for vc in vcs - {'base'}:
        vc = vc.replace('nested-', '').replace('list-elem-', '')
        out.add('case' if 'case' in vc and 'special' not in vc and vc != 'value-case' else
                'order' if vc == 'order' else vc)
    return '+'.join(sorted(out)) or '<none>'


def pair_sig_fields(kind, a, b):
    d = O.top_diff(a, b, True) or O.top_diff(a, b, False)
    return dict(kind=kind, attr='+'.join(d) or '<none>')


def pair_case(kind, ea, eb, law, ec=None):
    c = dict(check='pair', kind=kind, law=law, a=ea['spec'], b=eb['spec'],
             va=ea.get('vars', []), vb=eb.get('vars', []))
    if ec is not None:
        c['c'] = ec['spec']
    return c


def check_pair_eq(kind, ea, eb, acc, laws=('eq',)):
    """all laws that involve exactly the ordered pair (a, b); returns observed a == b (or None)"""
    a, b = ea['obj'], eb['obj']
    same_obj = a is b
    ab, exc = safe(lambda: a == b)
    calls = 1
    if exc or not isinstance(ab, bool):
        what = 'eq-raises:%s' % exc if exc else 'eq-returns:%s' % type(ab).__name__
        acc.case(('eq', kind, ea['k'], eb['k']), outcome='eq:' + what, calls=1)
        ra = raising_attrs(kind, a, b) if exc else []
        acc.violation(dict(check='eq-laws', what=what, kind=kind,
                           attr='+'.join(ra) or pair_sig_fields(kind, a, b)['attr']),
                      pair_case(kind, ea, eb, 'eq'), 'True or False', what)
        return None
    if 'eq' in laws:
        rel = 'same' if same_obj else relation(ea, eb)
        if same_obj:
            out = 'reflexive:%s' % ab
            if not ab:
                acc.violation(dict(check='eq-laws', what='not-reflexive', kind=kind, attr='<none>'),
                              pair_case(kind, ea, eb, 'eq'), True, ab)
        else:
            out = 'eq:%s:%s' % (rel, ab)
            if rel == 'same' and not ab:
                acc.violation(dict(check='eq-expected', what='unequal-but-only-ignorable-differences',
                                   kind=kind, attr='+'.join(lex_attrs(kind, a, b)) or '<none>',
                                   varclass=var_class(ea, eb)),
                              pair_case(kind, ea, eb, 'eq'), True, ab)
            elif rel == 'different' and ab:
                acc.violation(dict(check='eq-expected', what='equal-but-public-attribute-differs',
                                   **pair_sig_fields(kind, a, b)),
                              pair_case(kind, ea, eb, 'eq'), False, ab)
        acc.case(('eq', kind, ea['k'], eb['k']),
                 nontrivial=(rel != 'unspecified'), outcome=out, calls=calls)
    if 'hash' in laws:
        ne, exc = safe(lambda: a != b)
        if exc or not isinstance(ne, bool):
            what = 'ne-raises:%s' % exc if exc else 'ne-returns:%s' % type(ne).__name__
            acc.violation(dict(check='ne', what=what, **pair_sig_fields(kind, a, b)),
                          pair_case(kind, ea, eb, 'hash'), not ab, what)
        elif ne != (not ab):
            acc.violation(dict(check='ne', what='ne-is-not-negation-of-eq', **pair_sig_fields(kind, a, b)),
                          pair_case(kind, ea, eb, 'hash'), not ab, ne)
        hs, exc = safe(lambda: (hash(a), hash(b)))
        out = 'hash:eq=%s' % ab
        if exc:
            acc.violation(dict(check='hash', what='hash-raises:%s' % exc, kind=kind, attr='<none>'),
                          pair_case(kind, ea, eb, 'hash'), 'int', exc)
            out = 'hash:raises'
        else:
            wrongly_equal = ab and not same_obj and relation(ea, eb) == 'different'
            # the law a == b => hash(a) == hash(b) is checked for every equal pair, also for pairs
            # the oracle expected to be different (an independent law)
            if ab and hs[0] != hs[1]:
                acc.violation(dict(check='hash', what='equal-but-hash-differs', kind=kind,
                                   attr=attr_class(lex_attrs(kind, a, b))),
                              pair_case(kind, ea, eb, 'hash'), 'hash(a) == hash(b)', 'differs')
                out = 'hash:equal-objects-different-hash'
            mem, exc = safe(lambda: ((b in {a}), ({a: 1}.get(b) == 1), (b in [a])))
            if exc:
                acc.violation(dict(check='hash', what='membership-raises:%s' % exc,
                                   **pair_sig_fields(kind, a, b)),
                              pair_case(kind, ea, eb, 'hash'), ab, exc)
            elif mem != (ab, ab, ab) and not (ab and hs[0] != hs[1]) and not wrongly_equal:
                acc.violation(dict(check='hash', what='membership-disagrees-with-eq',
                                   **pair_sig_fields(kind, a, b)),
                              pair_case(kind, ea, eb, 'hash'), [ab] * 3, list(mem))
            out += ':hash-equal=%s' % (hs[0] == hs[1])
        acc.case(('hash', kind, ea['k'], eb['k']),
                 nontrivial=bool(ab) or not same_obj, outcome=out, calls=6)
    return ab


def reduce_entries(kind, tier, ea, eb, pred):
    """for objects with two variations: the smallest sub-pair (fewer variations) that still
    satisfies pred, so that one root cause gives one signature"""
    built, _ = pool(kind, tier)
    by = {}
    for e in built:
        by[(e['fam'], tuple(e['vars']))] = e

    def subs(e):
        vs = e['vars']
        out = []
        for r in range(len(vs) + 1):
            for sub in itertools.combinations(vs, r):
                x = by.get((e['fam'], sub))
                if x is not None:
                    out.append(x)
        if e not in out:
            out.append(e)
        return out
    best = None
    for xa in subs(ea):
        for xb in subs(eb):
            size = len(xa['vars']) + len(xb['vars'])
            if best is not None and size >= best[0]:
                continue
            if pred(xa, xb):
                best = (size, xa, xb)
    return (best[1], best[2]) if best else (ea, eb)


def pair_reduced(kind, tier, ea, eb, laws):
    """evaluate the pair; a violating pair of multi-variation objects is replaced by the smallest
    sub-pair (subsets of the variations) showing the same failure classes"""
    def ev(xa, xb):
        t = Acc()
        r = check_pair_eq(kind, xa, xb, t, laws=laws)
        if 'eq' not in laws:        # exceptions out of == are reported by the eq shard only
            t.violations = {k: v for k, v in t.violations.items() if v['sig']['check'] != 'eq-laws'}
            t.outcomes = {k: v for k, v in t.outcomes.items() if not k.startswith('eq:')}
        return t, r
    sub, ab = ev(ea, eb)
    if sub.violations and len(ea['vars']) + len(eb['vars']) > 1:
        whats = set((v['sig']['check'], v['sig']['what']) for v in sub.violations.values())

        def pred(xa, xb):
            t, _ = ev(xa, xb)
            return whats <= set((v['sig']['check'], v['sig']['what']) for v in t.violations.values())
        xa, xb = reduce_entries(kind, tier, ea, eb, pred)
        if xa is not ea or xb is not eb:
            sub.violations = ev(xa, xb)[0].violations
    return sub, ab


def run_eq_matrix(kind, tier, acc):
    built, rejected = pool(kind, tier)
    n = len(built)
    acc.count('pool:%s' % kind, n)
    acc.count('pool-rejected-by-constructor:%s' % kind, rejected)
    for _ in range(rejected):
        acc.case(('rejected', kind, _), nontrivial=False, outcome='spec-rejected-by-constructor', calls=1)
    rows = []
    for i, ea in enumerate(built):
        row = []
        for j, eb in enumerate(built):
            sub, ab = pair_reduced(kind, tier, ea, eb, ('eq',))
            acc.merge(sub)
            row.append(ab)
        rows.append(tuple(row))
    # symmetry and transitivity on the complete matrix of observed results
    for i in range(n):
        ri = rows[i]
        for j in range(n):
            if ri[j] is None or rows[j][i] is None:
                continue
            if j > i and ri[j] != rows[j][i]:
                acc.violation(dict(check='eq-laws', what='not-symmetric',
                                   **pair_sig_fields(kind, built[i]['obj'], built[j]['obj'])),
                              pair_case(kind, built[i], built[j], 'symmetric'),
                              'a == b and b == a agree', [ri[j], rows[j][i]])
            if ri[j] and j != i and ri != rows[j]:
                # a == b but some c tells them apart
                bad = 0
                for c in range(n):
                    if ri[c] is not None and rows[j][c] is not None and ri[c] != rows[j][c]:
                        bad += 1
                        if bad <= 3:
                            acc.violation(dict(check='eq-laws', what='not-transitive', kind=kind,
                                               attr='+'.join(O.top_diff(built[i]['obj'], built[c]['obj'], True) or
                                                             O.top_diff(built[j]['obj'], built[c]['obj'], True)) or '<none>'),
                                          pair_case(kind, built[i], built[j], 'transitive', built[c]),
                                          'a == b implies (a == c) == (b == c)',
                                          dict(a_eq_b=True, a_eq_c=ri[c], b_eq_c=rows[j][c]))
        eqs = sum(1 for x in ri if x)
        acc.case(('trans', kind, i), outcome='row:symmetric+transitive-checked', calls=0,
                 nontrivial=eqs > 1)
        acc.count('triples-with-a==b:%s' % kind, (eqs - 1) * n if eqs else 0)
    if kind == 'CIMInstanceName':
        # samples come from exactly one shard, so that the evidence does not depend on merge order
        want = ['same', 'different', 'unspecified']
        for j in range(1, n):
            rel = relation(built[0], built[j])
            if rel in want and built[j]['fam'] == 0:
                want.remove(rel)
                acc.samples.append(dict(a=built[0]['spec'], b=built[j]['spec'], variation=built[j]['vars'],
                                        reference_model=rel, observed_eq=rows[0][j],
                                        hash_equal=hash(built[0]['obj']) == hash(built[j]['obj'])))
    classes = len(set(rows))
    acc.count('equivalence-classes:%s' % kind, classes)
    acc.states += n


def run_hash_rows(kind, tier, part, of, acc):
    built, _ = pool(kind, tier)
    for i, ea in enumerate(built):
        if i % of != part:
            continue
        for eb in built:
            acc.merge(pair_reduced(kind, tier, ea, eb, ('hash',))[0])


# ==========================================================================================
# copies

def make_copy(obj, via):
    if via == 'copy()':
        return obj.copy()
    if via == 'copy.copy':
        return copy.copy(obj)
    if via == 'copy.deepcopy':
        return copy.deepcopy(obj)
    return pickle.loads(pickle.dumps(obj, int(via[6:])))


def via_class(via):
    return 'pickle' if via.startswith('pickle') else via


def via_mode(via):
    return {'copy()': 'middle', 'copy.copy': 'shallow'}.get(via, 'deep')


def copy_case(kind, spec, via, mut=None):
    c = dict(check='copy', kind=kind, spec=spec, via=via)
    if mut is not None:
        c['mutation'] = mut
    return c


def check_copy_equal(kind, spec, obj, via, acc):
    """-> True if a usable copy was produced"""
    key = ('copy', kind, D.key(spec), via)
    if via == 'copy()' and not hasattr(obj, 'copy'):
        acc.case(key, nontrivial=False, outcome='copy:no-copy-method', calls=0)
        return False
    sig0 = dict(check='copy-equal', kind=kind, via=via_class(via))
    before = O.dump(obj)
    c, exc = safe(lambda: make_copy(obj, via))
    if exc:
        acc.case(key, outcome='copy:raises', calls=1)
        acc.violation(dict(sig0, what='copy-raises:%s' % exc), copy_case(kind, spec, via), 'a copy', exc)
        return False
    ok = True
    if O.dump(obj) != before:
        ok = False
        acc.violation(dict(sig0, what='copying-changed-the-original',
                           attr=O.dump_diff(before, O.dump(obj))),
                      copy_case(kind, spec, via), 'unchanged', 'changed')
    if c is obj and kind != 'CIMDateTime' and via != 'copy.copy':
        ok = False
        acc.violation(dict(sig0, what='copy-is-the-original'), copy_case(kind, spec, via),
                      'a new object', 'the same object')
    eqs, exc = safe(lambda: (c == obj, obj == c, c != obj))
    if exc:
        acc.violation(dict(sig0, what='eq-raises:%s' % exc), copy_case(kind, spec, via), True, exc)
        acc.case(key, outcome='copy:%s:VIOLATION' % via_class(via), calls=8)
        return False
    elif eqs != (True, True, False):
        ok = False
        d = safe(lambda: O.dump_diff(before, O.dump(c)))[0] if type(c) is type(obj) else '<type>'
        acc.violation(dict(sig0, what='copy-not-equal', attr=d or '<none>'), copy_case(kind, spec, via),
                      [True, True, False], list(eqs))
    if type(c) is not type(obj):
        ok = False
        h, hexc = safe(lambda: hash(c))
        acc.violation(dict(sig0, what='copy-has-other-class' + (':unhashable' if hexc else '')),
                      copy_case(kind, spec, via), type(obj).__module__ + '.' + type(obj).__name__,
                      type(c).__module__ + '.' + type(c).__name__)
    else:
        dc, exc = safe(lambda: O.dump(c))
        if exc:
            acc.violation(dict(sig0, what='copy-state-unreadable:%s' % exc), copy_case(kind, spec, via),
                          'readable public attributes', exc)
            acc.case(key, outcome='copy:%s:VIOLATION' % via_class(via), calls=8)
            return False
        if dc != before:
            ok = False
            acc.violation(dict(sig0, what='public-state-differs', attr=O.dump_diff(before, dc)),
                          copy_case(kind, spec, via), 'identical public state', O.dump_diff(before, dc))
        hs, exc = safe(lambda: (hash(c), hash(obj)))
        if exc:
            ok = False
            acc.violation(dict(sig0, what='hash-raises:%s' % exc), copy_case(kind, spec, via), 'int', exc)
        elif hs[0] != hs[1]:
            ok = False
            acc.violation(dict(sig0, what='hash-differs'), copy_case(kind, spec, via), hs[1], hs[0])
        if isinstance(obj, VendorNocaseDict) and \
                getattr(c, 'allow_unnamed_keys', None) != getattr(obj, 'allow_unnamed_keys', None):
            ok = False
            acc.violation(dict(sig0, what='allow_unnamed_keys-differs'), copy_case(kind, spec, via),
                          getattr(obj, 'allow_unnamed_keys', None), getattr(c, 'allow_unnamed_keys', None))
    acc.case(key, outcome='copy:%s:%s' % (via_class(via), 'equal' if ok else 'VIOLATION'), calls=8)
    return True


def check_isolation(kind, spec, obj, via, acc, only=None):
    mode = via_mode(via)
    muts = [only] if only is not None else list(O.mutations(obj, mode))
    before = O.dump(obj)
    for mut in muts:
        key = ('iso', kind, D.key(spec), via, D.key(mut))
        c = make_copy(obj, via)
        pre = O.dump(c)
        try:
            with warnings.catch_warnings():
                warnings.simplefilter('ignore')
                O.apply_mutation(c, mut)
        except (ValueError, TypeError):
            acc.case(key, nontrivial=False, outcome='iso:mutation-rejected', calls=2)
            if O.dump(obj) != before:
                raise HarnessError('rejected mutation changed the original: %r' % (mut,))
            continue
        if O.dump(c) == pre:
            acc.case(key, nontrivial=False, outcome='iso:mutation-without-effect', calls=2)
            continue
        after = O.dump(obj)
        if after == before:
            acc.case(key, outcome='iso:%s:original-unchanged' % mode, calls=2)
            continue
        acc.case(key, outcome='iso:%s:ORIGINAL-CHANGED' % mode, calls=2)
        top = mut[0][0] if mut[0] and isinstance(mut[0][0], str) else '<top>'
        tv = getattr(c, top, None) if top != '<top>' else c
        shared = 'dict' if isinstance(tv, VendorNocaseDict) else 'list' if isinstance(tv, list) \
            else 'object' if isinstance(tv, O.CIM_CLASSES) else 'attribute'
        if len(mut[0]) == 0:
            shared = 'whole-object'
        acc.violation(dict(check='copy-isolation', kind=kind, via=via_class(via),
                           what='mutating-the-copy-changed-the-original',
                           where=top, shared=shared),
                      copy_case(kind, spec, via, mut), 'original unchanged',
                      'original differs at %s' % O.dump_diff(before, after))
        # the shared state was modified: rebuild the original for the next mutation
        obj = O.build(spec)
        if O.dump(obj) != before:
            raise HarnessError('rebuild differs')


def copy_equal_and_hash_over_time(kind, spec, obj, via, acc):
    """check_copy_equal() on a freshly built object, framed by the hash law over time: the hash of
    an object nobody has looked at yet equals its hash after all the read-only operations of
    check_copy_equal (dump, copy, ==), and the hash of an untouched twin built from the same spec"""
    h_fresh, hexc = safe(lambda: hash(obj))
    usable = check_copy_equal(kind, spec, obj, via, acc)
    if hexc is None:
        twin = O.build(spec)
        h_twin, _ = safe(lambda: hash(twin))
        h_later, _ = safe(lambda: hash(obj))
        if h_later != h_fresh or h_twin != h_later:
            acc.violation(dict(check='hash', kind=kind, what='hash-changes-without-mutation',
                               when='after-reads' if h_later != h_fresh else 'untouched-twin'),
                          copy_case(kind, spec, via), 'one hash value',
                          ['fresh', 'after reads', 'untouched twin', h_fresh == h_later, h_twin == h_later])
    return usable


def structure_key(obj):
    """objects with the same key have the same mutation positions"""
    def skel(d):
        if isinstance(d, tuple) and len(d) == 2 and isinstance(d[1], tuple):
            return (d[0], tuple(skel(x) for x in d[1]))
        if isinstance(d, tuple):
            return tuple(skel(x) for x in d)
        return type(d).__name__ if not isinstance(d, str) or d not in O.ATTRS else d
    return skel(O.dump(obj))


def run_copy(kind, tier, part, of, acc):
    built, _ = pool(kind, tier)
    seen_struct = set()
    k = 0
    for e in built:
        full = len(e['vars']) <= 1 if tier == 'thorough' else False
        sk = None
        if not full:
            sk = structure_key(e['obj'])
            full = len(e['vars']) <= 1 and sk not in seen_struct
            seen_struct.add(sk)
        for via in VIAS:
            k += 1
            if k % of != part:
                continue
            with warnings.catch_warnings():
                warnings.simplefilter('ignore')
                obj = O.build(e['spec'])
                usable = copy_equal_and_hash_over_time(kind, e['spec'], obj, via, acc)
                if usable and full:
                    check_isolation(kind, e['spec'], O.build(e['spec']), via, acc)


# ==========================================================================================
# runner interface

def plan(tier, seed):
    shards = []
    for kind in KINDS:
        shards.append(dict(check='eq', kind=kind))
        for p in range(HASH_PARTS[tier]):
            shards.append(dict(check='hash', kind=kind, part=p, of=HASH_PARTS[tier]))
        ncopy = COPY_PARTS[tier] * HEAVY.get(kind, 1)
        for p in range(ncopy):
            shards.append(dict(check='copy', kind=kind, part=p, of=ncopy))
    # heaviest first (copy shards of the big kinds), so that the pool drains evenly
    shards.sort(key=lambda sh: (-HEAVY.get(sh['kind'], 1) * (3 if sh['check'] == 'copy' else 1),
                                KINDS.index(sh['kind']), sh['check'], sh.get('part', 0)))
    return shards


def run_shard(shard, tier):
    warnings.simplefilter('ignore')
    acc = Acc()
    if shard['check'] == 'eq':
        run_eq_matrix(shard['kind'], tier, acc)
    elif shard['check'] == 'hash':
        run_hash_rows(shard['kind'], tier, shard['part'], shard['of'], acc)
    elif shard['check'] == 'copy':
        run_copy(shard['kind'], tier, shard['part'], shard['of'], acc)
    return acc


def _entry(spec, names):
    return mk_entry(spec, O.build(spec), 0, names or [])


def replay(case, tier):
    warnings.simplefilter('ignore')
    acc = Acc()
    if case['check'] == 'pair':
        kind = case['kind']
        ea, eb = _lookup(kind, tier, case['a'], case.get('va')), _lookup(kind, tier, case['b'], case.get('vb'))
        if case['law'] in ('eq', 'hash'):
            check_pair_eq(kind, ea, eb, acc, laws=(case['law'],))
            if case['law'] == 'hash':
                acc.violations = {k: v for k, v in acc.violations.items() if v['sig']['check'] != 'eq-laws'}
        else:
            ec = _lookup(kind, tier, case['c'], None) if 'c' in case else None
            a, b = ea['obj'], eb['obj']
            ab, ba = safe(lambda: a == b)[0], safe(lambda: b == a)[0]
            if case['law'] == 'symmetric' and ab is not None and ba is not None and ab != ba:
                acc.violation(dict(check='eq-laws', what='not-symmetric', **pair_sig_fields(kind, a, b)),
                              case, 'a == b and b == a agree', [ab, ba])
            if case['law'] == 'transitive' and ec is not None and ab:
                c = ec['obj']
                ac, bc = safe(lambda: a == c)[0], safe(lambda: b == c)[0]
                if ac is not None and bc is not None and ac != bc:
                    acc.violation(dict(check='eq-laws', what='not-transitive', kind=kind,
                                       attr='+'.join(O.top_diff(a, c, True) or O.top_diff(b, c, True)) or '<none>'),
                                  case, 'a == b implies (a == c) == (b == c)',
                                  dict(a_eq_b=True, a_eq_c=ac, b_eq_c=bc))
    elif case['check'] == 'copy':
        obj = O.build(case['spec'])
        if 'mutation' in case:
            check_isolation(case['kind'], case['spec'], obj, case['via'], acc, only=case['mutation'])
        else:
            copy_equal_and_hash_over_time(case['kind'], case['spec'], obj, case['via'], acc)
    return acc


def _lookup(kind, tier, spec, names):
    """pool entry for a recorded spec (so that attrs / variation classes are the recorded ones);
    falls back to a bare entry for specs that are not pool members"""
    for t in (tier, 'thorough' if tier == 'quick' else 'quick'):
        try:
            built, _ = pool(kind, t)
        except KeyError:
            break
        for e in built:
            if e['spec'] == spec:
                return e
    return _entry(spec, names)


def snippet(case):
    head = ('import sys, copy, pickle; sys.path.insert(0, "/verif")\n'
            'import mc\nfrom mc import objspecs as O\n')
    if case.get('check') == 'pair':
        return head + ('def test_replay():\n    a = O.build(%r)\n    b = O.build(%r)\n'
                       '    # law: %s\n    assert (a == b) == (b == a)\n'
                       '    assert (a != b) == (not (a == b))\n'
                       '    assert not (a == b) or hash(a) == hash(b)\n'
                       '    assert (a == b) == (O.canon(a) == O.canon(b))\n'
                       % (case['a'], case['b'], case.get('law')))
    if case.get('check') == 'copy':
        return head + ('from checks.c05_eq_hash_copy import make_copy\n'
                       'def test_replay():\n    a = O.build(%r)\n    before = O.dump(a)\n'
                       '    c = make_copy(a, %r)\n    assert c == a and O.dump(c) == before\n'
                       '    mut = %r\n    if mut: O.apply_mutation(c, mut)\n'
                       '    assert O.dump(a) == before\n'
                       % (case['spec'], case['via'], case.get('mutation')))
    return None
