"""C08 — MOF produced by tomof() recompiles to the same objects (mode E).

Seam: obj.tomof(maxline) -> one long-lived MOFCompiler(MOFWBEMConnection()) per process (state
reset per case) -> objects from handle.qualifiers / handle.classes / handle.instances. The
qualifier declarations and classes the object refers to are written by the harness as plain
DSP0004 MOF (the "prelude") and compiled first.

Shard kinds (key 'check' of the shard; '--only' selects them):
  objects   qualifier declarations, classes, instances from the value/attribute lattices
  strings   every string of length <= L over the MOF atoms in every string context
  fold      fold sweeps: 'a'*i + X + 'a'*j placed in four folding contexts for every maxline
  literal   string literals written by the harness (refmodels/mofescape.py), in five escaping
            styles, as one part and split into parts at every unit boundary

Signature fields:
  check   'roundtrip' for everything that goes through tomof(), 'literal' for harness-written text
  what    tomof-raised:<exc> / prelude-rejected:<..> / compile-failed:<MOFCompileError class> /
          compile-raised:<other exception> / differs:<transformation class> / instance-count
  kind    qdecl / class / inst              where   attribute-path kind of the first difference
  cause   split-inside-escape:hex/simple (a part boundary of the printed MOF lies inside an escape
          unit, found with the reference escaping model), else for failures that are not
          self-explaining string transformations 'leaf:<what is left in the minimised witness>'
  witness_shape   the minimised witness with leaf values replaced by their kinds
  witness (literal only) the minimised literal text
String transformation classes: apostrophe-dropped, char16-literal-keeps-quotes,
other:<classes of the differing characters>.
"""
import itertools
import json
import re
import warnings

from pywbem import CIMInstanceName, CIMInstance, CIMClass, CIMQualifierDeclaration
from pywbem._cim_types import CIMInt, CIMFloat
from pywbem._mof_compiler import MOFCompiler, MOFWBEMConnection, MOFCompileError
from pywbem._nocasedict import NocaseDict

from mc.core import Acc, HarnessError, sigkey
from mc import domains as D
from mc import minimize as M
from mc.objdump import dump, diff, path_class, ALL_SCOPES
from mc.refmodels import mofescape as E

ID = 'C08'
RULE = ('object specs (qualifier declarations, classes, instances) are enumerated from the value '
        'and attribute lattices, from all strings up to length L over the MOF atoms in every '
        'string context, and from the fold sweeps (a*i + X + a*j for every special atom X, every '
        'i <= 3*maxline, j in {0,1,7}, with/without blanks, for every maxline of the tier); each is '
        'printed with tomof(maxline), compiled after a harness-written prelude, and compared '
        'under the projection of the statement; harness-written literals in 5 escaping styles '
        'are compiled as one part and split at every unit boundary. Non-trivial = pywbem built '
        'the object, MOF can express it, and compile + comparison were executed')
ASSUMPTIONS = [
    'projection compared: names (exact), types, is_array/array_size, values with exact CIM types, '
    'reference_class, qualifier values, flavors after applying the DSP0004 defaults to None '
    '(EnableOverride, ToSubclass, not Translatable, not ToInstance), scopes as a set (any = all); '
    'NOT compared: class_origin, propagated, embedded_object, paths, child order, qualifiers of '
    'instances',
    'typed numeric keys of reference values are compared by numeric value (WBEM URIs are untyped)',
    'not expressible in MOF and therefore excluded (counted as trivial): ToInstance flavor, empty '
    'scope list, INF/NaN reals, instances without properties, array_size on a scalar, one '
    'qualifier name used with two different declarations, references without a class, embedded '
    'classes as property values, embedded objects as class-level default values',
    'MOF keywords are not used as element names (DSP0004 reserves them)',
    'flavors of qualifier values come from the (harness-written) qualifier declaration; '
    'tomof() does not print them',
    'harness-written literals never contain a raw LF/CR inside a part',
]
BOUNDS = {
    'quick': {'string_len': 3, 'literal_len': 3, 'embedded_string_len': 2,
              'fold_maxlines': [40, 41, 79, 80, 200], 'fold_i_max': '3*maxline',
              'fold_contexts': ['qdecl', 'cprop', 'cqual', 'iarr'], 'fold_tail': [0, 1, 7],
              'literal_styles': 5, 'literal_cuts': 'none, every single boundary, all boundaries',
              'object_maxlines': [80, 40], 'qualifier_list_len': 3},
    'thorough': {'string_len': 4, 'literal_len': 4, 'embedded_string_len': 2,
                 'fold_maxlines': 'every maxline 40..120', 'fold_i_max': '3*maxline',
                 'fold_contexts': ['qdecl', 'cprop', 'cqual', 'iarr'], 'fold_tail': [0, 1, 7],
                 'literal_styles': 5, 'literal_cuts': 'none, every single boundary, all boundaries',
                 'object_maxlines': [80, 40], 'qualifier_list_len': 3},
}
NS = 'root/cimv2'

MOF_ATOMS = ['a', ' ', '"', "'", '\\', '\b', '\t', '\n', '\f', '\r', '\x01', '\x1f', 'é',
             '\U0001F600']
SPECIAL_ATOMS = MOF_ATOMS[1:]


# ------------------------------------------------------------------------------------------
# compiler seam

_COMP = None
_PRELUDE = {'text': None}


def compiler():
    global _COMP
    if _COMP is None:
        warnings.simplefilter('ignore')
        handle = MOFWBEMConnection()
        _COMP = (MOFCompiler(handle, log_func=None), handle)
    return _COMP


def reset():
    comp, h = compiler()
    h.classes = {}
    h.instances = {}
    h.qualifiers = {}
    h.class_names = {}
    h.compile_ordered_classnames = []
    h.default_namespace = NS
    p = comp.parser
    p.qualcache = {NS: NocaseDict()}
    p.classnames = {NS: []}
    p.aliases = {}
    p.target_namespace = None
    p.embedded_objects = None
    p.file = None
    p.mof = None
    comp.lexer.last_msg = None
    return comp, h


def compile_text(text):
    """-> None | 'compile-failed:<MOFCompileError subclass>' | 'compile-raised:<other exception>'"""
    comp, _ = compiler()
    try:
        comp.compile_string(text, NS)
    except MOFCompileError as exc:
        comp.parser.embedded_objects = None
        return 'compile-failed:' + type(exc).__name__
    except Exception as exc:   # noqa: any other exception escaping the compiler
        comp.parser.embedded_objects = None
        return 'compile-raised:' + type(exc).__name__
    return None


def load_prelude(text):
    """reset the compiler and bring it into the state after compiling the prelude text
    (snapshot of the last prelude is reused: the compiled prelude objects are not modified by
    later compiles). -> error class or None"""
    comp, h = reset()
    if not text:
        return None
    if _PRELUDE['text'] == text:
        h.qualifiers = {NS: NocaseDict(_PRELUDE['qualifiers'])}
        h.classes = {NS: NocaseDict(_PRELUDE['classes'])}
        h.class_names = {NS: list(_PRELUDE['class_names'])}
        h.compile_ordered_classnames = list(_PRELUDE['ordered'])
        comp.parser.qualcache = {NS: NocaseDict(_PRELUDE['qualcache'])}
        comp.parser.classnames = {NS: list(_PRELUDE['classnames'])}
        return None
    err = compile_text(text)
    if err:
        return err
    _PRELUDE.update(text=text,
                    qualifiers=NocaseDict(h.qualifiers.get(NS, {})),
                    classes=NocaseDict(h.classes.get(NS, {})),
                    class_names=list(h.class_names.get(NS, [])),
                    ordered=list(h.compile_ordered_classnames),
                    qualcache=NocaseDict(comp.parser.qualcache.get(NS, {})),
                    classnames=list(comp.parser.classnames.get(NS, [])))
    return None


# ------------------------------------------------------------------------------------------
# prelude: what the object needs, written by the harness

class NotExpressible(Exception):
    pass


MOF_KEYWORDS = {'any', 'as', 'association', 'class', 'disableoverride', 'boolean', 'char16',
                'datetime', 'pragma', 'real32', 'real64', 'sint16', 'sint32', 'sint64', 'sint8',
                'string', 'uint16', 'uint32', 'uint64', 'uint8', 'enableoverride', 'false',
                'flavor', 'indication', 'instance', 'method', 'null', 'of', 'parameter',
                'property', 'qualifier', 'ref', 'reference', 'restricted', 'schema', 'scope',
                'tosubclass', 'toinstance', 'translatable', 'true'}


META_QUALIFIERS = ('association', 'indication')    # keywords that DSP0004 also uses as qualifier names


class Needs:
    def __init__(self):
        self.quals = {}      # lower name -> (name, type, is_array, flavors)
        self.classes = {}    # lower name -> [name, {lower prop name: declaration text}]
        self.order = []

    def name(self, n):
        if n.lower() in MOF_KEYWORDS:
            raise NotExpressible('keyword-as-name')

    def qual(self, q):
        if q.name.lower() not in META_QUALIFIERS:
            self.name(q.name)
        if q.toinstance:
            raise NotExpressible('toinstance-flavor')
        if q.type is None:
            raise NotExpressible('untyped-qualifier')
        ent = (q.name, q.type, isinstance(q.value, list),
               (q.overridable, q.tosubclass, q.translatable))
        cur = self.quals.get(q.name.lower())
        if cur is not None and cur[1:] != ent[1:]:
            raise NotExpressible('qualifier-used-with-two-declarations')
        self.quals.setdefault(q.name.lower(), ent)

    def plain_qual(self, name, typ):
        cur = self.quals.get(name.lower())
        ent = (name, typ, False, (None, None, None))
        if cur is not None and cur[1:3] != ent[1:3]:
            raise NotExpressible('qualifier-used-with-two-declarations')
        self.quals.setdefault(name.lower(), ent)

    def cls(self, name, props=()):
        self.name(name)
        key = name.lower()
        if key not in self.classes:
            self.classes[key] = [name, {}]
            self.order.append(key)
        have = self.classes[key][1]
        for pname, decl in props:
            if have.setdefault(pname.lower(), decl) != decl:
                raise NotExpressible('embedded-instances-disagree-on-property-type')

    def text(self, exclude_class=None):
        out = []
        for k in sorted(self.quals):
            name, typ, arr, (ov, ts, tr) = self.quals[k]
            fl = []
            if ov is not None:
                fl.append('EnableOverride' if ov else 'DisableOverride')
            if ts is not None:
                fl.append('ToSubclass' if ts else 'Restricted')
            if tr:
                fl.append('Translatable')
            out.append('Qualifier %s : %s%s, Scope(any)%s;\n' %
                       (name, typ, '[]' if arr else '',
                        (', Flavor(%s)' % ', '.join(fl)) if fl else ''))
        # order of discovery: a class is registered after the classes it depends on
        for k in self.order:
            if exclude_class is not None and k == exclude_class.lower():
                continue
            name, props = self.classes[k]
            out.append('class %s {\n%s};\n' % (name, ''.join('   %s;\n' % d for d in props.values())))
        return ''.join(out)


def _need_elem(e, needs):
    """class-level property / parameter"""
    needs.name(e.name)
    for q in e.qualifiers.values():
        needs.qual(q)
        if q.name.lower() == 'embeddedinstance' and isinstance(q.value, str) and q.value:
            needs.cls(q.value)
    if e.type == 'reference':
        if e.reference_class is None:
            raise NotExpressible('reference-without-class')
        needs.cls(e.reference_class)
    if e.array_size is not None and not e.is_array:
        raise NotExpressible('array-size-on-scalar')
    v = getattr(e, 'value', None)
    for x in (v if isinstance(v, list) else [v]):
        if isinstance(x, (CIMInstance, CIMClass)):
            raise NotExpressible('embedded-object-as-class-default')


def _inst_props(inst, needs):
    """declarations of the properties of an instance's class, as the harness writes them"""
    needs.name(inst.classname)
    decls = []
    for p in inst.properties.values():
        needs.name(p.name)
        arr = '[]' if p.is_array else ''
        vals = p.value if isinstance(p.value, list) else [p.value]
        if any(isinstance(x, CIMClass) for x in vals):
            raise NotExpressible('embedded-class-value')
        if p.embedded_object is not None or any(isinstance(x, CIMInstance) for x in vals):
            embs = [x for x in vals if isinstance(x, CIMInstance)]
            if p.embedded_object == 'object':
                needs.plain_qual('EmbeddedObject', 'boolean')
                decl = '[EmbeddedObject] string %s%s' % (p.name, arr)
            else:
                needs.plain_qual('EmbeddedInstance', 'string')
                cn = embs[0].classname if embs else 'Emb'
                needs.cls(cn)
                decl = '[EmbeddedInstance("%s")] string %s%s' % (cn, p.name, arr)
            for x in embs:
                needs.cls(x.classname, _inst_props(x, needs))
        elif p.type == 'reference':
            rc = p.reference_class
            if rc is None:
                refs = [x for x in vals if isinstance(x, CIMInstanceName)]
                if not refs:
                    raise NotExpressible('reference-without-class')
                rc = refs[0].classname
            needs.cls(rc)
            decl = '%s REF %s%s' % (rc, p.name, arr)
        else:
            decl = '%s %s%s' % (p.type, p.name, arr)
            if _CLASS_DEFAULTS[0]:
                lit = _DEFAULT_LITERAL.get(p.type, '7')
                decl += ' = %s' % ('{ %s }' % lit if p.is_array else lit)
        decls.append((p.name, decl))
    return decls


def needs_of(o):
    needs = Needs()
    if isinstance(o, CIMQualifierDeclaration):
        if o.name.lower() not in META_QUALIFIERS:
            needs.name(o.name)
        if o.toinstance:
            raise NotExpressible('toinstance-flavor')
        if not any(v for v in (o.scopes or {}).values()):
            raise NotExpressible('empty-scope-list')
        if o.array_size is not None and not o.is_array:
            raise NotExpressible('array-size-on-scalar')
        _real_ok(o.value)
        return needs, ''
    if isinstance(o, CIMClass):
        needs.name(o.classname)
        for q in o.qualifiers.values():
            needs.qual(q)
        if o.superclass is not None:
            needs.cls(o.superclass)
        for p in o.properties.values():
            _need_elem(p, needs)
            _real_ok(p.value)
        for m in o.methods.values():
            needs.name(m.name)
            for q in m.qualifiers.values():
                needs.qual(q)
            for a in m.parameters.values():
                _need_elem(a, needs)
        _quals_real_ok(o)
        return needs, needs.text(exclude_class=o.classname)
    if isinstance(o, CIMInstance):
        _inst_nonempty(o)
        needs.cls(o.classname, _inst_props(o, needs))
        for p in o.properties.values():
            _real_ok(p.value)
        return needs, needs.text()
    raise HarnessError('unsupported object %r' % (o,))


def _inst_nonempty(inst):
    # DSP0004: instanceDeclaration = ... "{" 1*valueInitializer "}" ";"
    if not inst.properties:
        raise NotExpressible('instance-without-properties')
    for p in inst.properties.values():
        for x in (p.value if isinstance(p.value, list) else [p.value]):
            if isinstance(x, CIMInstance):
                _inst_nonempty(x)


def _real_ok(v):
    for x in (v if isinstance(v, list) else [v]):
        if isinstance(x, float) and (x != x or x in (float('inf'), float('-inf'))):
            raise NotExpressible('inf-or-nan')
        if isinstance(x, CIMInstance):
            for p in x.properties.values():
                _real_ok(p.value)


def _quals_real_ok(cls):
    holders = [cls] + list(cls.properties.values()) + list(cls.methods.values())
    for m in cls.methods.values():
        holders += list(m.parameters.values())
    for hld in holders:
        for q in hld.qualifiers.values():
            _real_ok(q.value)


# ------------------------------------------------------------------------------------------
# projection named by the statement

def _eff(v, default):
    return ['bool', default if v is None else bool(v)]


def _sorted(items):
    return ['dict', [list(x) for x in sorted(items, key=lambda kv: (kv[0].lower(), kv[0]))]]


def P_key(v):
    if isinstance(v, bool):
        return ['bool', v]
    if isinstance(v, (CIMInt, int)):
        return ['num', int(v)]
    if isinstance(v, (CIMFloat, float)):
        return ['num', float(v).hex()]
    if isinstance(v, CIMInstanceName):
        return P_path(v)
    return dump(v)


def P_path(p):
    return ['CIMInstanceName', ['classname', dump(p.classname)],
            ['keybindings', _sorted((k, P_key(v)) for k, v in p.keybindings.items())],
            ['namespace', dump(p.namespace)], ['host', dump(p.host)]]


def P_value(v):
    if isinstance(v, list):
        return ['list', [P_value(x) for x in v]]
    if isinstance(v, CIMInstanceName):
        return P_path(v)
    if isinstance(v, CIMInstance):
        return P_inst(v)
    return dump(v)


def P_quals(quals):
    return _sorted((q.name, ['CIMQualifier', ['name', dump(q.name)], ['type', dump(q.type)],
                             ['value', P_value(q.value)],
                             ['overridable', _eff(q.overridable, True)],
                             ['tosubclass', _eff(q.tosubclass, True)],
                             ['translatable', _eff(q.translatable, False)],
                             ['toinstance', _eff(q.toinstance, False)]])
                   for q in quals.values())


def P_prop(p):
    return ['CIMProperty', ['name', dump(p.name)], ['type', dump(p.type)],
            ['is_array', dump(bool(p.is_array))], ['array_size', dump(p.array_size)],
            ['reference_class', dump(p.reference_class)], ['value', P_value(p.value)],
            ['qualifiers', P_quals(p.qualifiers)]]


def P_param(a):
    return ['CIMParameter', ['name', dump(a.name)], ['type', dump(a.type)],
            ['is_array', dump(bool(a.is_array))], ['array_size', dump(a.array_size)],
            ['reference_class', dump(a.reference_class)], ['qualifiers', P_quals(a.qualifiers)]]


def P_meth(m):
    return ['CIMMethod', ['name', dump(m.name)], ['return_type', dump(m.return_type)],
            ['parameters', _sorted((a.name, P_param(a)) for a in m.parameters.values())],
            ['qualifiers', P_quals(m.qualifiers)]]


def P_class(c):
    return ['CIMClass', ['classname', dump(c.classname)], ['superclass', dump(c.superclass)],
            ['properties', _sorted((p.name, P_prop(p)) for p in c.properties.values())],
            ['methods', _sorted((m.name, P_meth(m)) for m in c.methods.values())],
            ['qualifiers', P_quals(c.qualifiers)]]


def P_inst(i):
    return ['CIMInstance', ['classname', dump(i.classname)],
            ['properties', _sorted((p.name, ['CIMProperty', ['name', dump(p.name)],
                                             ['type', dump(p.type)],
                                             ['is_array', dump(bool(p.is_array))],
                                             ['value', P_value(p.value)]])
                                   for p in i.properties.values())]]


def P_qdecl(q):
    names = set()
    for k, v in (q.scopes or {}).items():
        if v:
            names.update(ALL_SCOPES if k.upper() == 'ANY' else [k.upper()])
    return ['CIMQualifierDeclaration', ['name', dump(q.name)], ['type', dump(q.type)],
            ['is_array', dump(bool(q.is_array))], ['array_size', dump(q.array_size)],
            ['value', P_value(q.value)], ['scopes', ['scopes', sorted(names)]],
            ['overridable', _eff(q.overridable, True)], ['tosubclass', _eff(q.tosubclass, True)],
            ['translatable', _eff(q.translatable, False)],
            ['toinstance', _eff(q.toinstance, False)]]


def project(o):
    if isinstance(o, CIMQualifierDeclaration):
        return P_qdecl(o)
    if isinstance(o, CIMClass):
        return P_class(o)
    if isinstance(o, CIMInstance):
        return P_inst(o)
    raise HarnessError('cannot project %r' % (o,))


# ------------------------------------------------------------------------------------------
# classification of differences (transformation classes)

def spec_strings(spec, out=None):
    """all string payloads ['s', text] inside a spec"""
    if out is None:
        out = []
    if isinstance(spec, list):
        if len(spec) == 2 and spec[0] == 's' and isinstance(spec[1], str):
            out.append(spec[1])
        else:
            for x in spec:
                spec_strings(x, out)
    elif isinstance(spec, dict):
        for k in sorted(spec):
            spec_strings(spec[k], out)
    return out


_BOUNDARY = re.compile(r'"\n *"')


def _values_of(o):
    """all values (scalars, flattened) that tomof() prints for object o"""
    holders = []
    if isinstance(o, CIMQualifierDeclaration):
        holders = [o]
    elif isinstance(o, CIMInstance):
        holders = list(o.properties.values())
    elif isinstance(o, CIMClass):
        holders = list(o.qualifiers.values())
        for p in o.properties.values():
            holders += [p] + list(p.qualifiers.values())
        for m in o.methods.values():
            holders += list(m.qualifiers.values())
            for a in m.parameters.values():
                holders += list(a.qualifiers.values())
    for hld in holders:
        v = hld.value
        for x in (v if isinstance(v, list) else [v]):
            if x is not None:
                yield x


def folded_strings(o):
    """the strings tomof() hands to its folding routine for object o, and the embedded instances"""
    strs, embs = set(), []
    for x in _values_of(o):
        if isinstance(x, str):
            strs.add(x)
        elif isinstance(x, CIMInstanceName):
            strs.add(x.to_wbem_uri())
        elif isinstance(x, CIMInstance):
            embs.append(x)
            try:
                strs.add(x.tomof())
            except Exception:   # noqa: classification aid only
                pass
    return strs, embs


def fold_cause(o, text):
    """Did tomof() put a part boundary inside an escape unit of one of the strings of object o
    (at any embedding level)? -> 'split-inside-escape:hex' / 'split-inside-escape:simple' / None."""
    strs, embs = folded_strings(o)
    c = _fold_cause_text(strs, text)
    if c:
        return c
    for x in embs:
        try:
            c = fold_cause(x, x.tomof())
        except Exception:   # noqa: classification aid only
            c = None
        if c:
            return c
    return None


def _fold_cause_text(strings, text):
    """Uses only the reference escaping model: removes the part boundaries (quote, newline,
    indent, quote - an escaped string never contains a raw newline) and maps them onto the list
    of escape units of each string."""
    flat = []
    cuts = []
    pos = 0
    for m in _BOUNDARY.finditer(text):
        flat.append(text[pos:m.start()])
        pos = m.end()
        cuts.append(sum(len(x) for x in flat))
    if not cuts:
        return None
    flat.append(text[pos:])
    flat = ''.join(flat)
    for s in sorted(strings, key=lambda x: (-len(x), x)):
        if not s:
            continue
        us = E.units(s)
        esc = ''.join(us)
        idx = flat.find(esc)
        if idx < 0:
            continue
        starts = {}
        off = idx
        for u in us:
            for k in range(1, len(u)):
                starts[off + k] = u
            off += len(u)
        for c in cuts:
            if c in starts:
                return 'split-inside-escape:' + ('hex' if starts[c][1] in 'xX' else 'simple')
    return None


def string_cause(a, b):
    """canonical transformation class of string a -> string b"""
    if len(a) == 1 and len(b) >= 3 and b[0] == "'" and b[-1] == "'":
        return 'char16-literal-keeps-quotes'
    n = 0
    while n < len(a) and n < len(b) and a[n] == b[n]:
        n += 1
    am, bm = a[n:], b[n:]
    k = 0
    while k < len(am) and k < len(bm) and am[-1 - k] == bm[-1 - k]:
        k += 1
    if k:
        am, bm = am[:-k], bm[:-k]
    if am and set(am) == {"'"} and bm == '':
        return 'apostrophe-dropped'
    # an apostrophe next to equal characters can be cut off differently: normalise
    if "'" in a and a.replace("'", '') == b:
        return 'apostrophe-dropped'
    return 'other:%s->%s' % (_chars(am), _chars(bm))


def describe(d):
    path, a, b = d
    if isinstance(a, list) and isinstance(b, list) and len(a) == 2 and len(b) == 2 and \
            a[0] == 'str' and b[0] == 'str':
        return 'string:' + string_cause(a[1], b[1])
    ta = a[0] if isinstance(a, list) and a else type(a).__name__
    tb = b[0] if isinstance(b, list) and b else type(b).__name__
    if ta != tb:
        return 'type:%s->%s' % (ta, tb)
    if path.endswith('/len'):
        return 'child-count'
    return 'value:' + str(ta)


def _chars(s):
    cl = set()
    for c in s:
        o = ord(c)
        if c == ' ':
            cl.add('sp')
        elif c == '"':
            cl.add('dq')
        elif c == "'":
            cl.add('sq')
        elif c == '\\':
            cl.add('bs')
        elif o < 0x20:
            cl.add('ctl')
        elif o > 0xFFFF:
            cl.add('astral')
        elif o > 0x7F:
            cl.add('hi')
        else:
            cl.add('a')
    return '+'.join(sorted(cl)) or 'empty'


def _nm(n):
    if not isinstance(n, str):
        return n
    return 'name' if all(ord(c) < 0x80 for c in n) else 'name-non-ascii'


def _ty(t):
    if t in D.INT_TYPES:
        return 'int'
    if t in D.REAL_TYPES:
        return 'real'
    return t


def shape(spec):
    """abstract rendering of a (minimised) spec: leaf values replaced by their kind, so that one
    failure class gives one rendering whichever concrete value exposed it"""
    if isinstance(spec, dict):
        out = {}
        for k in sorted(spec):
            v = spec[k]
            if k in ('value', 'path', 'qualifiers'):
                out[k] = shape(v)
            elif k in ('class_origin', 'reference_class', 'superclass'):
                out[k] = _nm(v)
            elif k == 'scopes':
                out[k] = 'scopes' if v else v
            elif isinstance(v, int) and not isinstance(v, bool):
                out[k] = 'n'
            elif k == 'type':
                out[k] = _ty(v)
            else:
                out[k] = v
        return out
    if not isinstance(spec, list) or not spec:
        return spec
    t = spec[0]
    if t == 's':
        return ['s', _chars(spec[1])]
    if t in ('i', 'r'):
        return [t]
    if t in ('dt', 'b', 'n'):
        return [t]
    if t == 'a':
        return ['a', [shape(x) for x in spec[1]]]
    if t == 'ipath':
        return ['ipath', _nm(spec[1]), [[_nm(k), shape(v)] for k, v in spec[2]],
                'ns' if spec[3] else None, 'host' if spec[4] else None]
    if t in ('qual', 'prop'):
        return [t, _nm(spec[1]), shape(spec[2])] + [shape(x) for x in spec[3:]]
    if t in ('param', 'qdecl'):
        return [t, _nm(spec[1]), _ty(spec[2])] + [shape(x) for x in spec[3:]]
    if t == 'meth':
        return [t, _nm(spec[1]), _ty(spec[2]), [shape(x) for x in spec[3]]] + [shape(x) for x in spec[4:]]
    if t == 'inst':
        return [t, _nm(spec[1]), [shape(x) for x in spec[2]], shape(spec[3])] + \
            [shape(x) for x in spec[4:]]
    if t == 'class':
        return [t, _nm(spec[1]), [shape(x) for x in spec[2]], [shape(x) for x in spec[3]]] + \
            [shape(x) for x in spec[4:]]
    return [shape(x) for x in spec]


# ------------------------------------------------------------------------------------------
# verdict for one (spec, maxline)

class V:
    __slots__ = ('outcome', 'what', 'where', 'cause', 'expected', 'observed', 'text', 'calls')

    def __init__(self, outcome, what=None, where='-', cause='-', expected=None, observed=None,
                 text=None, calls=1):
        self.outcome, self.what, self.where, self.cause = outcome, what, where, cause
        self.expected, self.observed, self.text, self.calls = expected, observed, text, calls


# the harness-written class of an instance declares every plain property either without default
# or (second variant, instances only) with a non-NULL default: an explicit NULL (or any other
# value) in the instance MOF must win over the class default
_CLASS_DEFAULTS = [False]
_DEFAULT_LITERAL = {'string': '"dflt"', 'char16': "'d'", 'boolean': 'true', 'real32': '1.5', 'real64': '1.5',
                    'datetime': '"20200101000000.000000+000"'}


def verdict(spec, maxline):
    r = _verdict(spec, maxline)
    if r.outcome == 'ok' and spec[0] == 'inst':
        _CLASS_DEFAULTS[0] = True
        try:
            r2 = _verdict(spec, maxline)
        finally:
            _CLASS_DEFAULTS[0] = False
        r2.calls += r.calls
        if r2.what is not None:
            r2.what = 'with-class-defaults:' + r2.what
            return r2
        if r2.outcome != 'ok':
            raise HarnessError('class-default variant of %r: %s' % (spec, r2.outcome))
        r.calls = r2.calls
    return r


def _verdict(spec, maxline):
    try:
        o = D.build(spec)
    except (ValueError, TypeError):
        return V('rejected-by-constructor')
    try:
        _, prelude = needs_of(o)
    except NotExpressible as exc:
        return V('not-expressible:' + str(exc))
    try:
        text = o.tomof(maxline)
    except Exception as exc:    # noqa: the statement says tomof() returns text
        return V('tomof-raised', 'tomof-raised:' + type(exc).__name__, observed=repr(exc)[:200])
    err = load_prelude(prelude)
    if err:
        return V('prelude-rejected', 'prelude-rejected:' + err, expected='prelude compiles',
                 observed=prelude[:400], text=text, calls=2)
    _, h = compiler()
    err = compile_text(text)
    if err:
        cause = fold_cause(o, text) or '-'
        return V('compile-failed', err, cause=cause, expected='compiles', observed=text[:600],
                 text=text, calls=3)
    try:
        if spec[0] == 'qdecl':
            got = h.qualifiers[NS][o.name]
        elif spec[0] == 'class':
            got = h.classes[NS][o.classname]
        else:
            insts = h.instances.get(NS, [])
            if len(insts) != 1:
                return V('differs', 'instance-count', expected=1, observed=len(insts), text=text,
                         calls=3)
            got = insts[0]
    except KeyError:
        return V('differs', 'object-missing', expected=spec[1], observed=None, text=text, calls=3)
    d = diff(project(o), project(got))
    if d:
        desc = describe(d)
        cause = fold_cause(o, text) if desc.startswith('string:') else None
        return V('differs', 'differs:' + desc, where=path_class(d[0]), cause=cause or '-',
                 expected=d[1], observed=d[2], text=text, calls=3)
    return V('ok', text=text, calls=3)


def was_folded(text):
    return bool(_BOUNDARY.search(text))


def _leaves(spec, out, top=True):
    if isinstance(spec, dict):
        if spec.get('embedded_object'):
            out.add('embedded')
        for k in sorted(spec):
            if k in ('class_origin', 'reference_class', 'superclass'):
                if _nm(spec[k]) == 'name-non-ascii':
                    out.add('name-non-ascii')
            elif k == 'type' and spec[k] == 'char16':
                out.add('char16')
            else:
                _leaves(spec[k], out, False)
        return
    if not isinstance(spec, list) or not spec:
        return
    t = spec[0]
    if t == 's' and len(spec) == 2 and isinstance(spec[1], str):
        cl = _chars(spec[1])
        if cl not in ('a', 'empty'):
            out.add('s:' + cl)
    elif t == 'r':
        out.add('real')
    elif t == 'n' and len(spec) == 1:
        out.add('null')
    elif t == 'a' and len(spec) == 2 and isinstance(spec[1], list):
        out.add('array' if spec[1] else 'empty-array')
        _leaves(spec[1], out, False)
    elif t == 'ipath':
        out.add('ref')
        for k, v in spec[2]:
            if _nm(k) == 'name-non-ascii':
                out.add('name-non-ascii')
            _leaves(v, out, False)
    elif t in ('qual', 'prop', 'param', 'qdecl', 'meth', 'inst', 'class'):
        if _nm(spec[1]) == 'name-non-ascii':
            out.add('name-non-ascii')
        if t in ('param', 'qdecl') and spec[2] == 'char16':
            out.add('char16')
        if t == 'inst' and not top:
            out.add('embedded')
        for x in spec[2:]:
            if t == 'prop' and x == ['n']:
                continue           # a NULL property value is the plain minimal value
            _leaves(x, out, False)
    else:
        for x in spec:
            _leaves(x, out, False)


def leaf_cause(spec):
    """what is left in a minimised witness besides plain names and plain values"""
    out = set()
    _leaves(spec, out)
    return 'leaf:' + ('+'.join(sorted(out)) or 'plain')


def shape_json(spec):
    return json.dumps(shape(spec), ensure_ascii=True, sort_keys=True,
                      separators=(',', ':')).replace('|', '/')


def make_sig(spec, v, with_shape):
    sig = dict(check='roundtrip', what=v.what, kind=spec[0], where=v.where, cause=v.cause)
    if with_shape:
        sig['cause'] = leaf_cause(spec)
        sig['witness_shape'] = shape_json(spec)
    return sig


def _kw_sane(sp):
    """keeps the minimiser inside the documented value sets of keyword arguments"""
    if isinstance(sp, dict):
        if sp.get('embedded_object', None) not in (None, 'instance', 'object'):
            return False
        return all(_kw_sane(x) for x in sp.values())
    if isinstance(sp, list):
        return all(_kw_sane(x) for x in sp)
    return True


def _needs_shape(v):
    """string transformations and fold causes identify the failure class by themselves; every
    other failure is told apart by the abstract shape of its minimal witness"""
    if v.cause != '-':
        return False
    if v.what.startswith('differs:string:') and not v.what.startswith('differs:string:other'):
        return False
    return True


def check_case(acc, spec, maxline, shard_check, minimize=True, max_tests=600, shrink=None,
               sample=False):
    v = verdict(spec, maxline)
    kind = spec[0]
    trivial = v.what is None and v.outcome != 'ok'
    out = '%s:%s' % (kind, v.outcome)
    if v.outcome == 'ok' and shard_check == 'fold':
        out += ':folded' if was_folded(v.text) else ':one-part'
        # not part of the statement, recorded for information only
        if max(len(ln) for ln in v.text.split('\n')) > maxline:
            acc.count('fold_cases_with_a_line_longer_than_maxline')
    acc.case((D.key(spec), maxline), nontrivial=not trivial, calls=v.calls, outcome=out,
             sample=dict(spec=spec, maxline=maxline, mof=v.text[:400])
             if sample and v.outcome == 'ok' and kind == 'inst' and maxline == 40 else None)
    if v.what is None:
        return v
    if not hasattr(acc, '_seen'):
        acc._seen = {}
    raw = (v.what, v.where, kind, v.cause, shape_json(spec) if _needs_shape(v) else None)
    if minimize and raw in acc._seen:
        acc.violations[acc._seen[raw]]['count'] += 1
        return v
    if minimize:
        def still(sp):
            if not D.valid(sp) or sp[0] != kind or not _kw_sane(sp):
                return False
            w = verdict(sp, maxline)
            return w.what == v.what and w.cause == v.cause
        if shrink is not None:
            spec = shrink(still)
        else:
            spec = M.minimize(spec, still, max_tests=max_tests)
        v = verdict(spec, maxline)
    sig = make_sig(spec, v, _needs_shape(v))
    acc.violation(sig, dict(check='roundtrip', spec=spec, maxline=maxline), v.expected, v.observed)
    if minimize:
        acc._seen[raw] = sigkey({k: str(x) for k, x in sig.items()})
    return v


# ------------------------------------------------------------------------------------------
# value lattices

REAL32 = [0.0, -0.0, 1.5, -2.25, 0.1, 3.4028234663852886e38, 1.401298464324817e-45,
          1.1754943508222875e-38, 16777216.0, 1e-7, 1e20, 100000.0, float('inf'), float('nan')]
REAL64 = [0.0, -0.0, 1.5, 0.1, 1e20, 1e-7, 1.7976931348623157e308, 5e-324,
          2.2250738585072014e-308, 123456789.12345678, 1e22, 1 / 3.0, 1e15, 1e16,
          float('-inf'), float('nan')]
REFS = [['ipath', 'RefC', [['k', ['s', 'x']]], None, None],
        ['ipath', 'RefC', [['k', ['i', 'uint8', 1]], ['L', ['b', True]]], 'a/B', None],
        ['ipath', 'RefC', [['k', ['s', 'a"b\\c']]], 'a', 'H.x:5988'],
        ['ipath', 'RefC', [['r', ['ipath', 'In', [['k', ['s', 'q']]], 'n', None]]], 'root/cimv2', None],
        ['ipath', 'RefC', [['k', ['s', 'a b']], ['j', ['i', 'sint32', -5]]], 'a', None]]
TYPES14 = [t for t in D.ALL_TYPES if t != 'reference']


def scalars(t):
    if t == 'boolean':
        return [['b', True], ['b', False]]
    if t == 'string':
        return [['s', ''], ['s', 'a'], ['s', ' a b '], ['s', 'NULL'], ['s', 'é\U0001F600'],
                ['s', 'a"b\\c\n'], ['s', '5']]
    if t == 'char16':
        return [['s', 'a'], ['s', ' '], ['s', '"'], ['s', "'"], ['s', '\\'], ['s', '\n'],
                ['s', '\x01'], ['s', 'é']]
    if t == 'datetime':
        return [['dt', s] for s in D.DATETIMES + D.INTERVALS]
    if t in D.INT_TYPES:
        return [['i', t, v] for v in D.int_lattice(t)]
    if t == 'real32':
        return [D.fspec(D.float32_round(f), 'real32') for f in REAL32 + D.DECIMAL_REALS32] + \
            [D.fspec(1e16, 'real32'), D.fspec(0.1, 'real32')]     # held as doubles by Real32
    if t == 'real64':
        return [D.fspec(f, 'real64') for f in REAL64 + D.DECIMAL_REALS]
    if t == 'reference':
        return REFS
    raise ValueError(t)


def value_shapes(t):
    """(vspec, is_array)"""
    sc = scalars(t)
    for v in sc:
        yield v, False
    yield ['n'], False
    yield ['n'], True
    yield ['a', []], True
    for v in sc:
        yield ['a', [v]], True
    yield ['a', [['n']]], True
    yield ['a', [sc[0], ['n'], sc[-1]]], True
    yield ['a', [['n'], sc[0]]], True
    # several NULL entries (each must keep its place), repeated equal entries
    yield ['a', [['n'], ['n']]], True
    yield ['a', [['n'], sc[0], ['n']]], True
    yield ['a', [sc[0], ['n'], ['n'], sc[-1], ['n']]], True
    yield ['a', [sc[0], sc[0], sc[0]]], True
    yield ['a', list(sc)], True


SCOPES = ['CLASS', 'ASSOCIATION', 'INDICATION', 'PROPERTY', 'REFERENCE', 'METHOD', 'PARAMETER']
SCOPE_SETS = [{s: True} for s in SCOPES] + \
    [{a: True, b: True} for a, b in itertools.combinations(SCOPES, 2)] + \
    [{s: True for s in SCOPES}, {'ANY': True}, {'CLASS': True, 'METHOD': False}]
NTF = [None, True, False]
FLAVORS = [dict(overridable=ov, tosubclass=ts, translatable=tr, toinstance=ti)
           for ov, ts, tr, ti in itertools.product(NTF, NTF, NTF, [None, False])]
NAMES = ['Foo', 'foo', 'F_1', '_x9', 'Ünï']
ASCII_NAMES = NAMES[:4]


def _first_value(t):
    return scalars(t)[1] if len(scalars(t)) > 1 else scalars(t)[0]


def qdecl_specs():
    # every type x {no value, scalar value, sized array value} x scope sets x flavor combinations
    for t in TYPES14:
        v = _first_value(t)
        for kw in ({}, {'value': v}, {'value': ['a', [v, ['n']]], 'is_array': True, 'array_size': 3}):
            for sc in SCOPE_SETS:
                for fl in FLAVORS:
                    yield ['qdecl', 'Q', t, dict(kw, scopes=sc, **fl)], 80
    # value lattice
    for t in TYPES14:
        for v, arr in value_shapes(t):
            for asz in ([None, 3] if arr else [None]):
                kw = {'value': v, 'is_array': arr, 'scopes': {'CLASS': True}}
                if asz:
                    kw['array_size'] = asz
                for m in (80, 40):
                    yield ['qdecl', 'Q', t, kw], m
    for n in NAMES + ['Association', 'Indication']:
        yield ['qdecl', n, 'boolean', {'scopes': {'ANY': True}}], 80
    # outside MOF
    yield ['qdecl', 'Q', 'boolean', {'scopes': {'CLASS': True}, 'toinstance': True}], 80
    yield ['qdecl', 'Q', 'boolean', {'scopes': {}}], 80
    yield ['qdecl', 'Q', 'boolean', {}], 80
    yield ['qdecl', 'Q', 'boolean', {'scopes': {'CLASS': False}}], 80
    yield ['qdecl', 'Q', 'uint8', {'scopes': {'CLASS': True}, 'array_size': 2}], 80


QPOOL = [['qual', 'QBool', ['b', True], {}],
         ['qual', 'QStr', ['s', 'some text'], {'type': 'string', 'translatable': True}],
         ['qual', 'QArr', ['a', [['s', 'x'], ['s', 'y z']]], {'type': 'string', 'overridable': False}],
         ['qual', 'QInt', ['a', [['i', 'uint8', 1], ['n'], ['i', 'uint8', 255]]],
          {'type': 'uint8', 'tosubclass': False}],
         ['qual', 'QNull', ['n'], {'type': 'sint32'}],
         ['qual', 'QLong', ['s', 'word ' * 30 + 'averyveryveryveryveryveryveryveryverylongwordwithoutblank' * 2],
          {'type': 'string'}]]


def _cls(props=(), meths=(), **kw):
    return ['class', 'Foo', [list(p) for p in props], [list(m) for m in meths], kw]


def class_specs():
    ms = (80, 40)
    # properties of every type and shape, with and without default
    for t in D.ALL_TYPES:
        for v, arr in value_shapes(t):
            for asz in ([None, 3] if arr else [None]):
                kw = {'type': t, 'is_array': arr}
                if asz:
                    kw['array_size'] = asz
                if t == 'reference':
                    if arr:
                        continue      # MOF has no arrays of references in properties
                    kw['reference_class'] = 'RefC'
                for m in ms:
                    yield _cls([['prop', 'P', v, kw]]), m
    yield _cls([['prop', 'P', ['n'], {'type': 'reference'}]]), 80
    # embedded object qualifiers
    for qs, eo in (([['qual', 'EmbeddedInstance', ['s', 'Emb'], {}]], 'instance'),
                   ([['qual', 'EmbeddedObject', ['b', True], {}]], 'object'),
                   ([['qual', 'EmbeddedInstance', ['s', 'Emb'], {}]], None)):
        for arr in (False, True):
            kw = {'type': 'string', 'is_array': arr, 'qualifiers': qs}
            if eo:
                kw['embedded_object'] = eo
            yield _cls([['prop', 'E', ['n'], kw]]), 80
            yield _cls([], [['meth', 'M', 'string', [['param', 'A', 'string',
                                                      {'is_array': arr, 'qualifiers': qs}]],
                             {'qualifiers': qs}]]), 80
    # methods: every return type; parameters of every kind
    params = []
    for t in D.ALL_TYPES:
        for arr, asz in ((False, None), (True, None), (True, 3)):
            kw = {'is_array': arr}
            if asz:
                kw['array_size'] = asz
            if t == 'reference':
                kw['reference_class'] = 'RefC'
            params.append(['param', 'A', t, kw])
            params.append(['param', 'A', t, dict(kw, qualifiers=[QPOOL[0], QPOOL[2]])])
    for t in TYPES14:
        for m in ms:
            yield _cls([], [['meth', 'M', t, [], {}]]), m
    for a in params:
        for m in ms:
            yield _cls([], [['meth', 'M', 'uint32', [a], {}]]), m
            yield _cls([], [['meth', 'M', 'uint32', [['param', 'Z', 'string', {}], a,
                                                     ['param', 'b', 'uint8', {'is_array': True}]],
                             {'qualifiers': QPOOL[:1]}]]), m
    yield _cls([], [['meth', 'M', 'uint32', [['param', 'A', 'reference', {}]], {}]]), 80
    # qualifier lists 0..3 at every position
    for n in range(0, 4):
        for qs in itertools.permutations(QPOOL, n):
            qs = [list(q) for q in qs]
            for m in ms:
                yield _cls(qualifiers=qs), m
                yield _cls([['prop', 'P', ['s', 'x'], {'type': 'string', 'qualifiers': qs}]]), m
                yield _cls([], [['meth', 'M', 'uint8', [], {'qualifiers': qs}]]), m
                yield _cls([], [['meth', 'M', 'uint8', [['param', 'A', 'sint8', {'qualifiers': qs}]], {}]]), m
    # qualifier values of every type and shape; flavors
    for t in TYPES14:
        for v, arr in value_shapes(t):
            if v == ['n'] and arr:
                continue
            for m in ms:
                yield _cls(qualifiers=[['qual', 'Q', v, {'type': t}]]), m
            yield _cls([['prop', 'P', ['n'], {'type': 'uint8', 'qualifiers': [['qual', 'Q', v, {'type': t}]]}]]), 80
    for fl in FLAVORS + [dict(toinstance=True)]:
        yield _cls(qualifiers=[['qual', 'Q', ['b', True], dict(fl)]]), 80
        yield _cls([['prop', 'P', ['n'], {'type': 'uint8', 'qualifiers': [
            ['qual', 'Q', ['a', [['s', 'x']]], dict(fl, type='string')]]}]]), 80
    yield _cls(qualifiers=[['qual', 'Association', ['b', True], {'overridable': False}],
                           ['qual', 'Indication', ['b', False], {}]]), 80
    yield _cls(qualifiers=[['qual', 'Q', ['b', True], {}]],
               props=[['prop', 'P', ['n'], {'type': 'uint8', 'qualifiers': [['qual', 'q', ['s', 'x'], {}]]}]]), 80
    # names, superclass
    for n in NAMES:
        yield ['class', n, [], [], {}], 80
        yield ['class', 'Sub', [], [], {'superclass': n if n in ASCII_NAMES else 'Base'}], 80
        yield _cls([['prop', n, ['n'], {'type': 'string'}]]), 80
        yield _cls([], [['meth', n, 'uint8', [], {}]]), 80
        yield _cls([], [['meth', 'M', 'uint8', [['param', n, 'uint8', {}]], {}]]), 80
        yield _cls([['prop', 'R', ['n'], {'type': 'reference',
                                         'reference_class': n if n in ASCII_NAMES else 'RefC'}]]), 80
    for n in ('Ref', 'True', 'null', 'Class', 'string'):
        yield ['class', n, [], [], {}], 80
    # small trees
    for n in range(0, 4):
        for props in itertools.permutations(PROP_POOL, n):
            for k in range(0, 3):
                for meths in itertools.permutations(METH_POOL, k):
                    yield ['class', 'Foo', [list(p) for p in props], [list(x) for x in meths],
                           {'superclass': None if k % 2 else 'Base', 'qualifiers': QPOOL[:n]}], 80


PROP_POOL = [['prop', 'P1', ['s', 'a'], {'type': 'string', 'qualifiers': QPOOL[1:2]}],
             ['prop', 'p2', ['i', 'uint8', 5], {}],
             ['prop', 'P3', ['a', [['dt', D.DATETIMES[0]], ['n']]], {'type': 'datetime'}],
             ['prop', 'R4', REFS[1], {'type': 'reference', 'reference_class': 'RefC'}],
             ['prop', 'n5', ['n'], {'type': 'real32', 'is_array': True, 'array_size': 4,
                                    'class_origin': 'Base', 'propagated': True, 'qualifiers': QPOOL[:3]}]]
METH_POOL = [['meth', 'M1', 'uint32', [], {}],
             ['meth', 'm2', 'string', [['param', 'A', 'string', {}],
                                       ['param', 'B', 'reference', {'reference_class': 'RefC', 'is_array': True}]],
              {'class_origin': 'Base', 'qualifiers': QPOOL[:1]}],
             ['meth', 'M3', 'boolean', [['param', 'Z', 'uint8', {'is_array': True, 'array_size': 3}],
                                        ['param', 'a', 'boolean', {'qualifiers': QPOOL[1:3]}]],
              {'propagated': True}]]


def emb(s, cls='Emb', extra=()):
    return ['inst', cls, [['prop', 'S', ['s', s], {'type': 'string'}],
                          ['prop', 'N', ['i', 'uint8', 1], {}]] + list(extra), None]


IPROP_POOL = [['prop', 'P1', ['s', 'a b'], {'type': 'string'}],
              ['prop', 'p2', ['i', 'sint64', -5], {}],
              ['prop', 'P3', ['a', [['dt', D.INTERVALS[2]], ['n']]], {'type': 'datetime'}],
              ['prop', 'R4', REFS[2], {'type': 'reference'}],
              ['prop', 'E5', emb('x "y"'), {'type': 'string', 'embedded_object': 'instance'}],
              ['prop', 'n6', ['n'], {'type': 'real32', 'is_array': True}],
              ['prop', 'C7', ['a', [['s', 'a'], ['s', 'b']]], {'type': 'char16'}]]


def inst_specs(tier):
    ms = (80, 40)
    for t in D.ALL_TYPES:
        for v, arr in value_shapes(t):
            kw = {'type': t, 'is_array': arr}
            if t == 'reference':
                if arr:
                    continue
                if v == ['n']:
                    kw['reference_class'] = 'RefC'
            for m in ms:
                yield ['inst', 'Foo', [['prop', 'P', v, kw]], None], m
    yield ['inst', 'Foo', [['prop', 'P', ['n'], {'type': 'reference'}]], None], 80
    yield ['inst', 'Foo', [], None], 80
    for n in ASCII_NAMES:
        yield ['inst', n, [['prop', n, ['s', 'x'], {}]], None], 80
    # embedded instances, one level
    for eo in ('instance', 'object'):
        for s in D.strings_over(MOF_ATOMS, BOUNDS[tier]['embedded_string_len']):
            yield ['inst', 'Foo', [['prop', 'E', emb(s), {'type': 'string', 'embedded_object': eo}]], None], 80
        for v in ([emb('a'), emb('b c')], [emb('a'), ['n']], [], [emb('a', extra=[
                ['prop', 'X', ['a', [['i', 'sint8', -1], ['n']]], {'type': 'sint8'}]])]):
            yield ['inst', 'Foo', [['prop', 'E', ['a', v], {'type': 'string', 'embedded_object': eo}]], None], 80
        yield ['inst', 'Foo', [['prop', 'E', ['n'], {'type': 'string', 'embedded_object': eo}]], None], 80
        yield ['inst', 'Foo', [['prop', 'E', ['n'], {'type': 'string', 'embedded_object': eo,
                                                     'is_array': True}]], None], 80
        for t in TYPES14:
            for v in scalars(t)[:4]:
                for m in ms:
                    yield ['inst', 'Foo', [['prop', 'E', emb('s', extra=[['prop', 'X', v, {'type': t}]]),
                                            {'type': 'string', 'embedded_object': eo}]], None], m
        # long inner strings make the embedded MOF fold
        for x in SPECIAL_ATOMS:
            for i in range(0, 81):
                yield ['inst', 'Foo', [['prop', 'E', emb('a' * i + x + 'a'),
                                        {'type': 'string', 'embedded_object': eo}]], None], 80
    yield ['inst', 'Foo', [['prop', 'E', ['class', 'EC', [], [], {}],
                            {'type': 'string', 'embedded_object': 'object'}]], None], 80
    # property sets
    for n in range(0, 4):
        for props in itertools.permutations(IPROP_POOL, n):
            yield ['inst', 'Foo', [list(p) for p in props], None], 80
    yield ['inst', 'Foo', [list(p) for p in IPROP_POOL], ['ipath', 'Foo', [['k', ['s', 'x']]], 'a', None],
           {'qualifiers': QPOOL[:1]}], 40


def object_cases(tier):
    return itertools.chain(qdecl_specs(), class_specs(), inst_specs(tier))


# ------------------------------------------------------------------------------------------
# strings in every context

def string_contexts(s):
    v = ['s', s]
    yield ['qdecl', 'Q', 'string', {'value': v, 'scopes': {'CLASS': True}}]
    yield ['qdecl', 'Q', 'string', {'value': ['a', [v, ['s', 'x'], v]], 'is_array': True,
                                    'scopes': {'CLASS': True}}]
    yield _cls([['prop', 'P', v, {'type': 'string'}]])
    yield _cls([['prop', 'P', ['a', [v, ['n'], v]], {'type': 'string'}]])
    yield _cls(qualifiers=[['qual', 'Q', v, {'type': 'string'}]])
    yield _cls([['prop', 'P', ['n'], {'type': 'uint8', 'qualifiers': [['qual', 'Q', ['a', [v, v]], {'type': 'string'}]]}]])
    yield ['inst', 'Foo', [['prop', 'P', v, {'type': 'string'}],
                           ['prop', 'A', ['a', [v, v]], {'type': 'string'}]], None]
    yield ['inst', 'Foo', [['prop', 'E', emb(s), {'type': 'string', 'embedded_object': 'instance'}]], None]
    if len(s) == 1 and ord(s) <= 0xFFFF:
        yield ['qdecl', 'Q', 'char16', {'value': v, 'scopes': {'CLASS': True}}]
        yield _cls([['prop', 'P', ['a', [v, v]], {'type': 'char16'}]])
        yield _cls(qualifiers=[['qual', 'Q', v, {'type': 'char16'}]])
        yield ['inst', 'Foo', [['prop', 'P', v, {'type': 'char16'}]], None]


def string_cases(tier):
    for s in D.strings_over(MOF_ATOMS, BOUNDS[tier]['string_len']):
        for spec in string_contexts(s):
            yield spec, 80


# ------------------------------------------------------------------------------------------
# fold sweeps

FOLD_CTX = ['qdecl', 'cprop', 'cqual', 'iarr']


def fold_spec(ctx, s):
    v = ['s', s]
    if ctx == 'qdecl':
        return ['qdecl', 'Q', 'string', {'value': v, 'scopes': {'CLASS': True}}]
    if ctx == 'cprop':
        return _cls([['prop', 'P', v, {'type': 'string'}]])
    if ctx == 'cqual':
        return _cls(qualifiers=[['qual', 'Q', v, {'type': 'string'}]])
    if ctx == 'iarr':
        return ['inst', 'Foo', [['prop', 'P', ['a', [['s', 'x'], v, ['n']]], {'type': 'string'}]], None]
    raise HarnessError(ctx)


def fold_string(i, x, j, blanks):
    s = 'a' * i + x + 'a' * j
    if blanks:
        cs = list(s)
        for k in range(9, len(cs), 10):
            if not (i <= k < i + len(x)):
                cs[k] = ' '
        s = ''.join(cs)
    return s


def fold_maxlines(tier):
    return [40, 41, 79, 80, 200] if tier == 'quick' else list(range(40, 121))


def fold_groups(tier):
    """maxlines dealt into groups of similar total cost"""
    ms = sorted(fold_maxlines(tier), reverse=True)
    n = 2 if tier == 'quick' else 4
    groups = [[] for _ in range(n)]
    for m in ms:
        min(groups, key=lambda g: (sum(g), len(g))).append(m)
    return [sorted(g) for g in groups]


def fold_cases(shard):
    for m in shard['maxlines']:
        for blanks in (False, True):
            for j in (0, 1, 7):
                for i in range(0, 3 * m + 1):
                    yield fold_spec(shard['ctx'], fold_string(i, shard['atom'], j, blanks)), m, \
                        (i, j, blanks)


def fold_shrinker(ctx, atom, i, j, blanks):
    """shrinks a failing sweep case inside the sweep family: no blanks, shorter tail, shorter
    run of leading characters"""
    def shrink(still):
        cur = [i, j, blanks]

        def attempt(ni, nj, nb):
            if still(fold_spec(ctx, fold_string(ni, atom, nj, nb))):
                cur[:] = [ni, nj, nb]
                return True
            return False
        if cur[2]:
            attempt(cur[0], cur[1], False)
        for nj in (0, 1):
            if nj < cur[1] and attempt(cur[0], nj, cur[2]):
                break
        progress = True
        while progress and cur[0] > 0:
            progress = False
            for ni in (0, cur[0] // 2, cur[0] - 1):
                if ni < cur[0] and attempt(ni, cur[1], cur[2]):
                    progress = True
                    break
        return fold_spec(ctx, fold_string(cur[0], atom, cur[1], cur[2]))
    return shrink


# ------------------------------------------------------------------------------------------
# harness-written literals

LIT_CTX = ['qdecl', 'inst']
LIT_SEPS = [' ', '\n      ']


def literal_text(case):
    return E.write(case['s'], case['style'], case['cuts'], case['sep'])


def literal_verdict(case):
    """-> (outcome, what, expected, observed)"""
    lit = literal_text(case)
    if E.denoted(lit) != case['s']:
        raise HarnessError('reference model is not self-consistent for %r' % (case,))
    comp, h = compiler()
    if case['ctx'] == 'qdecl':
        load_prelude('')
        text = 'Qualifier Q : string = %s,\n   Scope(any);\n' % lit
    else:
        err = load_prelude('class C {\n   string P;\n};\n')
        if err:
            return 'prelude-rejected', 'prelude-rejected:' + err, 'compiles', None
        text = 'instance of C {\n   P = %s;\n};\n' % lit
    err = compile_text(text)
    if err:
        return 'compile-failed', err, 'compiles', text[:300]
    if case['ctx'] == 'qdecl':
        got = h.qualifiers[NS]['Q'].value
    else:
        got = h.instances[NS][0].properties['P'].value
    if type(got) is not str:
        return 'differs', 'differs:type:' + type(got).__name__, case['s'], repr(got)
    if got != case['s']:
        return 'differs', 'differs:string:' + string_cause(case['s'], got), case['s'], got
    return 'ok', None, None, None


def literal_valid(c):
    if not isinstance(c, dict) or set(c) != {'check', 's', 'style', 'cuts', 'sep', 'ctx'}:
        return False
    if not isinstance(c['s'], str) or c['style'] not in E.STYLES or c['sep'] not in LIT_SEPS or \
            c['ctx'] not in LIT_CTX or c['check'] != 'literal' or not isinstance(c['cuts'], list):
        return False
    if any((not isinstance(x, int)) or isinstance(x, bool) or not 0 < x < len(c['s']) for x in c['cuts']):
        return False
    return c['cuts'] == sorted(set(c['cuts'])) and '\x00' not in c['s']


def literal_minimize(case, still):
    """greedy: delete one character (cuts move along), else drop one cut, until nothing helps"""
    progress = True
    while progress:
        progress = False
        s = case['s']
        cands = []
        for i in range(len(s)):
            s2 = s[:i] + s[i + 1:]
            cuts2 = sorted({c if c <= i else c - 1 for c in case['cuts']})
            cands.append(dict(case, s=s2, cuts=[c for c in cuts2 if 0 < c < len(s2)]))
        for c in case['cuts']:
            cands.append(dict(case, cuts=[x for x in case['cuts'] if x != c]))
        for c2 in cands:
            if still(c2):
                case = c2
                progress = True
                break
    return case


def literal_check(acc, case, minimize=True):
    out, what, exp, obs = literal_verdict(case)
    acc.case((case['s'], case['style'], tuple(case['cuts']), case['sep'], case['ctx']), calls=1,
             outcome='literal:%s:%s' % (out, 'multi-part' if case['cuts'] else 'one-part'))
    if what is None:
        return
    if not hasattr(acc, '_seen'):
        acc._seen = {}
    unit_kinds = tuple(sorted({_unit_kind(u) for u in _case_units(case)}))
    raw = (what, unit_kinds, bool(case['cuts']))
    if minimize and raw in acc._seen:
        acc.violations[acc._seen[raw]]['count'] += 1
        return
    if minimize:
        def still(c):
            return literal_valid(c) and literal_verdict(c)[1] == what
        case = literal_minimize(case, still)
        # canonical characters: the first atom (in alphabet order) that still fails
        for i in range(len(case['s'])):
            for atom in MOF_ATOMS:
                if atom == case['s'][i]:
                    break
                c2 = dict(case, s=case['s'][:i] + atom + case['s'][i + 1:])
                if still(c2):
                    case = c2
                    break
        for alt in itertools.product(LIT_CTX, LIT_SEPS[:1], E.STYLES):
            c2 = dict(case, ctx=alt[0], sep=alt[1], style=alt[2])
            if still(c2):
                case = c2
                break
        out, what, exp, obs = literal_verdict(case)
    sig = dict(check='literal', what=what, witness=ascii(literal_text(case)).replace('|', '/'))
    acc.violation(sig, case, exp, obs)
    if minimize:
        acc._seen[raw] = sigkey({k: str(x) for k, x in sig.items()})


def _case_units(case):
    lit = literal_text(case)
    us = []
    for body in E.split_parts(lit):
        i = 0
        while i < len(body):
            if body[i] == '\\':
                j = i + 2
                if body[i + 1] in 'xX':
                    while j < len(body) and j - i - 2 < 4 and body[j] in E.HEXDIGITS:
                        j += 1
                    us.append(body[i:j] + ('$' if j == len(body) else ''))
                else:
                    us.append(body[i:j])
                i = j
            else:
                i += 1
    return us


def _unit_kind(u):
    if u[1] in 'xX':
        return '\\%s%d%s' % (u[1], len(u.rstrip('$')) - 2, '$' if u.endswith('$') else '')
    return u


def literal_cases(tier):
    for s in D.strings_over(MOF_ATOMS, BOUNDS[tier]['literal_len']):
        cutsets = [[]] + [[i] for i in range(1, len(s))]
        if len(s) > 2:
            cutsets.append(list(range(1, len(s))))
        for style in E.STYLES:
            for cuts in cutsets:
                for sep in (LIT_SEPS if cuts else LIT_SEPS[:1]):
                    for ctx in LIT_CTX:
                        yield dict(check='literal', s=s, style=style, cuts=cuts, sep=sep, ctx=ctx)


# ------------------------------------------------------------------------------------------
# sub-check 'session': ONE compiler session in which a qualifier type is declared, used, declared
# again differently and used again (everything through tomof() text). What the compiler remembers
# from the first declaration must not leak into objects compiled after the second one.

SESSION_DECLS = [
    dict(type='string', is_array=False, value=['s', 'a'], flavors={}),
    dict(type='string', is_array=True, value=['a', [['s', 'a'], ['s', 'b']]], flavors={}),
    dict(type='uint32', is_array=False, value=['i', 'uint32', 7], flavors={}),
    dict(type='uint32', is_array=True, value=['a', [['i', 'uint32', 7]]], flavors={}),
    dict(type='boolean', is_array=False, value=['b', True], flavors={}),
    dict(type='string', is_array=False, value=['s', 'a'],
         flavors=dict(overridable=False, tosubclass=False, translatable=True)),
    dict(type='real64', is_array=False, value=D.fspec(1.5, 'real64'), flavors={}),
    dict(type='datetime', is_array=False, value=['dt', D.DATETIMES[0]], flavors={}),
]
SESSION_SITES = ['class', 'property', 'method', 'parameter']


def session_cases():
    for i, a in enumerate(SESSION_DECLS):
        for j, b in enumerate(SESSION_DECLS):
            if i != j:
                for site in SESSION_SITES:
                    yield dict(check='session', first=i, second=j, site=site)


def _session_objects(d, clsname, site):
    kw = dict(d['flavors'])
    qd = ['qdecl', 'Tag', d['type'], dict(kw, is_array=d['is_array'], scopes={'ANY': True})]
    q = ['qual', 'Tag', d['value'], dict(kw, type=d['type'])]
    cq = [q] if site == 'class' else []
    props = [['prop', 'P', ['n'], {'type': 'string', 'qualifiers': [q] if site == 'property' else []}]]
    param = ['param', 'A', 'string', {'qualifiers': [q] if site == 'parameter' else []}]
    meths = [['meth', 'M', 'uint32', [param], {'qualifiers': [q] if site == 'method' else []}]]
    return D.build(qd), D.build(['class', clsname, props, meths, {'qualifiers': cq}])


def session_check(acc, case):
    comp, h = reset()
    steps = []
    problem = None
    for k, (idx, clsname) in enumerate(((case['first'], 'S_First'), (case['second'], 'S_Second'))):
        qd, cls = _session_objects(SESSION_DECLS[idx], clsname, case['site'])
        for label, obj, store, key in (('declaration', qd, 'qualifiers', 'Tag'),
                                       ('class', cls, 'classes', clsname)):
            text = obj.tomof(80)
            steps.append(text)
            err = compile_text(text)
            if err:
                problem = ('%s-%d:%s' % (label, k + 1, err), 'compiles', text[:300])
                break
            got = getattr(h, store).get(NS, {}).get(key)
            if got is None:
                problem = ('%s-%d:object-missing' % (label, k + 1), key, None)
                break
            dd = diff(project(obj), project(got))
            if dd:
                problem = ('%s-%d:differs:%s' % (label, k + 1, describe(dd)), dd[1], dd[2])
                break
        if problem:
            break
    acc.case(('session', case['first'], case['second'], case['site']), nontrivial=True,
             outcome='session:' + ('ok' if problem is None else 'violation'), calls=4)
    if problem:
        what, exp, obs = problem
        acc.violation(dict(check='session', what=what, site=case['site']), dict(case), exp,
                      '%r after compiling in one session: %s' % (obs, ' | '.join(t.replace('\n', ' ')[:120] for t in steps)))


NPARTS = {'quick': {'objects': 24, 'strings': 24, 'literal': 16},
          'thorough': {'objects': 32, 'strings': 32, 'literal': 16}}


def plan(tier, seed):
    compiler()          # built once in the parent; forked workers inherit it
    shards = []
    for name in ('objects', 'strings', 'literal'):
        n = NPARTS[tier][name]
        shards += [dict(check=name, part=i, of=n) for i in range(n)]
    for ctx in FOLD_CTX:
        for atom in SPECIAL_ATOMS:
            for g in fold_groups(tier):
                shards.append(dict(check='fold', ctx=ctx, atom=atom, maxlines=g))
    shards += [dict(check='session', part=i, of=4) for i in range(4)]
    return shards


def run_shard(shard, tier):
    warnings.simplefilter('ignore')
    acc = Acc()
    name = shard['check']
    if name == 'fold':
        for spec, m, (i, j, blanks) in fold_cases(shard):
            check_case(acc, spec, m, 'fold',
                       shrink=fold_shrinker(shard['ctx'], shard['atom'], i, j, blanks))
        return acc
    if name == 'session':
        for i, case in enumerate(session_cases()):
            if i % shard['of'] == shard['part']:
                session_check(acc, case)
        return acc
    if name == 'literal':
        if shard['part'] == 0:
            E.selftest()
        for i, case in enumerate(literal_cases(tier)):
            if i % shard['of'] == shard['part']:
                literal_check(acc, case)
        return acc
    gen = object_cases(tier) if name == 'objects' else string_cases(tier)
    for i, (spec, m) in enumerate(gen):
        if i % shard['of'] == shard['part']:
            check_case(acc, spec, m, name, max_tests=1500 if name == 'objects' else 300,
                       sample=(name == 'objects' and shard['part'] == 0))
    return acc


def replay(case, tier):
    warnings.simplefilter('ignore')
    acc = Acc()
    if case.get('check') == 'session':
        session_check(acc, dict(case))
    elif case.get('check') == 'literal':
        literal_check(acc, dict(case), minimize=False)
    else:
        check_case(acc, case['spec'], case['maxline'], 'replay', minimize=False)
    return acc


def snippet(case):
    if case.get('check') == 'literal':
        return ('import sys; sys.path.insert(0, "/verif")\n'
                'import mc\nfrom checks import c08_mof_roundtrip as c\n'
                'def test_replay():\n'
                '    out = c.literal_verdict(%r)\n'
                '    assert out[1] is None, out\n' % (case,))
    return ('import sys; sys.path.insert(0, "/verif")\n'
            'import mc\nfrom checks import c08_mof_roundtrip as c\n'
            'def test_replay():\n'
            '    v = c.verdict(%r, %r)\n'
            '    assert v.what is None, (v.what, v.where, v.cause, v.expected, v.observed)\n'
            % (case.get('spec'), case.get('maxline')))
