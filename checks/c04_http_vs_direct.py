"""C04 — operations over HTTP/CIM-XML equal the same operations done directly (mode H, differential).

X = real WBEMConnection whose HTTP session goes to mc.facade.Facade(F); M = FakedWBEMConnection
(direct). F and M start as deep copies of one repository. BFS over event sequences; after every
event: (1) what the facade decoded equals what M's _imethodcall/_methodcall received,
(2) outcome(X) == outcome(M), (3) repository dumps of F and M are equal.
"""
import copy
import itertools
import json
import warnings

import pywbem
from pywbem import CIMError, Error

from mc.core import Acc, HarnessError
from mc import domains as D
from mc import world, facade, transport, ops
from mc.objdump import dump, diff, path_class, norm

ID = 'C04'
RULE = ('events = intrinsic operations and InvokeMethod with argument shapes over a small generated '
        'repository (2 namespaces, class tree, all property types, association, method provider), '
        'explored breadth-first to the stated depth with dedup on the canonical dump of both '
        'repositories + open sessions; non-trivial = the request reached the server side')
ASSUMPTIONS = ['mc/facade.py: DSP0200 parameter-type and return-element tables (harness code)',
               'where CIM-XML needs a host and the repository object has none, the facade supplies '
               "'facadehost' and the comparison maps it back to None",
               'result lists are compared as multisets; enumeration context ids are opaque']
BOUNDS = {'quick': {'depth': 2, 'second_step_events': 'all'},
          'thorough': {'depth': 3, 'note': 'depth 3 only through sequences with a write'}}

NS = [None, 'root/other', 'root/nope']
S = lambda x: ['s', x]   # noqa
N = ['n']
J = lambda x: ['j', x]   # noqa

B1 = ['ipath', 'TST_Base', [['k', S('a')]], None, None]
B1_CASE = ['ipath', 'tst_BASE', [['K', S('a')]], None, None]
B1_OTHER = ['ipath', 'TST_Base', [['k', S('a')]], 'root/other', None]
B1_HOST = ['ipath', 'TST_Base', [['k', S('a')]], 'root/cimv2', 'somehost']
SUB1 = ['ipath', 'TST_Sub', [['k', S('sub')]], None, None]
C16 = ['ipath', 'TST_Base', [['k', S('c16')]], None, None]
O1 = ['ipath', 'TST_Other', [['id', ['i', 'uint32', 1]], ['f', ['b', True]]], None, None]
O1_UNTYPED = ['ipath', 'TST_Other', [['F', ['b', True]], ['ID', ['i', None, 1]]], None, None]
NOPE_I = ['ipath', 'TST_Base', [['k', S('nope')]], None, None]
NOPE_C = ['ipath', 'TST_Nope', [['k', S('a')]], None, None]

NEW_INST = ['inst', 'TST_Base', [
    ['prop', 'k', S('new'), {}], ['prop', 'p', ['i', 'uint8', 200], {}],
    ['prop', 's', ['a', [S('a<b'), N, S(' c ')]], {'type': 'string'}],
    ['prop', 'd', ['dt', D.INTERVALS[2]], {}], ['prop', 'r', ['r', 'real32', (0.5).hex()], {}],
    ['prop', 'b', ['b', False], {}], ['prop', 'n', ['i', 'sint64', -2**63], {}],
    ['prop', 'c', S('é'), {'type': 'char16'}],
    ['prop', 'eo', ['inst', 'TST_Other', [['prop', 'id', ['i', 'uint32', 5], {}]], None],
     {'type': 'string', 'embedded_object': 'object'}]], None]
NEW_INST_MIN = ['inst', 'TST_Base', [['prop', 'k', S('min'), {}]], None]
NEW_INST_NULLS = ['inst', 'TST_Base', [['prop', 'k', S('nul'), {}], ['prop', 'p', N, {'type': 'uint8'}],
                                       ['prop', 's', N, {'type': 'string', 'is_array': True}]], None]
DUP_INST = ['inst', 'TST_Base', [['prop', 'k', S('a'), {}]], None]
NOKEY_INST = ['inst', 'TST_Base', [['prop', 'p', ['i', 'uint8', 1], {}]], None]
BADCLS_INST = ['inst', 'TST_Nope', [['prop', 'k', S('x'), {}]], None]
BADPROP_INST = ['inst', 'TST_Base', [['prop', 'k', S('bp'), {}], ['prop', 'zz', S('x'), {}]], None]
NEW_ASSOC = ['inst', 'TST_Assoc', [['prop', 'x', ['ipath', 'TST_Base', [['k', S('B')]], 'root/cimv2', None], {'type': 'reference'}],
                                   ['prop', 'y', ['ipath', 'TST_Other', [['id', ['i', 'uint32', 2]], ['f', ['b', False]]], 'root/cimv2', None],
                                    {'type': 'reference'}]], None]


def mod_inst(path, props):
    return ['inst', path[1], props, path]


# CIM-XML cannot say "flavor unspecified" (absent attributes mean the DSP0201 defaults), so class
# arguments carry fully specified qualifier flavors; with None flavors the server would take them
# from the qualifier declaration on the direct path only.
FL_KEY = {'overridable': False, 'tosubclass': True, 'toinstance': False, 'translatable': False, 'propagated': False}
FL_DESC = {'overridable': True, 'tosubclass': True, 'toinstance': False, 'translatable': True, 'propagated': False}
QKEY = ['qual', 'Key', ['b', True], FL_KEY]
QIN = ['qual', 'In', ['b', True], FL_KEY]

NEW_CLASS = ['class', 'TST_New', [
    ['prop', 'k', N, {'type': 'string', 'qualifiers': [QKEY]}],
    ['prop', 'v', ['i', 'uint16', 7], {'type': 'uint16'}],
    ['prop', 'arr', N, {'type': 'string', 'is_array': True, 'array_size': 3}]],
    [['meth', 'Do', 'uint32', [['param', 'a', 'string', {'qualifiers': [QIN]}]], {}]],
    {'qualifiers': [['qual', 'Description', S('new <class>'), FL_DESC]]}]
NEW_SUBCLASS = ['class', 'TST_Sub2', [['prop', 'z', N, {'type': 'boolean'}]], [], {'superclass': 'TST_Sub'}]
DUP_CLASS = ['class', 'TST_Base', [['prop', 'k', N, {'type': 'string', 'qualifiers': [QKEY]}]], [], {}]
BAD_SUPER = ['class', 'TST_Bad', [], [], {'superclass': 'TST_Nope'}]
MOD_CLASS = ['class', 'TST_Other', [
    ['prop', 'id', N, {'type': 'uint32', 'qualifiers': [QKEY]}],
    ['prop', 'f', N, {'type': 'boolean', 'qualifiers': [QKEY]}],
    ['prop', 't', N, {'type': 'string'}], ['prop', 'extra', N, {'type': 'uint8'}]], [], {}]
NEW_QUAL = ['qdecl', 'NewQ', 'uint32', {'value': ['i', 'uint32', 5], 'scopes': {'PROPERTY': True, 'METHOD': True},
                                       'overridable': False, 'tosubclass': True}]
NEW_QUAL_ARR = ['qdecl', 'NewQA', 'string', {'is_array': True, 'value': ['a', [S('a'), S('b<')]], 'scopes': {'ANY': True}}]


def events():
    ev = []

    def add(op, **args):
        ev.append([op, args])
    for ns in NS:
        for cn in ('TST_Base', 'tst_base', 'TST_Sub', 'TST_Nope'):
            add('EnumerateInstances', ClassName=S(cn), namespace=S(ns) if ns else N)
            add('EnumerateInstanceNames', ClassName=S(cn), namespace=S(ns) if ns else N)
        add('EnumerateClasses', namespace=S(ns) if ns else N)
        add('EnumerateClassNames', namespace=S(ns) if ns else N)
        add('EnumerateQualifiers', namespace=S(ns) if ns else N)
        add('GetClass', ClassName=S('TST_Sub'), namespace=S(ns) if ns else N)
        add('CreateInstance', NewInstance=NEW_INST_MIN, namespace=S(ns) if ns else N)
    add('EnumerateInstances', ClassName=['cpath', 'TST_Base', 'root/other', None])
    add('EnumerateInstances', ClassName=['cpath', 'TST_Base', 'root/other', 'h'], namespace=S('root/cimv2'))
    for flag in ('LocalOnly', 'DeepInheritance', 'IncludeQualifiers', 'IncludeClassOrigin'):
        for v in (True, False):
            add('EnumerateInstances', ClassName=S('TST_Base'), **{flag: J(v)})
            add('GetInstance', InstanceName=SUB1, **{f: J(v) for f in [flag] if flag != 'DeepInheritance'})
            add('GetClass', ClassName=S('TST_Sub'), **{f: J(v) for f in [flag] if flag != 'DeepInheritance'})
            add('EnumerateClasses', **{flag: J(v)})
    for pl in (['a', []], S('p'), ['a', [S('P'), S('q')]], ['a', [S('nope')]], ['t', [S('k')]]):
        add('EnumerateInstances', ClassName=S('TST_Base'), PropertyList=pl)
        add('GetInstance', InstanceName=SUB1, PropertyList=pl)
        add('GetClass', ClassName=S('TST_Sub'), PropertyList=pl)
        add('ModifyInstance', ModifiedInstance=mod_inst(B1, [['prop', 'p', ['i', 'uint8', 9], {}],
                                                             ['prop', 's', ['a', [S('m')]], {'type': 'string'}]]),
            PropertyList=pl)
    for ip in (B1, B1_CASE, B1_OTHER, B1_HOST, SUB1, C16, O1, O1_UNTYPED, NOPE_I, NOPE_C):
        add('GetInstance', InstanceName=ip)
        add('DeleteInstance', InstanceName=ip)
    for inst in (NEW_INST, NEW_INST_NULLS, DUP_INST, NOKEY_INST, BADCLS_INST, BADPROP_INST, NEW_ASSOC):
        add('CreateInstance', NewInstance=inst)
    add('ModifyInstance', ModifiedInstance=mod_inst(B1, [['prop', 'p', ['i', 'uint8', 9], {}]]))
    add('ModifyInstance', ModifiedInstance=mod_inst(B1_OTHER, [['prop', 'b', ['b', False], {}], ['prop', 'd', N, {'type': 'datetime'}]]))
    add('ModifyInstance', ModifiedInstance=mod_inst(NOPE_I, [['prop', 'p', ['i', 'uint8', 9], {}]]))
    add('ModifyInstance', ModifiedInstance=mod_inst(B1, [['prop', 'k', S('changed'), {}]]))
    add('ModifyInstance', ModifiedInstance=mod_inst(B1, [['prop', 'p', S('wrongtype'), {}]]))
    # associations
    for op in ('Associators', 'AssociatorNames', 'References', 'ReferenceNames'):
        for on in (B1, B1_OTHER, SUB1, O1, NOPE_I, S('TST_Base'), S('TST_Other'), ['cpath', 'TST_Base', 'root/other', None],
                   S('TST_Nope')):
            add(op, ObjectName=on)
        filt = [dict(ResultClass=S('TST_Assoc' if op.startswith('Ref') else 'TST_Other')),
                dict(Role=S('x')), dict(Role=S('Y')), dict(ResultClass=S('TST_Nope'))]
        if op.startswith('Assoc'):
            filt += [dict(AssocClass=S('TST_Assoc')), dict(ResultRole=S('y')), dict(ResultRole=S('x')),
                     dict(AssocClass=['cpath', 'TST_Assoc', None, None], ResultClass=S('tst_other'), Role=S('x'), ResultRole=S('y'))]
        for f in filt:
            add(op, ObjectName=B1, **f)
            add(op, ObjectName=S('TST_Base'), **f)
        if op in ('Associators', 'References'):
            add(op, ObjectName=B1, IncludeQualifiers=J(True), IncludeClassOrigin=J(True), PropertyList=['a', [S('t')]])
            add(op, ObjectName=S('TST_Base'), IncludeQualifiers=J(False), IncludeClassOrigin=J(True))
    add('ExecQuery', QueryLanguage=S('WQL'), Query=S('SELECT * FROM TST_Base'))
    add('ExecQuery', QueryLanguage=S('DMTF:CQL'), Query=S('SELECT * FROM TST_Base'), namespace=S('root/other'))
    # classes and qualifiers
    for cn in ('TST_Base', 'TST_Sub', 'tst_other', 'TST_Assoc', 'TST_Nope'):
        add('GetClass', ClassName=S(cn))
        add('DeleteClass', ClassName=S(cn))
        add('EnumerateClasses', ClassName=S(cn))
        add('EnumerateClassNames', ClassName=S(cn), DeepInheritance=J(True))
    add('GetClass', ClassName=['cpath', 'TST_Sub', 'root/other', None], LocalOnly=J(False), IncludeQualifiers=J(True), IncludeClassOrigin=J(True))
    for c in (NEW_CLASS, NEW_SUBCLASS, DUP_CLASS, BAD_SUPER):
        add('CreateClass', NewClass=c)
    add('CreateClass', NewClass=NEW_CLASS, namespace=S('root/other'))
    add('ModifyClass', ModifiedClass=MOD_CLASS)
    add('ModifyClass', ModifiedClass=NEW_CLASS)
    for qn in ('Key', 'description', 'Nope'):
        add('GetQualifier', QualifierName=S(qn))
        add('DeleteQualifier', QualifierName=S(qn))
    add('GetQualifier', QualifierName=S('Key'), namespace=S('root/other'))
    add('SetQualifier', QualifierDeclaration=NEW_QUAL)
    add('SetQualifier', QualifierDeclaration=NEW_QUAL_ARR, namespace=S('root/other'))
    # methods
    echo = [dict(a=S('he<l>&lo')), dict(bo=['b', False]), dict(bo=['b', True]), dict(u=['a', [['i', 'uint8', 1], ['i', 'uint8', 255]]]),
            dict(dt=['dt', D.DATETIMES[0]]), dict(rf=B1_OTHER),
            dict(a=S(''), u=['a', []], bo=['b', False], dt=['dt', D.INTERVALS[2]], rf=['ipath', 'TST_Base', [['k', S('B')]], 'root/cimv2', None])]
    for p in echo:
        add('InvokeMethod', MethodName=S('Echo'), ObjectName=B1,
            Params=['a', [['t', [S(k), v]] for k, v in sorted(p.items())]])
    add('InvokeMethod', MethodName=S('echo'), ObjectName=B1_OTHER, Params=['a', [['t', [S('A'), S('x')]]]])
    add('InvokeMethod', MethodName=S('Echo'), ObjectName=B1,
        Params=['a', [['param', 'a', 'string', {'value': S('viaparam')}], ['param', 'bo', 'boolean', {'value': ['b', False]}]]])
    # CIMParameter objects whose declared type is not the one inferred from the Python value: the
    # declared type must reach the server (both paths then agree, whatever the server answers)
    add('InvokeMethod', MethodName=S('Echo'), ObjectName=B1,
        Params=['a', [['param', 'a', 'char16', {'value': S('x')}]]])
    add('InvokeMethod', MethodName=S('Echo'), ObjectName=B1,
        Params=['a', [['param', 'u', 'uint16', {'value': ['a', [['i', 'uint16', 1]]], 'is_array': True}]]])
    add('InvokeMethod', MethodName=S('SEcho'), ObjectName=S('TST_Base'), Params=['a', [['t', [S('bo'), ['b', False]]]]])
    add('InvokeMethod', MethodName=S('SEcho'), ObjectName=['cpath', 'TST_Base', 'root/other', None], Params=['a', [['t', [S('bo'), ['b', True]]]]])
    add('InvokeMethod', MethodName=S('SEcho'), ObjectName=B1, Params=['a', [['t', [S('bo'), ['b', False]]]]])
    add('InvokeMethod', MethodName=S('Nope'), ObjectName=B1)
    add('InvokeMethod', MethodName=S('Echo'), ObjectName=NOPE_I)
    add('InvokeMethod', MethodName=S('Echo'), ObjectName=B1, Params=['a', [['t', [S('zz'), S('x')]]]])
    # open / pull / close
    for moc in (N, J(0), J(1), J(100)):
        add('OpenEnumerateInstances', ClassName=S('TST_Base'), MaxObjectCount=moc)
        add('OpenEnumerateInstancePaths', ClassName=S('TST_Base'), MaxObjectCount=moc)
        add('OpenAssociatorInstances', InstanceName=B1, MaxObjectCount=moc)
        add('OpenAssociatorInstancePaths', InstanceName=B1, MaxObjectCount=moc)
        add('OpenReferenceInstances', InstanceName=O1, MaxObjectCount=moc)
        add('OpenReferenceInstancePaths', InstanceName=O1, MaxObjectCount=moc)
    add('OpenEnumerateInstances', ClassName=S('TST_Base'), namespace=S('root/other'), DeepInheritance=J(False),
        IncludeClassOrigin=J(True), PropertyList=['a', [S('p')]], OperationTimeout=J(5), ContinueOnError=J(False), MaxObjectCount=J(1))
    add('OpenEnumerateInstances', ClassName=S('TST_Base'), FilterQueryLanguage=S('DMTF:FQL'), FilterQuery=S('p = 1'))
    add('OpenEnumerateInstances', ClassName=S('TST_Nope'))
    add('OpenQueryInstances', FilterQueryLanguage=S('DMTF:CQL'), FilterQuery=S('SELECT * FROM TST_Base'), MaxObjectCount=J(1))
    for op in ('PullInstancesWithPath', 'PullInstancePaths', 'PullInstances'):
        for moc in (0, 1, 100):
            ev.append([op, {'context': ['session'], 'MaxObjectCount': J(moc)}])
    ev.append(['CloseEnumeration', {'context': ['session']}])
    ev.append(['PullInstancesWithPath', {'context': ['t', [S('bogus'), S('root/cimv2')]], 'MaxObjectCount': J(1)}])
    ev.append(['CloseEnumeration', {'context': ['t', [S('bogus'), S('root/cimv2')]]}])
    # iter
    add('IterEnumerateInstances', ClassName=S('TST_Base'), MaxObjectCount=J(1))
    add('IterEnumerateInstancePaths', ClassName=S('TST_Base'), namespace=S('root/other'), MaxObjectCount=J(2))
    add('IterAssociatorInstances', InstanceName=B1, MaxObjectCount=J(1))
    add('IterReferenceInstancePaths', InstanceName=O1, MaxObjectCount=J(1))
    return ev


EVENTS = None
WRITE_OPS = {'CreateInstance', 'ModifyInstance', 'DeleteInstance', 'CreateClass', 'ModifyClass', 'DeleteClass',
             'SetQualifier', 'DeleteQualifier'}
SESSION_OPS = {'OpenEnumerateInstances', 'OpenEnumerateInstancePaths', 'OpenAssociatorInstances',
               'OpenAssociatorInstancePaths', 'OpenReferenceInstances', 'OpenReferenceInstancePaths',
               'OpenQueryInstances', 'PullInstancesWithPath', 'PullInstancePaths', 'PullInstances',
               'CloseEnumeration'}


def get_events():
    global EVENTS
    if EVENTS is None:
        EVENTS = events()
    return EVENTS


# ------------------------------------------------------------------------------------------
# state

class State:
    def __init__(self, default_ns='root/cimv2'):
        base = world.make_conn(default_namespace=default_ns)
        self.M = base
        self.F = world.clone(base)
        self.ctx_x = None      # last context returned on the X side
        self.ctx_m = None
        self.default_ns = default_ns

    def clone(self):
        s = State.__new__(State)
        s.M = world.clone(self.M)
        s.F = world.clone(self.F)
        s.ctx_x, s.ctx_m, s.default_ns = self.ctx_x, self.ctx_m, self.default_ns
        return s

    def key(self):
        return (world.repo_key(self.M), world.repo_key(self.F),
                session_key(self.M, self.ctx_m), session_key(self.F, self.ctx_x))


def session_key(conn, ctx):
    table = conn._mainprovider.enumeration_contexts
    if ctx is None or ctx[0] not in table:
        return (len(table), None)
    e = table[ctx[0]]
    return (len(table), e.get('pull_type'), len(e.get('data', [])))


_BASE = {}


def base_state(default_ns):
    if default_ns not in _BASE:
        _BASE[default_ns] = State(default_ns)
    return _BASE[default_ns].clone()


# ------------------------------------------------------------------------------------------
# one step on both sides

def _args_for(side_ctx, args):
    out = {}
    for k, v in args.items():
        if v == ['session']:
            out[k] = side_ctx
        else:
            out[k] = D.build(v)
    return out


def _outcome(fn):
    try:
        r = fn()
        return ('ok', r)
    except CIMError as exc:
        return ('CIMError', exc.status_code)
    except Error as exc:
        return ('pywbem.' + type(exc).__name__, None)
    except (ValueError, TypeError) as exc:
        return ('local:' + type(exc).__name__, None)


def _call(conn, op, kw):
    r = getattr(conn, op)(**kw)
    if op.startswith('Iter'):
        r = list(r)
    return r


def norm_result(r):
    """strict dump with the facade's host mapped back, lists sorted (multisets), contexts opaque"""
    d = _dump_result(r)
    return d


HOSTS_OF_THE_SETUP = (facade.FACADE_HOST, 'FakedUrl:5988', 'h:5988')


def _strip_host(d):
    """hosts that only name one of the three connections of the setup are not compared"""
    if isinstance(d, list):
        if len(d) == 2 and d[0] == 'host' and isinstance(d[1], list) and d[1][0] == 'str' and \
                d[1][1] in HOSTS_OF_THE_SETUP:
            return ['host', None]
        return [_strip_host(x) for x in d]
    return d


def _dump_result(r):
    if isinstance(r, tuple) and hasattr(r, '_fields'):     # pull result named tuples
        out = ['nt', type(r).__name__]
        for f in r._fields:
            v = getattr(r, f)
            if f == 'context':
                out.append([f, None if v is None else ['ctx', v[1]]])
            else:
                out.append([f, _dump_result(v)])
        return out
    if isinstance(r, list):
        return ['multiset', sorted((_dump_result(x) for x in r), key=lambda x: json.dumps(x, sort_keys=True, default=repr))]
    if isinstance(r, tuple):
        return ['tuple', [_dump_result(x) for x in r]]
    if hasattr(r, 'items') and not hasattr(r, 'classname'):
        return ['dict', sorted(([k.lower(), _dump_result(v)] for k, v in r.items()), key=lambda kv: kv[0])]
    return norm(_strip_host(dump(r)))


def step(state, event):
    """run event on both sides -> (what|None, where, expected, observed, reached_server)"""
    op, args = event
    M, F = state.M, state.F
    M.default_namespace = state.default_ns
    if any(v == ['session'] for v in args.values()) and (state.ctx_x is None or state.ctx_m is None):
        return 'skip', None, None, None, False
    # --- M side, recording what the object-level entry point receives
    rec = []
    orig_i, orig_m = M._imethodcall, M._methodcall

    def rec_i(methodname, namespace, response_params_rqd=None, **params):
        rec.append(('imethod', methodname, namespace,
                    copy.deepcopy({k: v for k, v in params.items()
                                   if v is not None and k not in ('has_return_value', 'has_out_params')})))
        return orig_i(methodname, namespace, response_params_rqd=response_params_rqd, **params)

    def rec_m(methodname, objectname, Params=None, **params):
        rec.append(('method', methodname, copy.deepcopy(objectname), copy.deepcopy(Params), copy.deepcopy(params)))
        return orig_m(methodname, objectname, Params, **params)
    M._imethodcall, M._methodcall = rec_i, rec_m
    kw_m = _args_for(state.ctx_m, args)
    try:
        out_m = _outcome(lambda: _call(M, op, kw_m))
    finally:
        M._imethodcall, M._methodcall = orig_i, orig_m
    # --- X side
    fac = facade.Facade(F)
    X, _ = transport.connect(fac, default_namespace=state.default_ns, use_pull_operations=True
                             if op.startswith('Iter') else None)
    M.use_pull_operations  # noqa  (M keeps its own default)
    ctx_x_before = state.ctx_x
    kw_x = _args_for(state.ctx_x, args)
    out_x = _outcome(lambda: _call(X, op, kw_x))
    reached = bool(fac.log)
    # --- (0) the caller's argument objects are his own: an operation that changes them changes what
    # the caller supplies to his next operation (on either path)
    for side, kw, ctx in (('http', kw_x, ctx_x_before), ('direct', kw_m, state.ctx_m)):
        fresh = _args_for(ctx, args)
        for k in sorted(kw):
            if args[k] == ['session']:
                continue
            d = diff(_dump_result(fresh[k]), _dump_result(kw[k]))
            if d:
                return 'argument-modified', '%s:%s:%s:%s' % (op_family(op), side, k, path_class(d[0])), \
                    d[1], d[2], reached
    # remember sessions
    for out, attr in ((out_x, 'ctx_x'), (out_m, 'ctx_m')):
        if out[0] == 'ok' and hasattr(out[1], 'context') and op.startswith('Open'):
            setattr(state, attr, out[1].context)
    # --- (2) outcomes
    if out_x[0] != out_m[0]:
        return 'outcome-kind', op_family(op), out_m[0:1] + ((out_m[1],) if out_m[0] != 'ok' else ()), \
            out_x[0:1] + ((out_x[1],) if out_x[0] != 'ok' else ()), reached
    if out_x[0] != 'ok':
        if out_x[1] != out_m[1]:
            return 'status-code', op_family(op), out_m[1], out_x[1], reached
    else:
        dm, dx = norm_result(out_m[1]), norm_result(out_x[1])
        d = diff(dm, dx)
        if d:
            return 'result', op_family(op) + ':' + path_class(d[0]), d[1], d[2], reached
    # --- (1) server saw what the caller supplied
    if not op.startswith('Iter'):
        d = compare_seen(rec, fac.log)
        if d:
            return 'server-saw', op_family(op) + ':' + str(d[0]), d[1], d[2], reached
        # independent of the direct path: the harness' own DSP0200 marshalling rules
        try:
            exp_view = expected_server_view(op, args, state.default_ns, ctx_x_before)
        except (ValueError, TypeError, AttributeError):
            exp_view = None
        d = compare_server_view(exp_view, fac.log)
        if d:
            return 'server-view', op_family(op) + ':' + str(d[0]), d[1], d[2], reached
        if out_x[0] == 'ok':
            d = completion_rule(op, args, state.default_ns, out_x[1])
            if d:
                return 'completion', op_family(op) + ':' + str(d[0]), d[1], d[2], reached
    # --- (3) repositories stay equal
    if not may_change_state(op):
        return None, None, None, None, reached
    rm, rf = norm(world.repo_dump(M)), norm(world.repo_dump(F))
    if rm != rf:
        d = diff(rm, rf)
        return 'repository-diverged', op_family(op) + ':' + path_class(d[0] if d else ''), \
            d[1] if d else None, d[2] if d else None, reached
    return None, None, None, None, reached


def op_family(op):
    return op


def compare_seen(rec, log):
    """M-side recorded entry-point arguments vs what the facade decoded from the XML"""
    if len(rec) != len(log):
        # local failures on one side only would already have shown as outcome difference
        if not rec or not log:
            return None
        return 'call-count', len(rec), len(log)
    for r, l in zip(rec, log):
        if r[0] != l[0]:
            return 'kind', r[0], l[0]
        if r[1] != l[1]:
            return 'methodname', r[1], l[1]
        if r[0] == 'imethod':
            if r[2] != l[2]:
                return 'namespace', r[2], l[2]
            pm = {k: norm(dump(_plain(v))) for k, v in r[3].items()}
            px = {k: norm(dump(_plain(v))) for k, v in l[3].items()}
            if set(pm) != set(px):
                return 'param-names', sorted(pm), sorted(px)
            for k in sorted(pm):
                if k == 'EnumerationContext':
                    continue      # opaque id, each side has its own
                d = diff(pm[k], px[k])
                if d:
                    return 'param:' + k + ':' + path_class(d[0]), d[1], d[2]
        else:
            # local object: M side gets the caller's object, the facade the LOCAL*PATH
            mo = r[2]
            if isinstance(mo, str):
                mo = pywbem.CIMClassName(mo)
            mo = mo.copy()
            if mo.namespace is None:
                mo.namespace = None
            lo = l[2]
            if type(mo) is not type(lo) or mo.classname != lo.classname:
                return 'target', repr(mo), repr(lo)
            if isinstance(mo, pywbem.CIMInstanceName):
                d = diff(dump(mo.keybindings), dump(lo.keybindings))
                if d:
                    return 'target-keys:' + path_class(d[0]), d[1], d[2]
            if mo.namespace is not None and mo.namespace != lo.namespace:
                return 'target-namespace', mo.namespace, lo.namespace
            pm = []
            for p in (r[3] or []):
                if isinstance(p, pywbem.CIMParameter):
                    pm.append((p.name, norm(dump(p.value))))
                else:
                    pm.append((p[0], norm(dump(p[1]))))
            pm += [(k, norm(dump(v))) for k, v in r[4].items()]
            px = [(n, norm(dump(facade._type_param(v, t)))) for n, t, v in l[3]]
            if [n for n, _ in pm] != [n for n, _ in px]:
                return 'method-param-names', [n for n, _ in pm], [n for n, _ in px]
            for (n, a), (_, b) in zip(pm, px):
                d = diff(_strip_host(a), _strip_host(b))
                if d:
                    return 'method-param:' + path_class(d[0]), d[1], d[2]
    return None


def _plain(v):
    # a property list given as tuple travels as VALUE.ARRAY: same content, list on the server
    if isinstance(v, tuple):
        return list(v)
    return v



# ------------------------------------------------------------------------------------------
# independent reference for marshalling: what the server must see for a call (DSP0200 + the
# operation docstrings), computed from the caller's arguments by the harness alone

OBJ_PARAMS = ('ClassName', 'InstanceName', 'ObjectName')
CLASSNAME_PARAMS = ('ClassName', 'AssocClass', 'ResultClass')


def expected_server_view(op, args, default_ns, ctx):
    """-> (methodname, namespace, {param: value}) or None when the harness has no rule"""
    if op.startswith('Iter') or op in ('InvokeMethod', 'ExportIndication'):
        return None
    a = {}
    for k, v in args.items():
        a[k] = tuple(ctx) if v == ['session'] and ctx else (None if v == ['session'] else D.build(v))
    ns = a.pop('namespace', None)
    params = {}
    if 'context' in a:
        c = a.pop('context')
        if not (isinstance(c, tuple) and len(c) == 2):
            return None
        ns = c[1]
        params['EnumerationContext'] = c[0]
    for name in OBJ_PARAMS:
        o = a.get(name)
        if ns is None and isinstance(o, (pywbem.CIMClassName, pywbem.CIMInstanceName)) and o.namespace is not None:
            ns = o.namespace
    for name in ('NewInstance', 'ModifiedInstance'):
        o = a.get(name)
        if ns is None and o is not None and o.path is not None and o.path.namespace is not None:
            ns = o.path.namespace
    if ns is None:
        ns = default_ns
    ns = ns.strip('/')
    for k, v in a.items():
        if v is None:
            continue
        if k in CLASSNAME_PARAMS or (k == 'ObjectName' and not isinstance(v, pywbem.CIMInstanceName)):
            cn = v.classname if isinstance(v, pywbem.CIMClassName) else v
            v = pywbem.CIMClassName(cn)
        elif isinstance(v, pywbem.CIMInstanceName):
            v = v.copy()
            v.namespace = None
            v.host = None
        elif k == 'PropertyList':
            v = [v] if isinstance(v, str) else list(v)
        elif k == 'NewInstance':
            v = v.copy()
            v.path = None
        elif k == 'ModifiedInstance':
            v = v.copy()
            v.path = v.path.copy()
            v.path.namespace = None
            v.path.host = None
        elif k in ('NewClass', 'ModifiedClass'):
            v = v.copy()
            v.path = None
        params[k] = v
    return op, ns, params


def compare_server_view(expected, log):
    if expected is None or len(log) != 1:
        return None
    kind, name, ns, params = log[0]
    if kind != 'imethod':
        return None
    if name != expected[0]:
        return 'methodname', expected[0], name
    if ns != expected[1]:
        return 'namespace', expected[1], ns
    pe = {k: norm(dump(v)) for k, v in expected[2].items()}
    px = {k: norm(dump(v)) for k, v in params.items()}
    if set(pe) != set(px):
        return 'param-names', sorted(pe), sorted(px)
    for k in sorted(pe):
        d = diff(pe[k], px[k])
        if d:
            return 'param:' + k + ':' + path_class(d[0]), d[1], d[2]
    return None


def completion_rule(op, args, default_ns, result):
    """documented completion of results on the client side, checked on the X side: the returned
    paths name the effective target namespace"""
    exp = expected_server_view(op, args, default_ns, None) if not any(v == ['session'] for v in args.values()) else None
    if exp is None:
        return None
    ns = exp[1]
    objs = []
    if op in ('GetInstance',):
        objs = [result.path]
    elif op in ('EnumerateInstances',):
        objs = [i.path for i in result]
    elif op in ('EnumerateInstanceNames',):
        objs = list(result)
    elif op == 'CreateInstance':
        objs = [result]
    elif op in ('OpenEnumerateInstances',):
        objs = [i.path for i in result.instances]
    elif op in ('OpenEnumerateInstancePaths',):
        objs = list(result.paths)
    for p in objs:
        if p is None or p.namespace is None or p.namespace.lower() != ns.lower():
            return 'result-path-namespace', ns, None if p is None else p.namespace
    return None

# ------------------------------------------------------------------------------------------
# exploration

def may_change_state(op):
    return op in WRITE_OPS or op in SESSION_OPS or op.startswith('Iter') or op == 'InvokeMethod'


def explore(first_indices, tier, acc, default_ns):
    """BFS to BOUNDS depth. Events that cannot change the state (reads) are executed on the parent
    state itself; the parent's key is re-checked afterwards (a read that changes the repository
    is a violation of its own). Writes/session events get a deep copy of the parent."""
    evs = get_events()
    depth = BOUNDS[tier]['depth']
    seen = set()
    root = base_state(default_ns)
    root_key = root.key()
    seen.add(root_key)
    for i in first_indices:
        if not may_change_state(evs[i][0]):
            do_event(root, [i], acc, default_ns)
            continue
        s1 = root.clone()
        r = do_event(s1, [i], acc, default_ns)
        if r is None:
            continue
        k = s1.key()
        new = k not in seen
        seen.add(k)
        if depth < 2 or not new:
            # unchanged state: the second step would start from the root state, which the
            # first-level shards already cover
            continue
        for j in range(len(evs)):
            if not may_change_state(evs[j][0]):
                do_event(s1, [i, j], acc, default_ns)
                continue
            s2 = s1.clone()
            r2 = do_event(s2, [i, j], acc, default_ns)
            if r2 is None or depth < 3:
                continue
            k2 = s2.key()
            if k2 in seen:
                continue
            seen.add(k2)
            for l in range(len(evs)):
                if not may_change_state(evs[l][0]):
                    do_event(s2, [i, j, l], acc, default_ns)
                else:
                    do_event(s2.clone(), [i, j, l], acc, default_ns)
        if s1.key() != k:
            acc.violation(dict(check='differential', what='read-changed-state', where=evs[i][0]),
                          dict(check='differential', default_namespace=default_ns, history=[evs[i]]),
                          'state unchanged by read-only events', 'state key changed')
    if root.key() != root_key:
        acc.violation(dict(check='differential', what='read-changed-state', where='root'),
                      dict(check='differential', default_namespace=default_ns, history=[]),
                      'state unchanged by read-only events', 'state key changed')
    acc.states += len(seen)


def do_event(state, hist, acc, default_ns, record=True):
    evs = get_events()
    ev = evs[hist[-1]]
    what, where, exp, obs, reached = step(state, ev)
    if what == 'skip':
        return None
    acc.case((default_ns, tuple(hist)), nontrivial=reached, calls=2,
             outcome='%s:%s' % (ev[0], what or 'agree'),
             sample=dict(history=[evs[h] for h in hist]) if len(hist) == 2 and what is None and
             ev[0] == 'GetInstance' else None)
    if what:
        acc.violation(dict(check='differential', what=what, where=where),
                      dict(check='differential', default_namespace=default_ns,
                           history=[evs[h] for h in hist]), exp, obs)
    return True


def plan(tier, seed):
    n = len(get_events())
    shards = []
    for dns in ('root/cimv2', 'root/other', 'root/nope'):
        idx = list(range(n))
        per = 4 if dns == 'root/cimv2' else 16
        for a in range(0, n, per):
            shards.append(dict(check='differential', default_namespace=dns, first=idx[a:a + per],
                               depth1_only=(dns != 'root/cimv2')))
    return shards


def run_shard(shard, tier):
    warnings.simplefilter('ignore')
    _patch_uuid()
    acc = Acc()
    t = tier
    if shard.get('depth1_only'):
        # other default namespaces: single steps (the default namespace only matters for marshalling)
        evs = get_events()
        root = base_state(shard['default_namespace'])
        for i in shard['first']:
            s1 = root.clone() if may_change_state(evs[i][0]) else root
            do_event(s1, [i], acc, shard['default_namespace'])
        acc.states += 1
        return acc
    explore(shard['first'], t, acc, shard['default_namespace'])
    return acc


def _patch_uuid():
    import uuid
    if getattr(uuid, '_mc_patched', False):
        return
    counter = itertools.count(1)

    class _U:
        def __init__(self, n):
            self.n = n

        def __str__(self):
            return 'ctx-%d' % self.n
    uuid.uuid4 = lambda: _U(next(counter))
    uuid._mc_patched = True


def replay(case, tier):
    warnings.simplefilter('ignore')
    _patch_uuid()
    acc = Acc()
    state = base_state(case['default_namespace'])
    hist = case['history']
    for n, ev in enumerate(hist):
        what, where, exp, obs, reached = step(state, ev)
        if what == 'skip':
            break
        if what:
            acc.violation(dict(check='differential', what=what, where=where),
                          dict(check='differential', default_namespace=case['default_namespace'],
                               history=hist[:n + 1]), exp, obs)
            break
    return acc
