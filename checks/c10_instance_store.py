"""C10 - the mock server's instance store is a faithful keyed map with CIM status codes (mode H).

Explicit-state BFS (mc/explore.py) over histories of CreateInstance / ModifyInstance /
DeleteInstance / GetInstance / EnumerateInstances / EnumerateInstanceNames calls on a live
pywbem_mock.FakedWBEMConnection (public operation methods only).  Next to the connection the state
carries the reference model mc/refmodels/inststore.py (a dict keyed by namespace, creation class
and keybindings, plus the fixed class tree).  One transition =

  1. the model lists the acceptable outcomes of the event in the current state (Exp)
  2. the event is executed by the real connection with freshly built argument objects
  3. the canonical repository dump is taken, then EVERY object passed in and EVERY object handed
     out is scribbled over in place (each attribute, nested), and the dump is taken again after
     each of the two groups: a difference is an isolation violation (the repository is then
     restored from a snapshot taken before the scribbling, so that exploration goes on from an
     undamaged state)
  4. the outcome is compared with Exp (status code, result as a multiset of (path without host,
     property map))
  5. after a write - or whenever the dump changed - the whole store is read back through
     EnumerateInstances of every root class in every namespace and compared with the model; if it
     differs the difference is reported and the model is re-synchronised from what was read (one
     report per cause instead of a cascade)

Worlds (world_schema()): 'base1/2/3' = namespaces ns1 [, ns2, ns3] with B(k1 key string, p uint8 = 7,
s string[]) and S : B (q datetime) - in ns2 the class is stored as 'b' with properties K1, P, S and
has no subclass, so that every request there differs in lexical case from what is stored;
'k16' / 'kbool' = B with a second key of type uint16 / boolean; 'kref' = association R(k1 key
string, r key B REF, t B REF, p) over B in two namespaces (single- and multi-namespace instances).
BOUNDS[tier]['worlds'] gives the BFS depth per world.  Sharding: see plan().

Signature: {'check': 'status-code' | 'reference-model' | 'isolation' | 'raised', 'what', 'op',
'precond'}; 'precond' is the precondition class the MODEL sees (e.g. 'exists', 'not-found,cased',
'found,pl-empty'), for isolation only whether the call succeeded.  The case is the shortest event
history (BFS order) on a named world.
"""
import hashlib
import json
import pickle

import pywbem
import pywbem_mock
from pywbem import (CIMError, CIMInstance, CIMInstanceName, CIMProperty, CIMQualifier, CIMDateTime,
                    Uint8, Uint16)
from pywbem._cim_types import CIMInt
from pywbem._nocasedict import NocaseDict

from mc.core import Acc, HarnessError
from mc import explore
from mc.explore import Problem, StepResult
from mc.objdump import dump as odump
from mc.refmodels import inststore as ref
from mc.refmodels.inststore import PropDecl, ClassDecl, Schema, Store

ID = 'C10'
RULE = ('a case is one transition (state, event) of the instance-store state graph; the graph is '
        'explored breadth-first from the empty store of a small generated schema, with dedup on '
        '(canonical repository dump, model state), every event executed by the real '
        'FakedWBEMConnection; a transition is non-trivial unless pywbem rejected the call locally '
        'or the documentation leaves the outcome open (several acceptable status codes)')
ASSUMPTIONS = [
    'documented status codes are those of the pywbem_mock provider docstrings '
    '(ProviderDispatcher/InstanceWriteProvider/MainProvider), docs/mockwbemserver.rst and the '
    'WBEMConnection operation docstrings; namespace < class < instance is the order DSP0200 '
    'defines; any other simultaneously applicable codes are accepted in any order (trivial case)',
    'LocalOnly, IncludeQualifiers and IncludeClassOrigin are documented as ignored by the mock for '
    'instance reads: they must not change the result; class origin is not compared',
    'a property that was never given a value may be returned absent, NULL or with the declared '
    'class default; NULL and absent are the same',
    'ModifyInstance: a designated property without value gets the declared default, without a '
    'declared default any value; a designated KEY property without value may be rejected '
    '(INVALID_PARAMETER) or left alone; undesignated bad properties may be rejected or ignored',
    'inputs the documentation is silent about (NULL key value, reference without namespace, '
    'reference with host, modification of a reference property) accept any CIM status or success; '
    'an exception that is not a CIMError is reported',
    'multi-namespace association instances (documented in _instancewriteprovider): one copy per '
    'namespace named by a reference property; only created from a namespace that is itself named',
    'equal (repository dump, model state) = same state; the dump is the strict objdump of every '
    'store of every namespace, including the store keys and whether each key can be looked up',
    'after an isolation violation the repository is restored from the pre-scribble snapshot; after '
    'a model difference the model is re-synchronised from EnumerateInstances; a state that cannot '
    'be read back at all is not expanded further',
]

_Q = '''
Qualifier Key : boolean = false, Scope(property, reference), Flavor(DisableOverride, ToSubclass);
Qualifier Association : boolean = false, Scope(association), Flavor(DisableOverride, ToSubclass);
Qualifier Description : string = null, Scope(any), Flavor(EnableOverride, ToSubclass, Translatable);
'''
DT1 = '20240101000000.000000+000'
DT2 = '20240102030405.000006+060'
UNKNOWN_NS = 'nsx'


# ------------------------------------------------------------------------------------------
# worlds: MOF for the real server and the same schema as plain declarations for the model

def _base_decl(upper):
    if upper:     # the ns2 flavour: other lexical case of every name, no subclass
        return [ClassDecl('b', None, [PropDecl('K1', 'string', key=True),
                                      PropDecl('P', 'uint8', default=7, has_default=True),
                                      PropDecl('S', 'string', is_array=True)])]
    return [ClassDecl('B', None, [PropDecl('k1', 'string', key=True),
                                  PropDecl('p', 'uint8', default=7, has_default=True),
                                  PropDecl('s', 'string', is_array=True)]),
            ClassDecl('S', 'B', [PropDecl('q', 'datetime')])]


_BASE_MOF = 'class B { [Key] string k1; uint8 p = 7; string s[]; };\nclass S : B { datetime q; };\n'
_BASE_MOF_UP = 'class b { [Key] string K1; uint8 P = 7; string S[]; };\n'


def _key2_decl(ktype):
    return [ClassDecl('B', None, [PropDecl('k1', 'string', key=True), PropDecl('k2', ktype, key=True),
                                  PropDecl('p', 'uint8', default=7, has_default=True)])]


def _key2_mof(ktype):
    return 'class B { [Key] string k1; [Key] %s k2; uint8 p = 7; };\n' % ktype


_KREF_DECL = [ClassDecl('B', None, [PropDecl('k1', 'string', key=True), PropDecl('p', 'uint8')]),
              ClassDecl('R', None, [PropDecl('k1', 'string', key=True),
                                    PropDecl('r', 'reference', key=True),
                                    PropDecl('t', 'reference'), PropDecl('p', 'uint8')], assoc=True)]
_KREF_MOF = ('class B { [Key] string k1; uint8 p; };\n'
             '[Association] class R { [Key] string k1; [Key] B REF r; B REF t; uint8 p; };\n')

WORLDS = {
    'base1': dict(kind='base', nss=['ns1']),
    'base2': dict(kind='base', nss=['ns1', 'ns2']),
    'base3': dict(kind='base', nss=['ns1', 'ns2', 'ns3']),
    'k16': dict(kind='key2', ktype='uint16', nss=['ns1']),
    'kbool': dict(kind='key2', ktype='boolean', nss=['ns1']),
    'kref': dict(kind='kref', nss=['ns1', 'ns2']),
}

BOUNDS = {
    'quick': {'worlds': {'base1': 3, 'base2': 3, 'k16': 3, 'kbool': 3, 'kref': 3},
              'key_values': ['a', 'A', 'b'], 'unknown_namespace': UNKNOWN_NS},
    'thorough': {'worlds': {'base1': 5, 'base3': 4, 'k16': 4, 'kbool': 4, 'kref': 4},
                 'key_values': ['a', 'A', 'b'], 'unknown_namespace': UNKNOWN_NS},
}
MAX_STATES_PER_BFS = 400000        # safety net; hitting it is reported as a cap


def world_schema(wid):
    spec = WORLDS[wid]
    nss = {}
    mofs = {}
    for ns in spec['nss']:
        if spec['kind'] == 'base':
            up = ns == 'ns2'
            nss[ns] = _base_decl(up)
            mofs[ns] = _BASE_MOF_UP if up else _BASE_MOF
        elif spec['kind'] == 'key2':
            nss[ns] = _key2_decl(spec['ktype'])
            mofs[ns] = _key2_mof(spec['ktype'])
        else:
            nss[ns] = _KREF_DECL
            mofs[ns] = _KREF_MOF
    return Schema(nss, spec['nss'][0]), mofs


class World:
    def __init__(self, wid):
        self.wid = wid
        schema, mofs = world_schema(wid)
        conn = pywbem_mock.FakedWBEMConnection(default_namespace=schema.default_ns)
        for ns in WORLDS[wid]['nss']:
            if ns not in conn.namespaces:
                conn.add_namespace(ns)
            conn.compile_mof_string(_Q + mofs[ns], namespace=ns)
        self.conn = conn
        self.model = Store(schema)
        self.key = None            # cached digest of the repository dump
        self.broken = False        # the store could not be read back: not expanded further
        for ev in setup_events(wid):
            n = len(self.model.data)
            r = step(self, ev)
            # (an isolation complaint about the call itself is not the setup's business: the
            # repository was restored; the same event is reported by the exploration)
            if [p for p in r.problems if p.sig['check'] != 'isolation'] or len(self.model.data) != n + 1:
                raise HarnessError('world %s: setup event %r: %s %r' % (wid, ev, r.outcome, r.problems))


_FRESH = {}
_EVENTS = {}


def fresh(wid):
    _check_config()
    if wid not in _FRESH:
        _FRESH[wid] = pickle.dumps(World(wid), pickle.HIGHEST_PROTOCOL)
    return pickle.loads(_FRESH[wid])


def _check_config():
    import pywbem_mock.config as cfg
    for name, val in (('IGNORE_INSTANCE_IQ_PARAM', True), ('IGNORE_INSTANCE_ICO_PARAM', True)):
        if getattr(cfg, name) != val:
            raise HarnessError('pywbem_mock.config.%s is not at its default' % name)


# ------------------------------------------------------------------------------------------
# event specifications (JSON-able) and the objects built from them

def P(name, ptype, value, is_array=False):
    return [name, ptype, is_array, value]


def PATH(cls, keys, ns=None, host=None):
    return {'cls': cls, 'keys': keys, 'ns': ns, 'host': host}


def INST(cls, props, path=None, quals=False):
    return {'cls': cls, 'props': props, 'path': path, 'quals': quals}


def b_scalar(ptype, v):
    if v is None:
        return None
    if ptype == 'uint8':
        return Uint8(v)
    if ptype == 'uint16':
        return Uint16(v)
    if ptype == 'datetime':
        return CIMDateTime(v)
    if ptype == 'reference':
        return b_path(v)
    if ptype in ('string', 'boolean', 'int'):
        return v
    raise HarnessError('unknown type in event spec: %r' % (ptype,))


def b_path(p):
    kb = NocaseDict()
    for k in p['keys']:
        kb[k[0]] = b_scalar(k[1], k[2])
    return CIMInstanceName(p['cls'], keybindings=kb, namespace=p.get('ns'), host=p.get('host'))


def b_prop(p, quals=False):
    name, ptype, is_array, v = p
    if v is not None and is_array:
        val = [b_scalar(ptype, x) for x in v]
    else:
        val = b_scalar(ptype, v)
    kw = {}
    if quals:
        kw = dict(qualifiers=[CIMQualifier('Description', 'zz', type='string')],
                  class_origin='Elsewhere', propagated=True)
    return CIMProperty(name, val, type=ptype, is_array=bool(is_array), **kw)


def b_inst(i):
    inst = CIMInstance(i['cls'], properties=[b_prop(p, i.get('quals')) for p in i['props']])
    if i.get('path'):
        # set afterwards: given to the constructor, the keybindings would be overwritten with the
        # values of the key properties (documented, deprecated client-side behaviour)
        inst.path = b_path(i['path'])
    if i.get('quals'):
        inst.qualifiers['Description'] = CIMQualifier('Description', 'inst', type='string')
    return inst


# ------------------------------------------------------------------------------------------
# views of what the connection returned (plain data, comparable with the model)

def v_key(v):
    if v is None:
        return ('n', None)
    if isinstance(v, bool):
        return ('b', v)
    if isinstance(v, (int, CIMInt)):
        return ('i', int(v))
    if isinstance(v, CIMInstanceName):
        return ('r', v_path(v, nested=True))
    if isinstance(v, str):
        return ('s', v)
    return ('s', str(v))


def v_path(p, nested=False):
    """key of a returned path; the host is ignored except in a path that is a reference VALUE"""
    if not isinstance(p, CIMInstanceName):
        return None
    key = (p.namespace.strip('/').lower() if p.namespace is not None else None, p.classname.lower(),
           frozenset((k.lower(), v_key(v)) for k, v in p.keybindings.items()))
    if nested:
        key += (p.host.lower() if p.host is not None else None,)
    return key


def v_scalar(v):
    if v is None or isinstance(v, (bool, str)):
        return v
    if isinstance(v, (int, CIMInt)):
        return int(v)
    if isinstance(v, CIMInstanceName):
        return ('r', v_path(v, nested=True))
    return str(v)


def v_props(inst):
    out = {}
    for name, p in inst.properties.items():
        v = p.value
        if isinstance(v, (list, tuple)):
            v = tuple(v_scalar(x) for x in v)
        else:
            v = v_scalar(v)
        out[name.lower()] = (p.type, bool(p.is_array), v)
    return out


def decorations(inst):
    """qualifiers / class origin that reads are documented never to return"""
    out = []
    if len(inst.qualifiers):
        out.append('instance-qualifiers')
    for p in inst.properties.values():
        if len(p.qualifiers):
            out.append('property-qualifiers')
            break
    return out


# ------------------------------------------------------------------------------------------
# canonical repository dump (strict), including the keys of the instance stores

def repo_dump(conn):
    rep = conn.cimrepository
    out = {}
    for ns in sorted(rep.namespaces, key=lambda s: s.lower()):
        st = rep.get_instance_store(ns)
        names = list(st.iter_names())
        vals = list(st.iter_values(copy=False))
        if len(names) != len(vals):
            raise HarnessError('instance store iterators disagree')
        rows = sorted(([odump(v), odump(n), bool(st.object_exists(n))] for n, v in zip(names, vals)),
                      key=repr)
        out[ns] = {
            'classes': sorted((odump(c) for c in rep.get_class_store(ns).iter_values(copy=False)),
                              key=repr),
            'qualifiers': sorted((odump(q) for q in
                                  rep.get_qualifier_store(ns).iter_values(copy=False)), key=repr),
            'instance-values': [r[0] for r in rows],
            'instance-keys': [r[1] for r in rows],
            'keys-findable': [r[2] for r in rows],
        }
    return out


def digest(d):
    return hashlib.sha1(json.dumps(d, sort_keys=True, default=repr).encode()).hexdigest()[:20]


def where_differs(a, b):
    parts = set()
    for ns in sorted(set(a) | set(b)):
        x, y = a.get(ns), b.get(ns)
        if x is None or y is None:
            parts.add('namespaces')
            continue
        for comp in x:
            if x[comp] != y[comp]:
                parts.add(comp)
    return '+'.join(sorted(parts))


def canon(w):
    if w.key is None:
        w.key = digest(repo_dump(w.conn))
    return (w.key, hashlib.sha1(repr(w.model.canon()).encode()).hexdigest()[:20], w.broken)


# ------------------------------------------------------------------------------------------
# scribbling over objects (in place, every attribute, nested)

def _other(ptype, is_array):
    if ptype == 'reference':
        v = CIMInstanceName('Zap', {'z': 'zap'}, namespace='zap')
    elif ptype == 'boolean':
        v = True
    elif ptype == 'datetime':
        v = CIMDateTime('19990909090909.090909+000')
    elif ptype == 'string' or ptype == 'char16':
        v = 'zap'
    else:
        v = 99
    return [v, v] if is_array else v


def scribble(obj, seen=None):
    if seen is None:
        seen = set()
    if obj is None or isinstance(obj, (str, bytes, int, float, bool, CIMDateTime)):
        return
    if id(obj) in seen:
        return
    seen.add(id(obj))
    if isinstance(obj, list):
        for x in list(obj):
            scribble(x, seen)
        obj[:] = ['zap', 'zap2']
    elif isinstance(obj, tuple):
        for x in obj:
            scribble(x, seen)
    elif isinstance(obj, CIMInstanceName):
        kb = obj.keybindings
        for v in list(kb.values()):
            scribble(v, seen)
        for k in list(kb.keys()):
            kb[k] = 'zap-' + k
        first = next(iter(kb.keys()), None)
        kb['zapkey'] = 'zap'
        if first is not None:
            del kb[first]
        obj.classname = 'Zap'
        obj.namespace = 'zap/ns'
        obj.host = 'zaphost'
    elif isinstance(obj, CIMInstance):
        scribble(obj.path, seen)
        props = obj.properties
        for p in list(props.values()):
            scribble(p, seen)
        first = next(iter(props.keys()), None)
        props['zapprop'] = CIMProperty('zapprop', 'zap', type='string')
        if first is not None:
            del props[first]
        quals = obj.qualifiers
        quals['Zap'] = CIMQualifier('Zap', True, type='boolean')
        obj.classname = 'Zap'
        obj.path = CIMInstanceName('Zap', {'z': 'zap'}, namespace='zap')
    elif isinstance(obj, CIMProperty):
        scribble(obj.value, seen)
        quals = obj.qualifiers
        quals['Zap'] = CIMQualifier('Zap', True, type='boolean')
        obj.value = _other(obj.type, obj.is_array)
        obj.name = 'zap' + obj.name
        obj.class_origin = 'Zap'
        obj.propagated = not obj.propagated
        obj.type = 'string' if obj.type != 'string' else 'uint32'
        obj.is_array = not obj.is_array
        obj.value = None
    elif isinstance(obj, CIMQualifier):
        obj.value = 'zap'
        obj.name = 'Zapped'
    elif isinstance(obj, dict):
        for v in list(obj.values()):
            scribble(v, seen)
        obj.clear()
    else:
        raise HarnessError('scribble: unexpected object %r' % (type(obj),))


# ------------------------------------------------------------------------------------------
# calling the real code

_CODENAMES = {getattr(pywbem, _n): _n for _n in dir(pywbem) if _n.startswith('CIM_ERR_')}


def call(fn, *args, **kwargs):
    """-> ('ok', result) | ('cim', code name) | ('local', exception name) | ('exc', exception name)
    'local' = ValueError/TypeError raised by the client before the server part was entered"""
    try:
        return 'ok', fn(*args, **kwargs)
    except CIMError as exc:
        return 'cim', _CODENAMES.get(exc.status_code, str(exc.status_code))
    except Exception as exc:  # noqa: raised by the code under test, not by the harness
        tb = exc.__traceback__
        server = False
        while tb is not None:
            if tb.tb_frame.f_code.co_name == '_mock_imethodcall':
                server = True
            tb = tb.tb_next
        if not server and isinstance(exc, (ValueError, TypeError)):
            return 'local', type(exc).__name__
        return 'exc', type(exc).__name__


OPNAME = {'create': 'CreateInstance', 'modify': 'ModifyInstance', 'delete': 'DeleteInstance',
          'get': 'GetInstance', 'ei': 'EnumerateInstances', 'ein': 'EnumerateInstanceNames'}


def execute(conn, ev):
    """build fresh argument objects, call -> (result tuple, [objects passed in])"""
    op = ev['op']
    if op == 'create':
        inst = b_inst(ev['inst'])
        return call(conn.CreateInstance, inst, namespace=ev.get('ns')), [inst]
    if op == 'modify':
        inst = b_inst(ev['inst'])
        pl = list(ev['pl']) if ev.get('pl') is not None else None
        return call(conn.ModifyInstance, inst, PropertyList=pl), [inst, pl]
    if op == 'delete':
        path = b_path(ev['path'])
        return call(conn.DeleteInstance, path), [path]
    params = dict(ev.get('params') or {})
    if params.get('PropertyList') is not None:
        params['PropertyList'] = list(params['PropertyList'])
    if op == 'get':
        path = b_path(ev['path'])
        return call(conn.GetInstance, path, **params), [path, params]
    if op == 'ei':
        return call(conn.EnumerateInstances, ev['cls'], namespace=ev.get('ns'), **params), [params]
    if op == 'ein':
        return call(conn.EnumerateInstanceNames, ev['cls'], namespace=ev.get('ns')), []
    raise HarnessError('unknown event %r' % (ev,))


def describe(res):
    tag, val = res
    if tag == 'ok':
        if isinstance(val, list):
            return 'returned %d objects' % len(val)
        return 'returned %s' % type(val).__name__
    if tag == 'cim':
        return 'CIMError ' + val
    return '%s: %s' % (tag, val)


# ------------------------------------------------------------------------------------------
# reading the whole store back through the public operations

def observe(w):
    """-> (observed [(key, props)], error text or None)"""
    out = []
    schema = w.model.schema
    for ns_l in sorted(schema.classes):
        for root in schema.roots(ns_l):
            res = call(w.conn.EnumerateInstances, root, namespace=schema.names[ns_l])
            if res[0] != 'ok':
                return out, 'EnumerateInstances(%s, %s): %s' % (root, schema.names[ns_l], describe(res))
            for inst in res[1]:
                out.append((v_path(inst.path), v_props(inst)))
    return out, None


def check_store(w, sig):
    """compare the store as read back with the model; on a difference report and re-synchronise"""
    problems = []
    obs, err = observe(w)
    if err is not None:
        w.broken = True
        problems.append(Problem(dict(sig, check='reference-model', what='state:unreadable'),
                                'every stored instance can be enumerated', err))
        return problems
    expected = []
    for key in w.model.data:
        expected.append((key, frozenset(w.model.schema.exposed(key[0], key[1]))))
    diffs = w.model.compare_result(expected, obs)
    for what, e, o in diffs:
        problems.append(Problem(dict(sig, check='reference-model', what='state:' + what),
                                'store as the reference map: %s' % (e,), 'read back: %s' % (o,)))
    if diffs:
        data = {}
        for key, props in obs:
            if key is not None and key[0] in w.model.schema.classes and \
                    w.model.schema.cls(key[0], key[1]) is not None:
                data[key] = {n: v for n, v in props.items() if v[2] is not None}
        w.model.data = data
    return problems


# ------------------------------------------------------------------------------------------
# one transition

_SCOUT = [False]      # plan() only needs the successor states: no scribbling, no extra dumps


def step(w, ev):
    op = ev['op']
    opname = OPNAME[op]
    conn = w.conn
    model = w.model
    if op == 'create':
        exp = model.expect_create(ev)
    elif op == 'modify':
        exp = model.expect_modify(ev)
    elif op == 'delete':
        exp = model.expect_delete(ev)
    elif op == 'get':
        exp = model.expect_get(ev)
    elif op == 'ei':
        exp = model.expect_enum(ev, True)
    elif op == 'ein':
        exp = model.expect_enum(ev, False)
    else:
        raise HarnessError('unknown event %r' % (ev,))
    sig = dict(op=opname, precond=exp.precond)
    problems = []
    if w.key is None:
        w.key = digest(repo_dump(conn))
    pre_key = w.key

    res, passed = execute(conn, ev)

    # ---- isolation: scribble over everything passed in, then everything handed out
    d0 = repo_dump(conn)
    k0 = digest(d0)
    snapshot = None if _SCOUT[0] else pickle.dumps(conn, pickle.HIGHEST_PROTOCOL)
    returned = res[1] if res[0] == 'ok' else None
    if op == 'get' and res[0] == 'ok' and isinstance(returned, CIMInstance):
        obs_result = [(v_path(returned.path), v_props(returned))]
        deco = decorations(returned)
    elif op == 'ei' and res[0] == 'ok':
        obs_result = [(v_path(i.path), v_props(i)) for i in returned]
        deco = sorted({d for i in returned for d in decorations(i)})
    elif op == 'ein' and res[0] == 'ok':
        obs_result = [(v_path(p), None) for p in returned]
        deco = []
    elif op == 'create' and res[0] == 'ok':
        obs_result = v_path(returned)
        deco = []
    else:
        obs_result = None
        deco = []
    isig = dict(check='isolation', op=opname,
                precond='call-succeeded' if res[0] == 'ok' else 'call-failed')
    damaged = False
    for group, objs in (('argument', passed), ('result', [returned])) if not _SCOUT[0] else ():
        seen = set()
        for o in objs:
            scribble(o, seen)
        d1 = repo_dump(conn)
        if digest(d1) != k0:
            damaged = True
            where = where_differs(d0, d1)
            problems.append(Problem(dict(isig, what='%s-aliases-repository:%s' % (group, where)),
                                    'repository unchanged by changes to a client-side object',
                                    'repository dump differs in: %s' % where_differs(d0, d1)))
            break
    if damaged:
        conn = w.conn = pickle.loads(snapshot)
    w.key = k0

    # ---- outcome against the model
    if res[0] == 'local':
        if ref.LOCAL not in exp.codes and not exp.silent:
            # the client refuses what the model considers a valid request for the server
            problems.append(Problem(dict(sig, check='raised', what='rejected-locally:' + res[1]),
                                    sorted(exp.codes), describe(res)))
        outcome = '%s:rejected-locally' % op
        nontrivial = False
        got = ref.LOCAL
    elif res[0] == 'exc':
        problems.append(Problem(dict(sig, check='raised', what='raised:' + res[1]),
                                'result or CIMError (%s)' % '|'.join(sorted(exp.codes)), describe(res)))
        outcome = '%s:raised' % op
        nontrivial = True
        got = None
    else:
        got = ref.OK if res[0] == 'ok' else res[1]
        outcome = '%s:%s' % (op, got)
        nontrivial = exp.determined
        if ref.LOCAL in exp.codes:
            nontrivial = False          # the model expected a local rejection; the server's answer is open
        elif not exp.silent and got not in exp.codes:
            problems.append(Problem(dict(sig, check='status-code',
                                         what='%s-instead-of-%s' % (got, '|'.join(sorted(exp.codes)))),
                                    '|'.join(sorted(exp.codes)), describe(res)))

    # ---- results
    if got == ref.OK and ref.OK in exp.codes and not exp.silent:
        if op == 'create':
            if obs_result != exp.result:
                problems.append(Problem(dict(sig, check='reference-model', what='result:path-differs'),
                                        ref.show_key(exp.result), ref.show_key(obs_result)))
        elif op in ('get', 'ei', 'ein'):
            for what, e, o in model.compare_result(exp.result, obs_result):
                problems.append(Problem(dict(sig, check='reference-model', what='result:' + what),
                                        e, o))
            for d in deco:
                problems.append(Problem(dict(sig, check='reference-model', what='result:' + d),
                                        'no qualifiers in returned instances', d))

    # ---- model transition, read-back
    write = op in ('create', 'modify', 'delete')
    if got == ref.OK and ref.OK in exp.codes and exp.data is not None:
        model.data = exp.data
    mismatch = any(p.sig['check'] in ('status-code', 'raised') for p in problems)
    if (write and (got == ref.OK or mismatch or exp.silent)) or k0 != pre_key:
        found = check_store(w, sig)
        if found and not write:
            # a read changed the store: one complaint, whatever the parameters of the read were
            found = [Problem(dict(check='reference-model', op=opname, precond=exp.precond.split(',')[0],
                                  what='state-changed-by-read:' + found[0].sig['what'].split(':', 1)[1]),
                             found[0].expected, found[0].observed)]
        problems.extend(found)
    if problems:
        outcome = '%s:VIOLATION' % op
    return StepResult(outcome, nontrivial, problems, dict(op=opname, precond=exp.precond))


def enabled(w):
    if w.broken:
        return []
    return events_of(w.wid)


# ------------------------------------------------------------------------------------------
# the event alphabets

def _ev(op, **kw):
    d = dict(op=op)
    d.update(kw)
    return d


def setup_events(wid):
    if WORLDS[wid]['kind'] == 'kref':
        # the end points the association instances refer to
        return [_ev('create', inst=INST('B', [P('k1', 'string', 'a'), P('p', 'uint8', 1)]), ns=ns)
                for ns in ('ns1', 'ns2')]
    return []


def _base_events(nss):
    ev = []
    k = lambda v: [['k1', 'string', v]]                       # noqa: E731
    full = lambda v, p=1, s='x': [P('k1', 'string', v), P('p', 'uint8', p), P('s', 'string', [s], True)]  # noqa
    others = [n for n in nss if n != 'ns1']

    # --- CreateInstance
    for v in ('a', 'A', 'b'):
        ev.append(_ev('create', inst=INST('B', full(v)), ns=None))
    for ns in others:
        ev.append(_ev('create', inst=INST('B', full('a')), ns=ns))
    if 'ns2' in nss:
        ev.append(_ev('create', inst=INST('B', full('b')), ns='ns2'))
    else:
        ev.append(_ev('create', inst=INST('B', full('a')), ns='ns2'))
    ev.append(_ev('create', inst=INST('S', full('a') + [P('q', 'datetime', DT1)]), ns=None))
    ev.append(_ev('create', inst=INST('S', full('A') + [P('q', 'datetime', DT1)]), ns=None))
    if 'ns2' in nss:
        ev.append(_ev('create', inst=INST('S', full('a')), ns='ns2'))           # S is not in ns2
    dev = [
        INST('B', [P('p', 'uint8', 1)]),                                       # missing key
        INST('B', [P('k1', 'string', 'a')]),                                   # missing non-key
        INST('B', [P('k1', 'string', 'a'), P('zz', 'string', 'x')]),           # undeclared
        INST('B', [P('k1', 'string', 'a'), P('q', 'datetime', DT1)]),          # declared in subclass only
        INST('B', [P('k1', 'string', 'a'), P('p', 'string', '1')]),            # wrong type
        INST('B', [P('k1', 'uint8', 1)]),                                      # wrong type of the key
        INST('B', [P('k1', 'string', 'a'), P('p', 'uint8', [1], True)]),       # array for scalar
        INST('B', [P('k1', 'string', 'a'), P('s', 'string', 'x')]),            # scalar for array
        INST('B', [P('K1', 'string', 'a'), P('P', 'uint8', 1), P('S', 'string', ['x'], True)]),
        INST('b', full('a')),                                                  # class name case
        INST('Nope', [P('k1', 'string', 'a')]),                                # class unknown
        INST('B', full('a'), quals=True),                                      # decorated
        INST('B', [P('k1', 'string', None)]),                                  # NULL key
        INST('B', full('a'), path=PATH('B', k('zz'))),                         # path without namespace
    ]
    dev += [
        INST('S', [P('p', 'uint8', 1), P('q', 'datetime', DT1)]),              # subclass: missing key
        INST('S', [P('k1', 'string', 'a'), P('q', 'string', DT1)]),            # subclass: wrong type
        INST('B', [P('k1', 'string', 'a'), P('s', 'string', [], True)]),       # empty array
        INST('B', [P('k1', 'string', 'a'), P('p', 'uint8', None), P('s', 'string', None, True)]),
    ]
    dev += [   # NULL values that are mistyped (type, or scalar/array shape) for their property
        INST('B', [P('k1', 'string', 'a'), P('p', 'string', None)]),
        INST('B', [P('k1', 'string', 'a'), P('p', 'uint8', None, True)]),
        INST('B', [P('k1', 'string', 'a'), P('s', 'string', None)]),
        INST('B', [P('k1', 'string', 'a'), P('s', 'uint8', None, True)]),
    ]
    for i in dev:
        ev.append(_ev('create', inst=i, ns=None))
    if 'ns2' in nss:                                                           # names as stored in ns2
        ev.append(_ev('create', inst=INST('b', [P('K1', 'string', 'a'), P('P', 'uint8', 1)]), ns='ns2'))
    pathns = 'ns2' if 'ns2' in nss else UNKNOWN_NS
    ev.append(_ev('create', inst=INST('B', full('a'), path=PATH('B', k('zz'), ns=pathns)), ns=None))
    ev.append(_ev('create', inst=INST('B', full('a'), path=PATH('B', k('zz'), ns=pathns)), ns='ns1'))
    for ns in ('NS1', '/ns1/', UNKNOWN_NS):
        ev.append(_ev('create', inst=INST('B', full('a')), ns=ns))

    # --- ModifyInstance
    T = PATH('B', k('a'))
    mfull = [P('k1', 'string', 'a'), P('p', 'uint8', 2), P('s', 'string', ['y'], True)]
    for pl in (None, [], ['p'], ['P', 'p'], ['k1'], ['nope'], ['s'], ['p', 's']):
        ev.append(_ev('modify', inst=INST('B', mfull, path=T), pl=pl))
    p2 = [P('p', 'uint8', 2)]
    for pl in (['p'], ['k1'], ['s'], None):
        ev.append(_ev('modify', inst=INST('B', [], path=T), pl=pl))
    paths = [T, PATH('b', [['K1', 'string', 'a']]), PATH('B', k('A')), PATH('B', k('b')),
             PATH('B', k('a'), ns='NS1'), PATH('B', k('a'), ns=UNKNOWN_NS),
             PATH('B', k('a'), host='h.example')]
    for ns in others:
        paths.append(PATH('B', k('a'), ns=ns))
    for pt in paths:
        ev.append(_ev('modify', inst=INST(pt['cls'], p2, path=pt), pl=None))
    ev.append(_ev('modify', inst=INST('Nope', p2, path=PATH('Nope', k('a'))), pl=None))
    ev.append(_ev('modify', inst=INST('S', p2, path=T), pl=None))                # class names differ
    ev.append(_ev('modify', inst=INST('b', p2, path=T), pl=None))                # ... in case only
    keych = [P('k1', 'string', 'b'), P('p', 'uint8', 2)]
    ev.append(_ev('modify', inst=INST('B', keych, path=T), pl=None))             # key value changed
    ev.append(_ev('modify', inst=INST('B', keych, path=T), pl=['p']))            # ... not designated
    ev.append(_ev('modify', inst=INST('B', [P('zz', 'string', 'x')], path=T), pl=None))
    ev.append(_ev('modify', inst=INST('B', [P('p', 'string', '2')], path=T), pl=None))
    ev.append(_ev('modify', inst=INST('B', [P('p', 'uint8', [2], True)], path=T), pl=None))
    ev.append(_ev('modify', inst=INST('B', [P('zz', 'string', 'x'), P('p', 'uint8', 2)], path=T), pl=['p']))
    ev.append(_ev('modify', inst=INST('B', [P('p', 'uint8', None)], path=T), pl=None))   # set NULL
    ev.append(_ev('modify', inst=INST('B', [P('p', 'string', None)], path=T), pl=None))  # NULL, wrong type
    ev.append(_ev('modify', inst=INST('B', [P('p', 'uint8', None, True)], path=T), pl=None))  # NULL array
    ev.append(_ev('modify', inst=INST('B', [P('s', 'string', None)], path=T), pl=None))  # NULL scalar
    ev.append(_ev('modify', inst=INST('B', p2, path=None), pl=None))             # no path: local
    TS = PATH('S', k('a'))
    ev.append(_ev('modify', inst=INST('S', [P('q', 'datetime', DT2)], path=TS), pl=None))
    ev.append(_ev('modify', inst=INST('S', p2, path=TS), pl=['P']))

    sfull = [P('q', 'datetime', DT2), P('p', 'uint8', 2)]
    for pl in (['q'], ['Q', 'p'], [], ['s', 'q']):
        ev.append(_ev('modify', inst=INST('S', sfull, path=TS), pl=pl))
    ev.append(_ev('modify', inst=INST('b', [P('P', 'uint8', 2)], path=PATH('b', [['K1', 'string', 'a']])),
                  pl=['p']))
    ev.append(_ev('modify', inst=INST('B', [P('s', 'string', None, True)], path=T), pl=None))
    ev.append(_ev('modify', inst=INST('B', [P('s', 'string', [], True)], path=T), pl=['S']))
    ev.append(_ev('modify', inst=INST('B', p2, path=PATH('B', k('a'), host='h.example')), pl=['p']))
    if 'ns2' in nss:
        ev.append(_ev('modify', inst=INST('B', p2, path=PATH('B', k('a'), ns='ns2')), pl=['P']))
        ev.append(_ev('modify', inst=INST('b', [P('P', 'uint8', 2), P('K1', 'string', 'a')],
                                          path=PATH('b', [['K1', 'string', 'a']], ns='ns2')), pl=None))
        ev.append(_ev('modify', inst=INST('B', [P('q', 'datetime', DT2)], path=PATH('B', k('a'), ns='ns2')),
                      pl=None))                                                # q is not declared in ns2

    # --- DeleteInstance
    dpaths = [PATH('S', k('A')), T, PATH('b', [['K1', 'string', 'a']]), PATH('B', k('A')), PATH('B', k('b')),
              PATH('B', k('a'), ns='NS1'), PATH('B', k('a'), ns=UNKNOWN_NS), TS,
              PATH('Nope', k('a')), PATH('B', k('a'), host='h.example'),
              PATH('B', [['k1', 'int', 5]]), PATH('B', [])]
    for ns in others:
        dpaths.append(PATH('B', k('a'), ns=ns))
    if 'ns2' in nss:
        dpaths.append(PATH('S', k('a'), ns='ns2'))
        dpaths.append(PATH('b', [['K1', 'string', 'a']], ns='ns2'))
        dpaths.append(PATH('B', k('b'), ns='ns2'))
    for pt in dpaths:
        ev.append(_ev('delete', path=pt))

    # --- GetInstance
    gpaths = [T, PATH('b', [['K1', 'string', 'a']]), PATH('B', k('A')), PATH('B', k('a'), ns='NS1'),
              PATH('B', k('a'), ns=UNKNOWN_NS), TS, PATH('Nope', k('a')), PATH('B', [['k1', 'int', 5]]),
              PATH('B', k('a'), host='h.example'),
              PATH('B', [['k1', 'string', 'a'], ['zz', 'string', 'x']])]
    for ns in others:
        gpaths.append(PATH('B', k('a'), ns=ns))
    for pt in gpaths:
        ev.append(_ev('get', path=pt, params={}))
    for params in ({'PropertyList': []}, {'PropertyList': ['p']}, {'PropertyList': ['P', 'p']},
                   {'PropertyList': ['nope']}, {'PropertyList': ['k1', 'S']}, {'LocalOnly': True},
                   {'LocalOnly': False}, {'IncludeClassOrigin': True}, {'IncludeQualifiers': True}):
        ev.append(_ev('get', path=T, params=params))
    for params in ({'LocalOnly': True}, {'PropertyList': ['q']}, {'PropertyList': ['p']},
                   {'IncludeClassOrigin': True, 'PropertyList': ['Q', 'k1']}):
        ev.append(_ev('get', path=TS, params=params))

    for params in ({'PropertyList': []}, {'PropertyList': ['P', 'Q']}, {'LocalOnly': False}):
        ev.append(_ev('get', path=TS, params=params))
    ev.append(_ev('get', path=PATH('b', [['K1', 'string', 'a']]), params={'PropertyList': ['P']}))
    ev.append(_ev('get', path=PATH('B', k('b')), params={}))
    ev.append(_ev('get', path=PATH('S', k('A')), params={}))
    if 'ns2' in nss:
        for params in ({'PropertyList': ['p']}, {'PropertyList': ['K1']}, {'PropertyList': []}):
            ev.append(_ev('get', path=PATH('B', k('a'), ns='ns2'), params=params))
        ev.append(_ev('get', path=PATH('b', [['K1', 'string', 'a']], ns='ns2'), params={}))
        ev.append(_ev('get', path=PATH('B', k('b'), ns='ns2'), params={}))

    # --- EnumerateInstances / EnumerateInstanceNames
    enss = [None, 'NS1', UNKNOWN_NS] + others
    for cls in ('B', 'S', 'b', 'Nope'):
        for ns in enss:
            ev.append(_ev('ei', cls=cls, ns=ns, params={}))
            ev.append(_ev('ein', cls=cls, ns=ns))
    for params in ({'DeepInheritance': False}, {'DeepInheritance': True}, {'PropertyList': []},
                   {'PropertyList': ['p']}, {'PropertyList': ['q']}, {'PropertyList': ['Q', 'K1']},
                   {'DeepInheritance': False, 'PropertyList': ['q', 'p']},
                   {'DeepInheritance': False, 'PropertyList': []},
                   {'LocalOnly': True}, {'IncludeClassOrigin': True}, {'IncludeQualifiers': True},
                   {'DeepInheritance': False, 'LocalOnly': True}):
        ev.append(_ev('ei', cls='B', ns=None, params=params))
    ev.append(_ev('ei', cls='S', ns=None, params={'DeepInheritance': False}))
    ev.append(_ev('ei', cls='S', ns=None, params={'PropertyList': ['p']}))
    for params in ({'PropertyList': ['s']}, {'PropertyList': ['nope']}, {'LocalOnly': False},
                   {'IncludeQualifiers': False}, {'DeepInheritance': True, 'PropertyList': ['q']}):
        ev.append(_ev('ei', cls='B', ns=None, params=params))
    ev.append(_ev('ei', cls='b', ns=None, params={'PropertyList': ['P'], 'DeepInheritance': False}))
    ev.append(_ev('ei', cls='S', ns=None, params={'PropertyList': ['Q', 'k1'], 'DeepInheritance': False}))
    if 'ns2' in nss:
        for params in ({'PropertyList': ['p']}, {'DeepInheritance': False}, {'PropertyList': []}):
            ev.append(_ev('ei', cls='B', ns='ns2', params=params))
    return ev


def _key2_events(ktype):
    ev = []
    if ktype == 'uint16':
        v1, v2, wrong = 1, 2, ['k2', 'string', '1']
    else:
        v1, v2, wrong = True, False, ['k2', 'string', 'true']
    kt = ktype

    def props(a, b, p=1, swap=False, upper=False):
        n1, n2, n3 = ('K1', 'K2', 'P') if upper else ('k1', 'k2', 'p')
        ps = [P(n1, 'string', a), P(n2, kt, b), P(n3, 'uint8', p)]
        if swap:
            ps[0], ps[1] = ps[1], ps[0]
        return ps

    for a, b in (('a', v1), ('a', v2), ('A', v1)):
        ev.append(_ev('create', inst=INST('B', props(a, b)), ns=None))
    ev.append(_ev('create', inst=INST('B', props('a', v1, swap=True)), ns=None))
    ev.append(_ev('create', inst=INST('b', props('a', v1, upper=True)), ns=None))
    ev.append(_ev('create', inst=INST('B', [P('k1', 'string', 'a'), P('p', 'uint8', 1)]), ns=None))
    ev.append(_ev('create', inst=INST('B', [P('k2', kt, v1), P('p', 'uint8', 1)]), ns=None))
    ev.append(_ev('create', inst=INST('B', [P('k1', 'string', 'a'), P('k2', 'string', 'x')]), ns=None))
    other_int = 'uint8' if kt == 'uint16' else 'uint16'
    ev.append(_ev('create', inst=INST('B', [P('k1', 'string', 'a'), P('k2', other_int, 1)]), ns=None))
    ev.append(_ev('create', inst=INST('B', [P('k1', 'string', 'a'), P('k2', kt, None)]), ns=None))

    paths = [
        PATH('B', [['k1', 'string', 'a'], ['k2', kt, v1]]),
        PATH('B', [['k2', kt, v1], ['k1', 'string', 'a']]),                 # key order swapped
        PATH('b', [['K2', kt, v1], ['K1', 'string', 'a']]),                 # names in other case
        PATH('B', [['k1', 'string', 'a'], ['k2', kt, v2]]),
        PATH('B', [['k1', 'string', 'A'], ['k2', kt, v1]]),
        PATH('B', [['k1', 'string', 'a']]),                                 # key missing in the path
        PATH('B', [['k1', 'string', 'a'], wrong]),                          # key value of another type
        PATH('B', [['k1', 'string', 'a'], ['k2', kt, v1], ['k3', 'string', 'x']]),
    ]
    if kt == 'uint16':
        paths.append(PATH('B', [['k1', 'string', 'a'], ['k2', 'int', 1]]))  # untyped integer key
    for pt in paths:
        ev.append(_ev('get', path=pt, params={}))
        ev.append(_ev('delete', path=pt))
        ev.append(_ev('modify', inst=INST(pt['cls'], [P('p', 'uint8', 2)], path=pt), pl=None))
    T = paths[0]
    ev.append(_ev('modify', inst=INST('B', props('a', v2, 2), path=T), pl=None))         # k2 changed
    ev.append(_ev('modify', inst=INST('B', props('a', v1, 2, swap=True), path=paths[1]), pl=None))
    ev.append(_ev('modify', inst=INST('B', props('a', v1, 2, upper=True), path=T), pl=['P']))
    ev.append(_ev('modify', inst=INST('B', [], path=T), pl=['k2']))
    ev.append(_ev('modify', inst=INST('B', [], path=T), pl=['p']))
    ev.append(_ev('get', path=T, params={'PropertyList': ['K2']}))
    ev.append(_ev('get', path=T, params={'PropertyList': []}))
    for cls in ('B', 'b', 'Nope'):
        ev.append(_ev('ei', cls=cls, ns=None, params={}))
        ev.append(_ev('ein', cls=cls, ns=None))
    ev.append(_ev('ei', cls='B', ns=None, params={'PropertyList': ['k2']}))
    ev.append(_ev('ei', cls='B', ns=UNKNOWN_NS, params={}))
    return ev


def _kref_events():
    ev = []
    ba = lambda ns, cls='B', kn='k1', v='a', host=None: PATH(cls, [[kn, 'string', v]], ns=ns, host=host)  # noqa

    def rinst(k1, r, t='absent', p=1, cls='R'):
        ps = [P('k1', 'string', k1), P('r', 'reference', r)]
        if t != 'absent':
            ps.append(P('t', 'reference', t))
        ps.append(P('p', 'uint8', p))
        return INST(cls, ps)

    # end points come and go
    ev.append(_ev('create', inst=INST('B', [P('k1', 'string', 'A')]), ns=None))
    ev.append(_ev('delete', path=ba(None)))
    ev.append(_ev('delete', path=ba('ns2')))
    ev.append(_ev('create', inst=INST('B', [P('k1', 'string', 'a'), P('p', 'uint8', 1)]), ns=None))
    # association instances
    ev.append(_ev('create', inst=rinst('x', ba('ns1')), ns=None))
    ev.append(_ev('create', inst=rinst('y', ba('ns1')), ns=None))
    ev.append(_ev('create', inst=rinst('x', ba('ns1', v='A')), ns=None))
    ev.append(_ev('create', inst=rinst('x', ba('NS1', cls='b', kn='K1')), ns=None))  # reference in other case
    ev.append(_ev('create', inst=rinst('x', ba('ns2')), ns='ns2'))
    ev.append(_ev('create', inst=rinst('x', ba('ns1'), t=ba('ns1')), ns=None))
    ev.append(_ev('create', inst=rinst('x', ba('ns1'), t=ba('ns2')), ns=None))       # two namespaces
    ev.append(_ev('create', inst=rinst('x', ba('ns1'), t=ba('ns2')), ns='ns2'))
    ev.append(_ev('create', inst=rinst('x', ba('ns1'), t=ba(UNKNOWN_NS)), ns=None))
    ev.append(_ev('create', inst=rinst('x', ba('ns1'), t=None), ns=None))             # NULL reference
    ev.append(_ev('create', inst=rinst('x', None), ns=None))                          # NULL key reference
    ev.append(_ev('create', inst=rinst('x', ba(None)), ns=None))                      # reference without ns
    ev.append(_ev('create', inst=rinst('x', ba('ns1', host='h.example')), ns=None))
    ev.append(_ev('create', inst=INST('R', [P('k1', 'string', 'x'), P('p', 'uint8', 1)]), ns=None))
    ev.append(_ev('create', inst=INST('R', [P('k1', 'string', 'x'), P('r', 'string', 'a')]), ns=None))

    def rpath(k1, r, ns=None, swap=False, cls='R', names=('k1', 'r')):
        keys = [[names[0], 'string', k1], [names[1], 'reference', r]]
        if swap:
            keys.reverse()
        return PATH(cls, keys, ns=ns)

    paths = [
        rpath('x', ba('ns1')),
        rpath('x', ba('ns1'), swap=True),
        rpath('x', ba('NS1', cls='b', kn='K1'), cls='r', names=('K1', 'R')),
        rpath('x', ba('ns1'), ns='ns2'),
        rpath('y', ba('ns1')),
        rpath('x', ba('ns1', v='A')),
        rpath('x', ba('ns2'), ns='ns2'),
        rpath('x', ba(None)),                                            # nested path without namespace
        rpath('x', ba('ns1', host='h.example')),
        PATH('R', [['k1', 'string', 'x']]),
    ]
    for pt in paths:
        ev.append(_ev('get', path=pt, params={}))
        ev.append(_ev('delete', path=pt))
        ev.append(_ev('modify', inst=INST(pt['cls'], [P('p', 'uint8', 2)], path=pt), pl=None))
    T = paths[0]
    ev.append(_ev('modify', inst=INST('R', [P('k1', 'string', 'x'), P('r', 'reference', ba('ns1')),
                                            P('p', 'uint8', 3)], path=T), pl=None))
    ev.append(_ev('modify', inst=INST('R', [P('r', 'reference', ba('ns1', v='A'))], path=T), pl=None))
    ev.append(_ev('modify', inst=INST('R', [P('p', 'uint8', 3)], path=T), pl=['P']))
    ev.append(_ev('get', path=T, params={'PropertyList': ['r']}))
    for ns in (None, 'ns2'):
        for cls in ('R', 'B'):
            ev.append(_ev('ei', cls=cls, ns=ns, params={}))
            ev.append(_ev('ein', cls=cls, ns=ns))
    ev.append(_ev('ei', cls='R', ns=None, params={'PropertyList': ['R']}))
    return ev


def events_of(wid):
    if wid not in _EVENTS:
        spec = WORLDS[wid]
        if spec['kind'] == 'base':
            evs = _base_events(spec['nss'])
        elif spec['kind'] == 'key2':
            evs = _key2_events(spec['ktype'])
        else:
            evs = _kref_events()
        seen = set()
        out = []
        for e in evs:
            k = json.dumps(e, sort_keys=True)
            if k not in seen:
                seen.add(k)
                out.append(e)
        _EVENTS[wid] = out
    return _EVENTS[wid]


# ------------------------------------------------------------------------------------------
# framework entry points

def _run_prefix(wid, history):
    """rebuild the state a history leads to (successor computation only, as in plan())"""
    w = fresh(wid)
    old = _SCOUT[0]
    _SCOUT[0] = True
    try:
        evs = events_of(wid)
        for i in history:
            step(w, evs[i])
    finally:
        _SCOUT[0] = old
    return w


SHARDS_PER_WORLD = 48


def plan(tier, seed):
    """The parent computes the state graph itself - successor states only (no scribbling, no
    oracle bookkeeping) - down to level depth-1, i.e. every state that has to be expanded, each
    with its shortest history (BFS order, ties broken by the order of the alphabet).  A shard is a
    list of such states; the worker rebuilds each one from its history and executes EVERY event
    of the alphabet on it with the full oracle.  Every (state, event) pair of the bounded graph is
    therefore executed and checked exactly once, whatever the number of workers."""
    b = BOUNDS[tier]
    shards = []
    for wid, depth in b['worlds'].items():
        evs = events_of(wid)
        index = {json.dumps(e, sort_keys=True): i for i, e in enumerate(evs)}
        parents = {}

        def on_transition(parent_key, d, ev, r, child_key, parents=parents, index=index):
            if child_key not in parents:
                parents[child_key] = (parent_key, index[json.dumps(ev, sort_keys=True)])

        w = fresh(wid)
        parents[canon(w)] = None
        if depth > 1:
            _SCOUT[0] = True
            try:
                explore.bfs(w, enabled, step, canon, max_depth=depth - 1, snap=explore.PickleSnap(),
                            on_transition=on_transition, max_states=MAX_STATES_PER_BFS)
            finally:
                _SCOUT[0] = False
        roots = [explore.history_of(parents, key) for key in parents if not key[2]]
        # deepest (most numerous) states are spread evenly; a shard mixes shallow and deep roots
        n = max(1, min(SHARDS_PER_WORLD, len(roots)))
        for j in range(n):
            shards.append(dict(check='history', world=wid, roots=roots[j::n]))
    return shards


def run_shard(shard, tier):
    acc = Acc()
    acc.state_hashes = set()
    wid = shard['world']
    evs = events_of(wid)
    for root in shard['roots']:
        w = _run_prefix(wid, root)
        prefix = [evs[i] for i in root]
        nroot = len(root)

        def on_transition(parent_key, depth, ev, r, child_key, prefix=prefix, nroot=nroot):
            sample = None
            if wid.startswith('base') and nroot == 1 and r.outcome in (
                    'modify:OK', 'create:CIM_ERR_ALREADY_EXISTS', 'get:CIM_ERR_NOT_FOUND') and \
                    len(acc.samples) < 1:
                sample = dict(world=wid, history=prefix, event=ev, outcome=r.outcome,
                              precond=r.obs['precond'])
            acc.case((wid, parent_key, json.dumps(ev, sort_keys=True)), nontrivial=r.nontrivial,
                     outcome=r.outcome, sample=sample)

        res = explore.bfs(w, enabled, step, canon, max_depth=1, snap=explore.PickleSnap(),
                          on_transition=on_transition)
        for v in res.violations.values():
            acc.violation(v['sig'], dict(check=v['sig']['check'], world=wid,
                                         history=prefix + v['history']),
                          v['expected'], v['observed'])
            cur = acc.violations[json.dumps(v['sig'], sort_keys=True, ensure_ascii=True)]
            cur['count'] += v['count'] - 1
        acc.state_hashes |= {hash((wid, k)) for k in res.state_keys}
        acc.count('states_expanded')
    return acc


def finish(total, tier):
    for wid in BOUNDS[tier]['worlds']:
        total.extra['events_%s' % wid] = len(events_of(wid))
    if total.state_hashes is not None:
        total.states = len(total.state_hashes)


def replay(case, tier):
    acc = Acc()
    w = fresh(case['world'])
    trace, problems = explore.run_history(w, step, case['history'])
    for ev, r in trace:
        acc.case((case['world'], json.dumps(ev, sort_keys=True)), nontrivial=r.nontrivial,
                 outcome=r.outcome)
    for p in problems:
        acc.violation(p.sig, dict(check=p.sig['check'], world=case['world'], history=case['history']),
                      p.expected, p.observed)
    return acc


def snippet(case):
    return ('import sys; sys.path.insert(0, "/verif")\n'
            'import mc\n'
            'from checks import c10_instance_store as c10\n'
            'def test_replay():\n'
            '    # world %r: see WORLDS / world_schema() in checks/c10_instance_store.py\n'
            '    acc = c10.replay(%r, "quick")\n'
            '    assert not acc.violations, [v["sig"] for v in acc.violations.values()]\n'
            % (case.get('world'), case))
