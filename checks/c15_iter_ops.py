"""C15 - Iter... operations equal the traditional result, with or without pull; clean up (mode H).

Every case is a history of one or more Iter... calls on ONE live pywbem_mock.FakedWBEMConnection
(the seven Iter... methods are the unmodified WBEMConnection code; the mock is the server with
state; conn.disable_pull_operations is the server capability switch and is set for every call).

Sub-checks (signature field 'check'):

  single    the FIRST call on a fresh connection (full product, see BOUNDS).  Oracle = the
            statement: the objects the iterator yields are, as a multiset and compared with the
            strict mc.objdump.dump, the objects the equivalent traditional operation returns on a
            clone of the connection, each with a path that names the namespace (EnumerateInstances
            / EnumerateInstanceNames: and a host, because the traditional response format has
            none); or exactly the documented error:
              CIM_ERR_NOT_SUPPORTED    use_pull_operations=True and the server has no pull
              ValueError               FilterQuery / FilterQueryLanguage / ContinueOnError=True
                                       when the traditional operation is used; MaxObjectCount 0,
                                       negative (None: ValueError or TypeError; a string:
                                       TypeError or ValueError); negative OperationTimeout
              CIMError <code>          whatever code the server gives to the Open... request with
                                       these parameters when the pull operations are used
            with an early close()/dropped generator: the objects delivered so far are part of
            that multiset; with a server error injected into the j-th Pull...: a CIMError
            surfaces (the injected code while the server kept the context) and nothing that is
            not in the multiset was delivered.
  sequence  a LATER call on a connection that already executed Iter... calls, the server
            capability possibly toggled in between (explicit-state BFS over the call alphabet
            with dedup on what the connection remembers: mc/explore.py).  Oracle = the last
            clause of the statement: the same call is executed by the real code on a FRESH
            connection (same use_pull_operations, same repository, same server capability at
            that moment); if it succeeds there it must succeed here with the same result.
  cleanup   after every call (iterated to the end, closed after k objects, dropped + gc.collect(), or
            ended by an error) the server's context table
            conn._mainprovider.enumeration_contexts holds no new context.

Signature: {'check', 'what', 'op', 'pull', 'server'}
  op      operation family: instances | paths | assoc-instances | assoc-paths | ref-instances |
          ref-paths | query
  pull    the connection's use_pull_operations: None | True | False
  server  enabled | disabled (pull capability during the failing call; the connection never saw
          the other one) | toggled (the connection saw both)
Case: {'check', 'n', 'pull', 'calls': [call, ...]} with
  call = {'op', 'server', 'moc', 'x': {extra Open parameters}, 'args': argument variant,
          'use': consumption pattern}
  moc    MaxObjectCount; the string '<default>' = not passed
  use    ['all'] (iterate to the end) | ['close', k] | ['drop', k] | ['error', j, 'keep'|'closed']
         (error: the j-th Pull... request of the call is answered with CIM_ERR_FAILED; 'keep': the
         server keeps the enumeration context, 'closed': it closes it, as DSP0200 prescribes
         without ContinueOnError)

World: default namespace root/d (empty); namespace root/s with classes TST_A (n instances), TST_B
(one instance) and the association TST_AB linking the TST_B instance to every TST_A instance, so
that all seven operations have n results.
"""
import gc
import inspect
import json
import pickle
import re
from collections import Counter

import pywbem
import pywbem_mock
import pywbem_mock._mainprovider as _mp
import pywbem_mock._wbemconnection_mock as _wm
from pywbem import CIMError, CIMInstance, CIMInstanceName, CIMClassName, Uint32

from mc.core import Acc, HarnessError
from mc import explore
from mc.explore import Problem, StepResult
from mc.objdump import dump, diff, path_class

ID = 'C15'
RULE = ('a case is one Iter... call (operation x use_pull_operations x server capability x result '
        'size x MaxObjectCount x extra Open parameters x consumption pattern) executed by the real '
        'generator on a live FakedWBEMConnection: "single" = first call on a fresh connection, '
        'enumerated as a full product; "sequence" = a later call, reached by BFS over call '
        'histories with dedup on (the 7 _use_*_pull_operations flags, server capabilities seen, '
        'context table); a case is non-trivial unless the generator was never started or the '
        'injected server error was never reached')
ASSUMPTIONS = [
    'the equivalent traditional operation is executed with the same target/filter arguments on a '
    'fresh clone of the same repository; its result completed with the target namespace (and, for '
    'EnumerateInstances/EnumerateInstanceNames, any host) is the reference multiset',
    'host of the paths: for IterEnumerateInstances/IterEnumerateInstancePaths only "a host is '
    'set" is demanded (which one is not compared); for the association/reference operations the '
    'host must equal that of the traditional result (whatever it is, also None); the instances '
    'of IterQueryInstances are compared without their path (documented as not set)',
    'MainProvider.ExecQuery (documented as not implemented, always CIM_ERR_NOT_SUPPORTED) is '
    'replaced by a stub "SELECT * FROM <class>" -> EnumerateInstances without paths, and '
    'FakedWBEMConnection._imeth_ExecQuery (marked untested in the mock, it wraps the list once '
    'too often) by one that returns the IRETURNVALUE tuple WBEMConnection.ExecQuery parses; '
    'pywbem\'s own tests mock ExecQuery too',
    'ContinueOnError=False and ReturnQueryResultClass with the traditional operation: the '
    'documentation promises ValueError only for ContinueOnError=True; ValueError or the result '
    'are both accepted',
    'errors of the Open... request other than "pull not supported" (unknown FilterQueryLanguage, '
    'OperationTimeout above the server maximum, ...) are predicted by sending the same Open... '
    'request directly on a clone; the Iter... operation must raise the same status code',
    'the server capability is only toggled between calls (no generator is alive then)',
    'uuid.uuid4 in pywbem_mock._mainprovider is replaced by a counter',
    'sequence results are compared with the result on a fresh connection modulo the host of '
    'EnumerateInstances/EnumerateInstanceNames paths (host presence is the business of "single")',
    'a server error in the middle: the statement names no error, demanded is only that a '
    'CIMError surfaces (with the injected code if the server kept the context), nothing alien was '
    'delivered and no context stays; when the server closed the context itself the generator\'s '
    'CloseEnumeration fails and replaces the injected error - counted (error_masked_by_close), '
    'not reported',
]

NS = 'root/s'
DEFNS = 'root/d'
QUERY = 'SELECT * FROM TST_A'
QLANG = 'DMTF:FQL'          # the only language the mock's Open... validation lets through
NOTSUPP = pywbem.CIM_ERR_NOT_SUPPORTED
FAILED = pywbem.CIM_ERR_FAILED
DEFAULT = '<default>'

MOF = '''
Qualifier Association : boolean = false, Scope(association), Flavor(DisableOverride, ToSubclass);
Qualifier Key : boolean = false, Scope(property, reference), Flavor(DisableOverride, ToSubclass);
class TST_A { [Key] uint32 Id; string Name; };
class TST_B { [Key] uint32 Id; };
[Association] class TST_AB { [Key] TST_B REF Src; [Key] TST_A REF Dst; };
instance of TST_B as $b { Id = 0; };
'''

# op -> family, traditional operation, Open operation, kind of result, target, host demanded
OPS = {
    'IterEnumerateInstances': ('instances', 'EnumerateInstances', 'OpenEnumerateInstances',
                               'inst', 'class', True),
    'IterEnumerateInstancePaths': ('paths', 'EnumerateInstanceNames', 'OpenEnumerateInstancePaths',
                                   'path', 'class', True),
    'IterAssociatorInstances': ('assoc-instances', 'Associators', 'OpenAssociatorInstances',
                                'inst', 'assoc', False),
    'IterAssociatorInstancePaths': ('assoc-paths', 'AssociatorNames', 'OpenAssociatorInstancePaths',
                                    'path', 'assoc', False),
    'IterReferenceInstances': ('ref-instances', 'References', 'OpenReferenceInstances',
                               'inst', 'ref', False),
    'IterReferenceInstancePaths': ('ref-paths', 'ReferenceNames', 'OpenReferenceInstancePaths',
                                   'path', 'ref', False),
    'IterQueryInstances': ('query', 'ExecQuery', 'OpenQueryInstances', 'query', 'query', False),
}
OPNAMES = list(OPS)
FLAGS = ['_use_pull_operations', '_use_enum_inst_pull_operations', '_use_enum_path_pull_operations',
         '_use_ref_inst_pull_operations', '_use_ref_path_pull_operations',
         '_use_assoc_inst_pull_operations', '_use_assoc_path_pull_operations',
         '_use_query_pull_operations']
PULLNAMES = ['PullInstancesWithPath', 'PullInstancePaths', 'PullInstances']

# argument variants: name -> (target form, kwargs common to the Iter and the traditional operation)
#   target forms: kw = namespace keyword, obj = namespace in the CIMClassName/CIMInstanceName,
#   default = connection default namespace, both = keyword wins over the object's namespace
ARGS = {
    'class': {
        'std': ('kw', {}), 'ns-obj': ('obj', {}), 'ns-default': ('default', {}),
        'ns-both': ('both', {}), 'ns-slashes': ('slashes', {}),
    },
    'assoc': {
        'std': ('obj', {}), 'ns-default': ('default', {}),
        'AssocClass': ('obj', {'AssocClass': 'TST_AB'}), 'ResultClass': ('obj', {'ResultClass': 'TST_A'}),
        'Role': ('obj', {'Role': 'Src'}), 'ResultRole': ('obj', {'ResultRole': 'Dst'}),
        'Role-nomatch': ('obj', {'Role': 'Dst'}),
    },
    'ref': {
        'std': ('obj', {}), 'ns-default': ('default', {}),
        'ResultClass': ('obj', {'ResultClass': 'TST_AB'}), 'Role': ('obj', {'Role': 'Src'}),
        'Role-nomatch': ('obj', {'Role': 'Dst'}),
    },
    'query': {'std': ('kw', {}), 'ns-default': ('default', {})},
}
INST_ARGS = {      # further variants of the three ...Instances operations
    'PropertyList': {'PropertyList': ['Id']}, 'PropertyList-empty': {'PropertyList': []},
    'IncludeClassOrigin': {'IncludeClassOrigin': True},
}
CLASS_INST_ARGS = {'DeepInheritance-false': {'DeepInheritance': False},
                   'LocalOnly-false': {'LocalOnly': False}}


def arg_variants(op):
    fam, _, _, kind, target, _ = OPS[op]
    out = dict(ARGS[target])
    if kind == 'inst':
        form = 'kw' if target == 'class' else 'obj'
        for k, v in INST_ARGS.items():
            out[k] = (form, v)
        if target == 'class':
            for k, v in CLASS_INST_ARGS.items():
                out[k] = (form, v)
    return out


# extra Open parameters ("given or not")
def extras(tier, op):
    query = op == 'IterQueryInstances'
    if tier == 'quick':
        dims = [('ContinueOnError', [None, True]), ('OperationTimeout', [None, 10])]
        if query:
            dims.append(('ReturnQueryResultClass', [None, True]))
        else:
            dims += [('FilterQueryLanguage', [None, 'DMTF:FQL']), ('FilterQuery', [None, 'Id = 1'])]
    else:
        dims = [('ContinueOnError', [None, True, False]), ('OperationTimeout', [None, 0, 10, 41, -1])]
        if query:
            dims.append(('ReturnQueryResultClass', [None, True, False]))
        else:
            dims += [('FilterQueryLanguage', [None, 'DMTF:FQL', 'WQL']),
                     ('FilterQuery', [None, 'Id = 1'])]
    out = [{}]
    for name, vals in dims:
        out = [dict(x, **({name: v} if v is not None else {})) for x in out for v in vals]
    return out


INVALID_MOCS = [0, None, -1, '1']


def mocs(n):
    return sorted({1, 2, n, n + 1} - {0}) + [DEFAULT] + INVALID_MOCS


def patterns(n):
    out = [['all']]
    out += [['close', k] for k in range(n + 1)]
    out += [['drop', k] for k in range(n + 1)]
    out += [['error', j, v] for j in range(1, n) for v in ('keep', 'closed')]
    return out


_COMMON = {
    'operations': 7, 'use_pull_operations': [None, True, False], 'server_pull': ['enabled', 'disabled'],
    'MaxObjectCount': '1, 2, n, n+1, not passed, and the invalid 0, None, -1, "1"',
    'consumption': 'iterate to the end; close() after k objects, k=0..n; dropped + gc.collect() after k '
                   'objects, k=0..n; CIM_ERR_FAILED at the j-th Pull..., j=1..n-1, context kept / '
                   'closed by the server',
    'single': 'full product of all of the above x extra parameters, standard target arguments',
    'single_argument_variants': 'every target/filter argument variant of the operation (namespace '
                                'as keyword / in the object / connection default / both / with '
                                'slashes; AssocClass, ResultClass, Role, ResultRole, PropertyList, '
                                'IncludeClassOrigin, DeepInheritance, LocalOnly) x operations x '
                                'use_pull_operations x server x n x MaxObjectCount {1, n+1} x '
                                '{all, close after 1}',
    'sequence_alphabet': '7 operations x server {enabled, disabled} x extra {none, filter or '
                         'ReturnQueryResultClass, ContinueOnError} x MaxObjectCount {1, n+1} x '
                         '{all, close after 1, drop after 1, error at 1st pull (context kept)}; '
                         'BFS over all call sequences up to sequence_length, one BFS per '
                         '(use_pull_operations, n)',
}
BOUNDS = {
    'quick': dict(_COMMON, N=[0, 1, 2, 3], sequence_length=2, sequence_N=[0, 1, 2, 3],
                  extra_parameters='ContinueOnError {-, True} x OperationTimeout {-, 10} x '
                                   'FilterQueryLanguage {-, DMTF:FQL} x FilterQuery {-, given} '
                                   '(query: ReturnQueryResultClass {-, True} instead of the filter)'),
    'thorough': dict(_COMMON, N=[0, 1, 2, 3, 4, 5], sequence_length=3, sequence_N=[0, 1, 2, 3, 5],
                     extra_parameters='ContinueOnError {-, True, False} x OperationTimeout {-, 0, '
                                      '10, 41, -1} x FilterQueryLanguage {-, DMTF:FQL, WQL} x '
                                      'FilterQuery {-, given} (query: ReturnQueryResultClass {-, '
                                      'True, False} instead of the filter)'),
}
MAX_STATES_PER_BFS = 4000          # safety net for implementations that leak contexts (unchanged tree:
                                   # 113 states after two calls, 435 after three); hitting it is a cap

_CODENAMES = {getattr(pywbem, _n): _n for _n in dir(pywbem) if _n.startswith('CIM_ERR_')}


def codename(code):
    return _CODENAMES.get(code, str(code))


# ------------------------------------------------------------------------------------------
# owned nondeterminism, the query stubs

_CTX = [0]


class _UuidShim:
    """stands in for the uuid module inside pywbem_mock._mainprovider only"""
    @staticmethod
    def uuid4():
        _CTX[0] += 1
        return 'ctx-%d' % _CTX[0]


def _stub_execquery(self, namespace, QueryLanguage, Query):
    """minimal query processor: SELECT * FROM <class>; instances without path"""
    self.validate_namespace(namespace)
    m = re.match(r'^SELECT \* FROM (\w+)$', Query)
    if not m:
        raise CIMError(pywbem.CIM_ERR_INVALID_QUERY, 'stub: unsupported query')
    insts = self.EnumerateInstances(namespace, m.group(1))
    for i in insts:
        i.path = None
    return insts


def _stub_imeth_execquery(self, namespace, **params):
    insts = self._mainprovider.ExecQuery(namespace=namespace, QueryLanguage=params['QueryLanguage'],
                                         Query=params['Query'])
    return self._make_tuple([('VALUE.OBJECT', {}, i) for i in insts])


_INSTALLED = [False]


def _install():
    if _INSTALLED[0]:
        return
    if not isinstance(_mp.uuid, _UuidShim):
        _mp.uuid = _UuidShim()
    _mp.MainProvider.ExecQuery = _stub_execquery
    _wm.FakedWBEMConnection._imeth_ExecQuery = _stub_imeth_execquery
    for name, val in (('DEFAULT_MAX_OBJECT_COUNT', 100), ('OPEN_MAX_TIMEOUT', 40)):
        if getattr(pywbem_mock.config, name) != val:
            raise HarnessError('pywbem_mock.config.%s is not at its default' % name)
    gc.collect()
    gc.freeze()                # keeps the gc.collect() of the 'drop' pattern cheap
    _INSTALLED[0] = True


# ------------------------------------------------------------------------------------------
# the world

class World:
    def __init__(self, n, upo):
        self.n = n
        self.upo = upo
        self.ncalls = 0           # Iter... calls executed so far
        self.seen = set()         # server capabilities the connection met
        self.nctx = 0             # context ids handed out so far
        conn = pywbem_mock.FakedWBEMConnection(default_namespace=DEFNS, use_pull_operations=upo)
        conn.add_namespace(NS)
        mof = MOF
        for i in range(1, n + 1):
            mof += 'instance of TST_A as $a%d { Id = %d; Name = "n%d"; };\n' % (i, i, i)
            mof += 'instance of TST_AB { Src = $b; Dst = $a%d; };\n' % i
        conn.compile_mof_string(mof, namespace=NS)
        self.conn = conn


_FRESH = {}


def fresh(n, upo):
    _install()
    k = (n, upo)
    if k not in _FRESH:
        _FRESH[k] = pickle.dumps(World(n, upo), pickle.HIGHEST_PROTOCOL)
    return pickle.loads(_FRESH[k])


def table(conn):
    return conn._mainprovider.enumeration_contexts


def canon(w):
    conn = w.conn
    return (tuple(getattr(conn, f) for f in FLAGS), tuple(sorted(w.seen)),
            tuple(sorted((d['pull_type'], len(d['data'])) for d in table(conn).values())),
            conn.default_namespace)


# ------------------------------------------------------------------------------------------
# building the arguments of a call

def bpath(ns):
    return CIMInstanceName('TST_B', {'Id': Uint32(0)}, namespace=ns)


def target_args(op, variant):
    """-> (positional args, keyword args common to Iter and traditional operation, default ns?)"""
    target = OPS[op][4]
    try:
        form, common = arg_variants(op)[variant]
    except KeyError:
        raise HarnessError('unknown argument variant %r of %s' % (variant, op))
    kw = dict(common)
    if target == 'class':
        if form == 'kw':
            pos = ('TST_A',)
            kw['namespace'] = NS
        elif form == 'slashes':
            pos = ('TST_A',)
            kw['namespace'] = '/' + NS + '/'
        elif form == 'obj':
            pos = (CIMClassName('TST_A', namespace=NS),)
        elif form == 'both':
            pos = (CIMClassName('TST_A', namespace=DEFNS),)
            kw['namespace'] = NS
        else:
            pos = ('TST_A',)
    elif target == 'query':
        pos = (QLANG, QUERY)
        if form == 'kw':
            kw['namespace'] = NS
    else:
        pos = (bpath(NS if form == 'obj' else None),)
    return pos, kw, form == 'default'


def _accepts(fn, kwargs):
    names = set(inspect.signature(fn).parameters)
    return {k: v for k, v in kwargs.items() if k in names}


def classify_exc(exc):
    if isinstance(exc, CIMError):
        return ('cim', exc.status_code)
    if isinstance(exc, (ValueError, TypeError)):
        return ('local', type(exc).__name__)
    return ('exc', type(exc).__name__)


class _Inject:
    """answers the j-th Pull... request of a call with CIM_ERR_FAILED"""
    def __init__(self, prov, j, variant):
        self.prov, self.j, self.variant = prov, j, variant
        self.calls = 0
        self.fired = False
        for name in PULLNAMES:
            prov.__dict__[name] = self._wrap(getattr(prov, name))

    def _wrap(self, orig):
        def pull(EnumerationContext, MaxObjectCount):
            self.calls += 1
            if self.calls == self.j:
                self.fired = True
                if self.variant == 'closed':
                    self.prov.enumeration_contexts.pop(EnumerationContext, None)
                raise CIMError(FAILED, 'injected server error')
            return orig(EnumerationContext=EnumerationContext, MaxObjectCount=MaxObjectCount)
        return pull

    def remove(self):
        for name in PULLNAMES:
            self.prov.__dict__.pop(name, None)


def execute(conn, call):
    """run ONE Iter... call with the real code -> dict(status, err, objs, finished, fired)"""
    op = call['op']
    pos, kw, use_default = target_args(op, call['args'])
    kw.update(call['x'])
    if call['moc'] != DEFAULT:
        kw['MaxObjectCount'] = call['moc']
    use = call['use']
    conn.disable_pull_operations = (call['server'] == 'disabled')
    old_default = conn.default_namespace
    if use_default:
        conn.default_namespace = NS
    inj = _Inject(conn._mainprovider, use[1], use[2]) if use[0] == 'error' else None
    objs = []
    out = dict(status='ok', err=None, objs=objs, finished=False, fired=False, started=True)
    gen = r = None
    try:
        try:
            r = getattr(conn, op)(*pos, **kw)
            gen = r.generator if op == 'IterQueryInstances' else r
            if use[0] in ('all', 'error'):
                for o in gen:
                    objs.append(o)
                out['finished'] = True
            else:
                if use[1] == 0 and op != 'IterQueryInstances':
                    out['started'] = False
                for _ in range(use[1]):
                    try:
                        objs.append(next(gen))
                    except StopIteration:
                        out['finished'] = True
                        break
                if use[0] == 'close':
                    gen.close()
        except Exception as exc:  # noqa: raised by the code under test
            out['status'], out['err'] = classify_exc(exc)
        if use[0] == 'drop':
            gen = r = None
            gc.collect()
    finally:
        gen = r = None
        if inj is not None:
            inj.remove()
            out['fired'] = inj.fired
        if use_default:
            conn.default_namespace = old_default
    return out


def traditional(conn, call):
    """the equivalent traditional operation with the same target arguments -> (tag, value)"""
    op = call['op']
    trad = getattr(conn, OPS[op][1])
    pos, kw, use_default = target_args(op, call['args'])
    kw = _accepts(trad, kw)
    conn.disable_pull_operations = (call['server'] == 'disabled')
    if use_default:
        conn.default_namespace = NS
    try:
        return 'ok', trad(*pos, **kw)
    except Exception as exc:  # noqa
        return classify_exc(exc)


def open_probe(conn, call):
    """the Open... request with the same parameters, sent directly -> 'ok' | (tag, value)"""
    op = call['op']
    opn = getattr(conn, OPS[op][2])
    pos, kw, use_default = target_args(op, call['args'])
    kw.update(call['x'])
    kw = _accepts(opn, kw)
    conn.disable_pull_operations = False
    if use_default:
        conn.default_namespace = NS
    try:
        opn(*pos, **kw)
        return 'ok'
    except Exception as exc:  # noqa
        return classify_exc(exc)


# ------------------------------------------------------------------------------------------
# object comparison

def _sub(d, name):
    for part in d[1:]:
        if part[0] == name:
            return part
    raise HarnessError('no %s in dump %r' % (name, d))


def render(op, o, ns_default=None, complete_host=None):
    """-> (problems, identity, strict dump as JSON text); the dump is normalised as far as the
    statement leaves freedom (see ASSUMPTIONS)"""
    kind, host_demanded = OPS[op][3], OPS[op][5]
    probs = []
    want = CIMInstanceName if kind == 'path' else CIMInstance
    if not isinstance(o, want):
        return ['not-a-' + want.__name__], 'other', json.dumps(dump(o))
    d = dump(o)
    if kind == 'query':
        _sub(d, 'path')[1] = None
        return probs, json.dumps([d[1], _sub(d, 'properties')]), json.dumps(d)
    pd = d if kind == 'path' else _sub(d, 'path')[1]
    if pd is None:
        return ['path-missing'], json.dumps(d[1]), json.dumps(d)
    nsd, hd = _sub(pd, 'namespace'), _sub(pd, 'host')
    if nsd[1] is None:
        if ns_default is None:
            probs.append('namespace-missing')
        nsd[1] = ['str', ns_default or NS]
    if host_demanded:
        if hd[1] is None and complete_host is None:
            probs.append('host-missing')
        hd[1] = '<any>'
    ident = json.dumps([_sub(pd, 'classname'), _sub(pd, 'keybindings')])
    return probs, ident, json.dumps(d)


_REF = {}


def reference(n, call):
    """reference multiset of a call = traditional operation on a clone, completed"""
    k = (n, call['op'], call['args'])
    if k not in _REF:
        w = fresh(n, False)
        res = traditional(w.conn, call)
        if res[0] == 'ok':
            items = []
            for o in res[1]:
                probs, ident, dj = render(call['op'], o, ns_default=NS, complete_host=w.conn.host)
                if probs:
                    raise HarnessError('traditional result of %r not usable: %r' % (k, probs))
                items.append((ident, dj))
            res = ('ok', items)
        elif res[0] != 'cim':
            raise HarnessError('traditional operation for %r: %r' % (k, res))
        _REF[k] = res
    return _REF[k]


_PROBE = {}


def probe(n, call):
    k = (n, call['op'], call['args'], json.dumps(call['x'], sort_keys=True))
    if k not in _PROBE:
        _PROBE[k] = open_probe(fresh(n, False).conn, call)
    return _PROBE[k]


def describe(out, items=None):
    if out['status'] == 'ok':
        return '%s %d objects%s' % ('yielded' if out['finished'] else 'yielded (not exhausted)',
                                    len(out['objs']),
                                    '' if items is None else ': %s' % [i for i, _ in items])
    if out['status'] == 'cim':
        return 'CIMError %s after %d objects' % (codename(out['err']), len(out['objs']))
    return '%s after %d objects' % (out['err'], len(out['objs']))


# ------------------------------------------------------------------------------------------
# the oracle for a call on a FRESH connection (the statement, clause by clause)

def expectation(w, call):
    """-> dict(kind='local'|'cim'|'ok', names / code, may_valueerror, mode)"""
    x, moc, op, upo = call['x'], call['moc'], call['op'], w.upo
    ot = x.get('OperationTimeout')
    if ot is not None and ot < 0:
        return dict(kind='local', names=['ValueError'], mode='-')
    if moc != DEFAULT:
        if moc is None or isinstance(moc, str):
            return dict(kind='local', names=['ValueError', 'TypeError'], mode='-')
        if moc <= 0:
            return dict(kind='local', names=['ValueError'], mode='-')
    server = call['server']
    if upo is True and server == 'disabled':
        return dict(kind='cim', code=NOTSUPP, mode='pull')
    mode = 'trad' if upo is False or server == 'disabled' else 'pull'
    if mode == 'pull':
        p = probe(w.n, call)
        if p != 'ok':
            if p[0] == 'cim' and upo is None and p[1] in (NOTSUPP, FAILED):
                mode = 'trad'              # documented: taken as "pull not supported"
            elif p[0] == 'cim':
                return dict(kind='cim', code=p[1], mode='pull')
            elif p[0] == 'local':
                return dict(kind='local', names=[p[1]], mode='pull')
            else:
                raise HarnessError('Open... probe for %r: %r' % (call, p))
    may = False
    if mode == 'trad':
        if op != 'IterQueryInstances' and ('FilterQuery' in x or 'FilterQueryLanguage' in x):
            return dict(kind='local', names=['ValueError'], mode='trad')
        if x.get('ContinueOnError') is True:
            return dict(kind='local', names=['ValueError'], mode='trad')
        may = x.get('ContinueOnError') is not None or x.get('ReturnQueryResultClass') is not None
    ref = reference(w.n, call)
    if ref[0] == 'cim':
        return dict(kind='cim', code=ref[1], mode=mode, may_valueerror=may)
    return dict(kind='ok', ref=ref[1], mode=mode, may_valueerror=may)


def compare_objects(op, got_items, ref_items, partial):
    """-> list of (what, expected, observed)"""
    out = []
    G, R = Counter(d for _, d in got_items), Counter(d for _, d in ref_items)
    if (not partial and G == R) or (partial and not (G - R)):
        return out
    gi, ri = Counter(i for i, _ in got_items), Counter(i for i, _ in ref_items)
    extra = gi - ri
    missing = Counter() if partial else ri - gi
    if extra:
        out.append(('extra-objects', 'objects %s' % sorted(ri.elements()),
                    'also/again %s' % sorted(extra.elements())))
    if missing:
        out.append(('missing-objects', 'objects %s' % sorted(ri.elements()),
                    'never yielded: %s' % sorted(missing.elements())))
    if not extra and not missing:
        refby = {}
        for i, d in ref_items:
            refby.setdefault(i, []).append(d)
        for i, d in got_items:
            if d not in refby.get(i, []):
                df = diff(json.loads(refby[i][0]), json.loads(d))
                out.append(('object-differs:' + path_class(df[0]),
                            'as in the traditional result: %s' % (df[1],), '%s at %s' % (df[2], df[0])))
                break
    return out


def judge_single(w, call, out, sig0):
    """oracle for the first call on a fresh connection -> (problems, outcome class, nontrivial)"""
    op = call['op']
    exp = expectation(w, call)
    use = call['use']
    problems = []

    def bad(what, expected, observed):
        problems.append(Problem(dict(sig0, check='single', what=what), expected, observed))

    if not out['started']:
        # generator function: nothing runs before the first next()
        if out['status'] != 'ok' or out['objs']:
            bad('raised-before-start', 'nothing happens', describe(out))
        return problems, 'not-started', False

    rendered = []
    for o in out['objs']:
        probs, ident, dj = render(op, o)
        for pr in probs:
            bad(pr, 'path with namespace%s' % (' and host' if OPS[op][5] else ''),
                'object %s' % ident)
        rendered.append((ident, dj))

    if exp['kind'] == 'local':
        if out['status'] == 'local' and out['err'] in exp['names']:
            # rejected before any request (invalid MaxObjectCount/OperationTimeout): trivial
            return problems, '%s:rejected:%s' % (exp['mode'], out['err']), exp['mode'] != '-'
        if out['status'] == 'ok':
            bad('accepted-instead-of-' + exp['names'][0], '/'.join(exp['names']), describe(out))
        else:
            bad('wrong-error:%s-instead-of-%s' % (errname(out), exp['names'][0]),
                '/'.join(exp['names']), describe(out))
        return problems, 'VIOLATION', True

    if exp.get('may_valueerror') and out['status'] == 'local' and out['err'] == 'ValueError':
        return problems, 'trad:rejected:ValueError(allowed, not documented)', True

    if exp['kind'] == 'cim':
        if out['status'] == 'cim' and out['err'] == exp['code']:
            if out['objs']:
                bad('objects-before-error', 'CIMError %s' % codename(exp['code']), describe(out))
            return problems, '%s:error:%s' % (exp['mode'], codename(exp['code'])), True
        if out['status'] == 'ok':
            bad('result-instead-of-' + codename(exp['code']), 'CIMError ' + codename(exp['code']),
                describe(out, rendered))
        else:
            bad('wrong-error:%s-instead-of-%s' % (errname(out), codename(exp['code'])),
                'CIMError ' + codename(exp['code']), describe(out))
        return problems, 'VIOLATION', True

    ref = exp['ref']
    fired = use[0] == 'error' and out['fired']
    if use[0] == 'error' and not fired:
        nontrivial = False
    else:
        nontrivial = True
    if fired:
        # server error in the middle of the enumeration
        for what, e, o in compare_objects(op, rendered, ref, partial=True):
            bad(what, e, o)
        if out['status'] == 'cim' and (out['err'] == FAILED or use[2] == 'closed'):
            oc = 'pull:server-error-surfaced' if out['err'] == FAILED else \
                'pull:server-error-masked-by-close:' + codename(out['err'])
            return problems, oc, True
        if out['status'] == 'ok':
            bad('server-error-swallowed', 'CIMError CIM_ERR_FAILED (injected into Pull... #%d)' % use[1],
                describe(out, rendered))
        else:
            bad('server-error-replaced:' + errname(out), 'CIMError CIM_ERR_FAILED (injected)',
                describe(out))
        return problems, 'VIOLATION', True

    if out['status'] != 'ok':
        bad('fails:%s' % errname(out), 'the %d objects of %s' % (len(ref), OPS[op][1]), describe(out))
        return problems, 'VIOLATION', True

    partial = use[0] in ('close', 'drop')
    for what, e, o in compare_objects(op, rendered, ref, partial):
        bad(what, e, o)
    if partial:
        want = min(use[1], len(ref))
        if len(rendered) < want:
            bad('missing-objects', '%d of the %d objects before the early %s' % (want, len(ref), use[0]),
                describe(out, rendered))
        oc = '%s:%s-early' % (exp['mode'], use[0]) if use[1] < len(ref) else \
            '%s:%s-at-end' % (exp['mode'], use[0])
    else:
        if not out['finished']:
            raise HarnessError('exhausting loop ended without StopIteration')
        oc = '%s:all-objects' % exp['mode'] if ref else '%s:empty-result' % exp['mode']
        if use[0] == 'error':
            oc = '%s:error-point-not-reached' % exp['mode']
    return problems, oc if not problems else 'VIOLATION', nontrivial


def errname(out):
    return codename(out['err']) if out['status'] == 'cim' else str(out['err'])


# ------------------------------------------------------------------------------------------
# the oracle for a later call: the same call on a fresh connection

_FRESHOUT = {}


def summary(op, out):
    """comparable summary of an executed call (host of enumerate paths excluded)"""
    if out['status'] != 'ok':
        return (out['status'], out['err'], len(out['objs']))
    items = sorted(render(op, o, ns_default=NS, complete_host='x')[2] for o in out['objs'])
    return ('ok', out['finished'], items)


def fresh_outcome(n, upo, call):
    k = (n, upo, json.dumps(call, sort_keys=True))
    if k not in _FRESHOUT:
        w = fresh(n, upo)
        _CTX[0] = 0
        _FRESHOUT[k] = summary(call['op'], execute(w.conn, call))
    return _FRESHOUT[k]


def judge_later(w, call, out, sig0):
    op = call['op']
    fr = fresh_outcome(w.n, w.upo, call)
    problems = []
    if fr[0] != 'ok':
        if out['status'] != 'ok':
            return problems, 'later:fresh-connection-fails-too', True
        # nothing is demanded by the last clause; the first clause still holds for every call
        ref = reference(w.n, call)
        if ref[0] == 'ok':
            items = [(None, d) for d in summary(op, out)[2]]
            part = call['use'][0] in ('close', 'drop')
            G, R = Counter(d for _, d in items), Counter(d for _, d in ref[1])
            if (part and (G - R)) or (not part and G != R):
                problems.append(Problem(
                    dict(sig0, check='sequence', what='later-call-wrong-result'),
                    'the objects of %s' % OPS[op][1], describe(out)))
                return problems, 'VIOLATION', True
        return problems, 'later:succeeds-where-fresh-fails', True
    here = summary(op, out)
    exp = 'as on a fresh connection: %d objects' % len(fr[2])
    if here[0] != 'ok':
        problems.append(Problem(dict(sig0, check='sequence', what='later-call-fails:' + errname(out)),
                                exp, describe(out)))
        return problems, 'VIOLATION', True
    exhaustive = call['use'][0] in ('all', 'error')
    if (exhaustive and here != fr) or (not exhaustive and len(here[2]) != len(fr[2])):
        problems.append(Problem(dict(sig0, check='sequence', what='later-call-differs'),
                                exp, describe(out)))
        return problems, 'VIOLATION', True
    flag = getattr(w.conn, _flagname(op))
    return problems, 'later:same-as-fresh(%s)' % ('pull' if flag else 'traditional'), True


_FLAGOF = {'IterEnumerateInstances': '_use_enum_inst_pull_operations',
           'IterEnumerateInstancePaths': '_use_enum_path_pull_operations',
           'IterAssociatorInstances': '_use_assoc_inst_pull_operations',
           'IterAssociatorInstancePaths': '_use_assoc_path_pull_operations',
           'IterReferenceInstances': '_use_ref_inst_pull_operations',
           'IterReferenceInstancePaths': '_use_ref_path_pull_operations',
           'IterQueryInstances': '_use_query_pull_operations'}


def _flagname(op):
    return _FLAGOF[op]


# ------------------------------------------------------------------------------------------
# one transition

def step(w, call):
    _CTX[0] = w.nctx
    conn = w.conn
    before = len(table(conn))
    w.seen.add(call['server'])
    sig0 = dict(op=OPS[call['op']][0], pull=w.upo,
                server='toggled' if len(w.seen) > 1 else call['server'])
    out = execute(conn, call)
    if w.ncalls == 0:
        problems, oc, nontrivial = judge_single(w, call, out, sig0)
    else:
        problems, oc, nontrivial = judge_later(w, call, out, sig0)
    w.ncalls += 1
    after = len(table(conn))
    if after > before:
        how = 'error' if out['status'] != 'ok' else \
            {'all': 'exhaustion', 'error': 'exhaustion'}.get(call['use'][0], call['use'][0])
        problems.append(Problem(
            dict(sig0, check='cleanup', what='context-left-open-after-' + how),
            'no enumeration context left on the server',
            '%d new context(s) in MainProvider.enumeration_contexts: %s (%s)'
            % (after - before, sorted(table(conn)), describe(out))))
        oc = 'VIOLATION'
    w.nctx = _CTX[0]
    calls = 1
    return StepResult(oc, nontrivial, problems, dict(calls=calls, out=out))


# ------------------------------------------------------------------------------------------
# enumeration

def single_calls(tier, op, server, n):
    for moc in mocs(n):
        for x in extras(tier, op):
            for use in patterns(n):
                yield dict(op=op, server=server, moc=moc, x=x, args='std', use=use)


def variant_calls(op, server, n):
    for variant in arg_variants(op):
        if variant == 'std':
            continue
        for moc in sorted({1, n + 1}):
            for use in (['all'], ['close', 1]):
                yield dict(op=op, server=server, moc=moc, x={}, args=variant, use=use)


def sequence_alphabet(n):
    evs = []
    for op in OPNAMES:
        xs = [{}, {'ContinueOnError': True}]
        xs.append({'ReturnQueryResultClass': True} if op == 'IterQueryInstances'
                  else {'FilterQueryLanguage': 'DMTF:FQL', 'FilterQuery': 'Id = 1'})
        for server in ('enabled', 'disabled'):
            for x in xs:
                for moc in sorted({1, n + 1}):
                    uses = [['all']]
                    if n >= 1:
                        uses += [['close', 1], ['drop', 1]]
                    if n >= 2 and moc == 1:
                        uses.append(['error', 1, 'keep'])
                    for use in uses:
                        evs.append(dict(op=op, server=server, moc=moc, x=x, args='std', use=use))
    return evs


_ALPHA = {}


def enabled(w):
    if w.n not in _ALPHA:
        _ALPHA[w.n] = sequence_alphabet(w.n)
    return _ALPHA[w.n]


UPOS = [None, True, False]


def upo_of(s):
    return {'None': None, 'True': True, 'False': False}[s]


def plan(tier, seed):
    b = BOUNDS[tier]
    out = []
    small = [n for n in b['N'] if n <= 1]
    groups = ([small] if small else []) + [[n] for n in b['N'] if n > 1]
    for op in OPNAMES:
        for upo in UPOS:
            for server in ('enabled', 'disabled'):
                for ns in groups:
                    out.append(dict(check='single', op=op, pull=str(upo), server=server, ns=ns))
    for op in OPNAMES:
        out.append(dict(check='variants', op=op, ns=b['N']))
    for upo in UPOS:
        for n in b['sequence_N']:
            out.append(dict(check='sequence', pull=str(upo), n=n, depth=b['sequence_length']))
    out.sort(key=lambda s: -(max(s['ns']) ** 2 if 'ns' in s else 1000 + s['n']))
    return out


def _record(acc, case, r, key, sample=None):
    acc.case(key, nontrivial=r.nontrivial, outcome=r.outcome, sample=sample)
    for p in r.problems:
        acc.violation(p.sig, case, p.expected, p.observed)
    if r.outcome.startswith('pull:server-error-masked-by-close'):
        acc.count('error_masked_by_close')


def run_shard(shard, tier):
    acc = Acc()
    acc.state_hashes = set()
    if shard['check'] in ('single', 'variants'):
        if shard['check'] == 'single':
            todo = [(upo_of(shard['pull']), shard['server'])]
        else:
            todo = [(u, s) for u in UPOS for s in ('enabled', 'disabled')]
        for upo, server in todo:
            for n in shard['ns']:
                gen = single_calls(tier, shard['op'], server, n) if shard['check'] == 'single' \
                    else variant_calls(shard['op'], server, n)
                for call in gen:
                    w = fresh(n, upo)
                    r = step(w, call)
                    case = dict(check='single', n=n, pull=upo, calls=[call])
                    smp = None
                    if shard['check'] == 'single' and n == 2 and call['moc'] == 1 and \
                            not call['x'] and upo is None and shard['server'] == 'enabled' and \
                            call['use'] in (['all'], ['close', 1], ['error', 1, 'keep']) and \
                            shard['op'] in ('IterAssociatorInstancePaths', 'IterQueryInstances'):
                        smp = dict(case=case, outcome=r.outcome,
                                   yielded=len(r.obs['out']['objs']))
                    _record(acc, case, r, (n, upo, json.dumps(call, sort_keys=True)), smp)
                    acc.state_hashes.add(hash((n, upo, 'after', canon(w))))
        return acc

    n, upo = shard['n'], upo_of(shard['pull'])
    w = fresh(n, upo)

    def on_transition(parent_key, depth, ev, r, child_key):
        acc.case((n, upo, parent_key, json.dumps(ev, sort_keys=True)), nontrivial=r.nontrivial,
                 outcome=r.outcome)
        if r.outcome.startswith('pull:server-error-masked-by-close'):
            acc.count('error_masked_by_close')

    res = explore.bfs(w, enabled, step, canon, max_depth=shard['depth'], snap=explore.PickleSnap(),
                      on_transition=on_transition, max_states=MAX_STATES_PER_BFS)
    for v in res.violations.values():
        case = dict(check=v['sig']['check'], n=n, pull=upo, calls=v['history'])
        acc.violation(v['sig'], case, v['expected'], v['observed'])
        acc.violations[json.dumps(v['sig'], sort_keys=True, ensure_ascii=True)]['count'] += v['count'] - 1
    acc.state_hashes |= {hash((n, upo, 'bfs', k)) for k in res.state_keys}
    acc.count('bfs_runs')
    acc.count('bfs_complete_state_graph' if res.fixpoint else 'bfs_stopped_by_depth_bound')
    if res.capped:
        acc.cap(res.capped)
    return acc


def replay(case, tier):
    acc = Acc()
    w = fresh(case['n'], case['pull'])
    for call in case['calls']:
        r = step(w, call)
        acc.case((case['n'], json.dumps(call, sort_keys=True)), nontrivial=r.nontrivial,
                 outcome=r.outcome)
        for p in r.problems:
            acc.violation(p.sig, case, p.expected, p.observed)
    return acc


def snippet(case):
    lines = ['import gc, pywbem, pywbem_mock',
             '# world: namespace %r with TST_A (%d instances), TST_B.Id=0 associated to each by '
             'TST_AB (see checks/c15_iter_ops.py MOF)' % (NS, case.get('n', 0)),
             'conn = pywbem_mock.FakedWBEMConnection(default_namespace=%r, use_pull_operations=%r)'
             % (DEFNS, case.get('pull'))]
    for c in case.get('calls', []):
        lines.append('conn.disable_pull_operations = %r' % (c['server'] == 'disabled'))
        lines.append('# %s, arguments %r, extra %r, MaxObjectCount=%r, consumption %r'
                     % (c['op'], c['args'], c['x'], c['moc'], c['use']))
    lines.append('# exact re-execution:')
    lines.append('import sys; sys.path.insert(0, "/verif"); import mc')
    lines.append('from checks import c15_iter_ops as c15')
    lines.append('def test_replay():')
    lines.append('    acc = c15.replay(%r, "quick")' % (case,))
    lines.append('    assert not acc.violations, [v["sig"] for v in acc.violations.values()]')
    return '\n'.join(lines) + '\n'
