"""C17 — the listener answers any HTTP request with one well-formed response and survives (D + H).

Seam: the real pywbem._listener.ListenerRequestHandler on an in-memory socket, with a stub server
whose .listener is a real WBEMListener (not started; its queue is created by the harness and
drained synchronously through the real _deliver_indication_to_callbacks after every request).
Enumerated: every request that differs from the valid ExportIndication POST in at most k
dimensions (request line, each header, body), and every history of two representative requests
followed by a valid indication.
"""
import io
import itertools
import json
import queue
import re
import traceback
import warnings

from lxml import etree

import pywbem
from pywbem import _cim_xml, _listener

from mc.core import Acc, HarnessError
from mc import dtd
from mc.listener_mc import FakeSocket

ID = 'C17'
RULE = ('requests = valid ExportIndication POST with at most k dimensions (method, target, version, '
        'each header, body) replaced by an alternative from a finite alphabet; body alternatives are '
        'all single structural/byte deviations of the valid body; histories = all pairs of '
        'representative requests followed by a valid indication; non-trivial = pywbem code (not '
        'only the stdlib request parser) produced the response')
ASSUMPTIONS = ['the request is delivered completely (in-memory socket): blocking on a too large '
               'Content-Length is a short read here',
               'responses produced by the stdlib BaseHTTPRequestHandler before pywbem code runs (bad '
               'request line, unsupported method) only need to be syntactically valid',
               'delivery after each request is done synchronously through the real '
               '_deliver_indication_to_callbacks (threading aspects are C16)']
BOUNDS = {'quick': {'deviation_budget': 2, 'history_length': 2, 'queue_history_length': 6},
          'thorough': {'deviation_budget': 3, 'history_length': 3, 'queue_history_length': 8}}
NSHARDS = 64

DATE = 'Thu, 01 Jan 1970 00:00:00 GMT'


def valid_body(ident='1', extra=''):
    inst = pywbem.CIMInstance('CIM_AlertIndication', {'n': str(ident), 'd': 'a<b&c é'})
    return _cim_xml.CIM(_cim_xml.MESSAGE(_cim_xml.SIMPLEEXPREQ(_cim_xml.EXPMETHODCALL(
        'ExportIndication', [_cim_xml.EXPPARAMVALUE('NewIndication', inst.tocimxml())])),
        '42', '1.0'), '2.0', '2.0').toxml().encode('utf-8')


BODY = valid_body()

# ---------------------------------------------------------------------------- alphabets
METHODS = ['M-POST', 'GET', 'HEAD', 'PUT', 'DELETE', 'OPTIONS', 'TRACE', 'CONNECT', 'PATCH', 'FOO', 'post', '']
TARGETS = ['/x', '*', '', '/' + 'a' * 70000]
VERSIONS = ['HTTP/1.0', 'HTTP/0.9', 'HTTP/2.0', 'HTTP/1.x', 'BOGUS', '']
HEADER_ALTS = {
    'Accept': ['application/xml', 'text/xml', '*/*', 'text/html', '', 'application/xml;q=0.5, text/html',
               'caf\xe9', ' text/xml '],
    'Accept-Charset': ['utf-8', 'UTF-8;q=1', 'iso-8859-1', '*', '', 'iso-8859-1, utf-8;q=0.1', 'x' * 3000,
                       'utf-8\r\n X-Folded: 1'],
    'Accept-Range': ['bytes', ''],
    'Accept-Encoding': ['gzip, deflate', 'identity', ''],
    'Accept-Language': ['en', ''],
    'Content-Type': [None, 'text/xml', 'application/xml', 'application/xml; charset="utf-8"',
                     'application/xml; charset=latin-1', 'text/html', '', 'TEXT/XML; CHARSET=UTF-8',
                     'application/xml; charset=utf-8; x=1', 'a\xe9'],
    'Content-Encoding': ['gzip', 'identity', 'IDENTITY', '', 'deflate'],
    'Content-Language': ['en'],
    'Content-Length': [None, '0', 'SHORT', 'LONG', '-1', 'abc', '1e3', ' 5', '1000000000', '1000000000000', '9223372036854775807',
                       '9223372036854775808', '1' + '0' * 30, '9' * 5000, '\xb2', '1\xb2', '\xb97', '1_0',
                       '', '+5', '0x10',
                       '5, 5', 'DUP'],
    'CIMExport': [None, 'MethodResponse', '', 'bogus'],
    'CIMExportMethod': [None, 'Other', ''],
    'CIMOperation': ['MethodCall'],
    'Connection': ['keep-alive', 'close'],
    'Expect': ['100-continue'],
    'Transfer-Encoding': ['chunked'],
    'X-Long': ['x' * 70000],
    'Man': ['http://www.dmtf.org/cim/mapping/http/v1.0 ; ns=40'],
}
BASE_HEADERS = [('Content-Type', 'application/xml; charset=utf-8'), ('Content-Length', 'EXACT'),
                ('CIMExport', 'MethodRequest'), ('CIMExportMethod', 'ExportIndication')]

BODY_NAMES = ['CIM', 'MESSAGE', 'SIMPLEEXPREQ', 'SIMPLEREQ', 'EXPMETHODCALL', 'METHODCALL', 'EXPPARAMVALUE',
              'PARAMVALUE', 'INSTANCE', 'CLASS', 'PROPERTY', 'VALUE', 'VALUE.ARRAY', 'INSTANCENAME', 'BOGUS',
              'SIMPLEEXPRSP', 'EXPMETHODRESPONSE', 'MULTIEXPREQ', 'ERROR']
BODY_ATTR_VALUES = ['', 'x', '1.0', '2.0', '2.1', '3.0', '1', '9.9', 'ExportIndication', 'NewIndication',
                    'string', 'bogus', 'é', 'a\nb', '€\U0001F600',
                    # markup characters: request-derived text (MESSAGE ID, method name) is echoed into
                    # attributes of the response
                    'a"b', "a'b", 'a<b&c>d', ']]>', '"\'<&>']
BODY_TEXT_VALUES = ['', 'x', '\x00', 'é', '<INSTANCE CLASSNAME="X"/>', '<', '€\U0001F600']
BODY_BYTES = [b'\x00', b'<', b'\xff', b'{']
def _other_documents():
    """complete, valid CIM-XML documents that are not export requests: every other top-level shape
    the tuple parser accepts (declarations, operation requests and responses, export responses,
    multi requests) - the listener must answer each of them with an error response"""
    X = _cim_xml
    inst = pywbem.CIMInstance('C', {'p': 'v'})
    qd = pywbem.CIMQualifierDeclaration('Q', 'string')
    cls = pywbem.CIMClass('C')
    lnp = X.LOCALNAMESPACEPATH([X.NAMESPACE('root')])
    imcall = X.IMETHODCALL('EnumerateClassNames', lnp, [])
    expcall = X.EXPMETHODCALL('ExportIndication', [X.EXPPARAMVALUE('NewIndication', inst.tocimxml())])
    docs = [
        X.CIM(X.DECLARATION([X.DECLGROUP([X.VALUE_OBJECT(inst.tocimxml())])]), '2.0', '2.0'),
        X.CIM(X.DECLARATION([X.DECLGROUP([qd.tocimxml(), X.VALUE_OBJECT(cls.tocimxml())])]), '2.0', '2.0'),
        X.CIM(X.MESSAGE(X.SIMPLEREQ(imcall), '1', '1.0'), '2.0', '2.0'),
        X.CIM(X.MESSAGE(X.SIMPLERSP(X.IMETHODRESPONSE('EnumerateClassNames', [])), '1', '1.0'), '2.0', '2.0'),
        X.CIM(X.MESSAGE(X.SIMPLEEXPRSP(X.EXPMETHODRESPONSE('ExportIndication')), '1', '1.0'), '2.0', '2.0'),
        X.CIM(X.MESSAGE(X.MULTIEXPREQ([X.SIMPLEEXPREQ(expcall), X.SIMPLEEXPREQ(expcall)]), '1', '1.0'), '2.0', '2.0'),
        X.CIM(X.MESSAGE(X.MULTIREQ([X.SIMPLEREQ(imcall), X.SIMPLEREQ(imcall)]), '1', '1.0'), '2.0', '2.0'),
    ]
    out = []
    for d in docs:
        try:
            out.append(d.toxml().encode('utf-8'))
        except Exception as exc:   # noqa
            raise HarnessError('cannot build document: %r' % (exc,))
    return out


OTHER_DOCUMENTS = _other_documents()


WHOLE_BODIES = [b'', b' ', b'not xml', b'<CIM/>', b'\xef\xbb\xbf' + BODY, BODY + b'trailing', BODY + BODY,
                BODY.decode().encode('utf-16'), b'<?xml version="1.0"?>\n' + BODY,
                b'<?xml version="1.0" encoding="latin-1"?>' + BODY,
                b'<?xml version="1.0" encoding="utf-7"?>' + BODY, b'<?xml version="1.0" encoding="big5"?>' + BODY,
                b'<?xml version="1.0" encoding="rot13"?>' + BODY, b'<?xml version="1.0" encoding="idna"?>' + BODY,
                b'<?xml version="1.0" encoding="bogus-enc"?>' + BODY, b'<?xml version="1.0" encoding="utf-32"?>' + BODY,
                b'<!DOCTYPE x [<!ENTITY a "aaaa">]><CIM>&a;</CIM>'] + OTHER_DOCUMENTS




def body_deviations():
    root = etree.fromstring(BODY)
    els = list(root.iter('*'))
    for i, el in enumerate(els):
        if i:
            yield ['del', i]
            yield ['dup', i]
        for n in BODY_NAMES:
            if n != el.tag:
                yield ['rename', i, n]
                yield ['insert', i, n]
        for a in sorted(el.attrib):
            yield ['attr-del', i, a]
            for v in BODY_ATTR_VALUES:
                if v != el.attrib[a]:
                    yield ['attr-set', i, a, v]
        yield ['attr-add', i]
        if len(el) == 0 or (el.text or '').strip():
            for v in BODY_TEXT_VALUES:
                yield ['text', i, v]
    for n in range(len(BODY)):
        yield ['trunc', n]
    for off in range(len(BODY)):
        for k in range(len(BODY_BYTES)):
            yield ['byte', off, k]
    for k in range(len(WHOLE_BODIES)):
        yield ['whole', k]
    yield ['params', 'none']
    yield ['params', 'two']
    yield ['params', 'renamed']
    yield ['params', 'value-not-instance']
    yield ['params', 'class']


def apply_body(dev):
    import copy
    kind = dev[0]
    if kind == 'trunc':
        return BODY[:dev[1]]
    if kind == 'byte':
        return BODY[:dev[1]] + BODY_BYTES[dev[2]] + BODY[dev[1] + 1:]
    if kind == 'whole':
        return WHOLE_BODIES[dev[1]]
    if kind == 'params':
        inst = pywbem.CIMInstance('CIM_AlertIndication', {'n': '1'})
        X = _cim_xml
        plist = {'none': [],
                 'two': [X.EXPPARAMVALUE('NewIndication', inst.tocimxml()), X.EXPPARAMVALUE('Other', inst.tocimxml())],
                 'renamed': [X.EXPPARAMVALUE('Indication', inst.tocimxml())],
                 'value-not-instance': [X.EXPPARAMVALUE('NewIndication', X.VALUE('x'))],
                 'class': [X.EXPPARAMVALUE('NewIndication')]}[dev[1]]
        return X.CIM(X.MESSAGE(X.SIMPLEEXPREQ(X.EXPMETHODCALL('ExportIndication', plist)), '42', '1.0'),
                     '2.0', '2.0').toxml().encode('utf-8')
    root = etree.fromstring(BODY)
    els = list(root.iter('*'))
    el = els[dev[1]]
    parent = el.getparent()
    if kind == 'del':
        parent.remove(el)
    elif kind == 'dup':
        parent.insert(parent.index(el), copy.deepcopy(el))
    elif kind == 'rename':
        el.tag = dev[2]
    elif kind == 'insert':
        el.insert(0, etree.Element(dev[2]))
    elif kind == 'attr-del':
        del el.attrib[dev[2]]
    elif kind == 'attr-set':
        el.attrib[dev[2]] = dev[3]
    elif kind == 'attr-add':
        el.attrib['BOGUS'] = 'x'
    elif kind == 'text':
        v = dev[2]
        for ch in list(el):
            el.remove(ch)
        if v == '\x00' or v.startswith('<'):
            el.text = 'MARKER'
            return etree.tostring(root, encoding='utf-8').replace(b'MARKER', v.encode())
        el.text = v
    return etree.tostring(root, encoding='utf-8')


# ---------------------------------------------------------------------------- request building

def build_request(spec):
    """spec = {'method':..,'target':..,'version':..,'headers':{name: alt}, 'body': dev|None}"""
    body = apply_body(spec['body']) if spec.get('body') is not None else BODY
    method = spec.get('method', 'POST')
    target = spec.get('target', '/')
    version = spec.get('version', 'HTTP/1.1')
    line = ' '.join(x for x in (method, target, version) if x != '' or True).encode('latin-1')
    hdrs = []
    alts = dict(spec.get('headers') or {})
    for name, val in BASE_HEADERS:
        if name in alts:
            val = alts.pop(name)
        if val is None:
            continue
        hdrs.extend(_header_lines(name, val, body))
    for name in sorted(alts):
        if alts[name] is not None:
            hdrs.extend(_header_lines(name, alts[name], body))
    return line + b'\r\n' + b''.join(h + b'\r\n' for h in hdrs) + b'\r\n' + body


def _header_lines(name, val, body):
    if name == 'Content-Length':
        if val == 'EXACT':
            val = str(len(body))
        elif val == 'SHORT':
            val = str(max(0, len(body) - 7))
        elif val == 'LONG':
            val = str(len(body) + 50)
        elif val == 'DUP':
            return [b'Content-Length: %d' % len(body), b'Content-Length: 3']
    return [name.encode('latin-1') + b': ' + val.encode('latin-1')]


# ---------------------------------------------------------------------------- harness

class StubServer:
    def __init__(self, listener):
        self.listener = listener


class World:
    def __init__(self, maxq=0):
        self.log = []
        self.lst = _listener.WBEMListener('localhost', http_port=50001, max_ind_queue_size=maxq)
        self.lst._ind_queue = queue.Queue(maxsize=maxq)

        def cb(indication, host):
            self.log.append(indication['n'] if 'n' in indication else None)
        self.lst.add_callback(cb)
        self.server = StubServer(self.lst)

    def request(self, raw, drain=True):
        sock = FakeSocket(raw)
        exc = None
        try:
            _listener.ListenerRequestHandler(sock, ('10.1.1.1', 4711), self.server)
        except Exception as e:   # noqa: an exception leaving the handler = dropped connection
            exc = e
        if drain:
            self.drain()
        return sock.out.getvalue(), exc

    def drain(self):
        q = self.lst._ind_queue
        while not q.empty():
            item = q.get_nowait()
            self.lst._deliver_indication_to_callbacks(*item)
            q.task_done()


_TOKEN = r"[!#$%&'*+.^_`|~0-9A-Za-z-]+"
ALLOWED_HEADERS = {'server', 'date', 'cimexport', 'cimerror', 'cimerrordetails', 'allow', 'content-type',
                   'content-length', 'connection'}


def parse_response(out):
    """independent check that `out` is exactly one HTTP response -> (problem|None, status, headers, body)"""
    if not out:
        return 'no-response', None, {}, b''
    head, sep, rest = out.partition(b'\r\n\r\n')
    if not sep:
        return 'no-header-end', None, {}, b''
    lines = head.split(b'\r\n')
    m = re.match(rb'^HTTP/1\.[01] (\d{3}) ([^\r\n]*)$', lines[0])
    if not m:
        return 'bad-status-line', None, {}, b''
    status = int(m.group(1))
    headers = {}
    for ln in lines[1:]:
        if b'\r' in ln or b'\n' in ln:
            return 'bare-CR-or-LF-in-header', status, headers, b''
        hm = re.match(rb'^(' + _TOKEN.encode() + rb'):[ \t]*(.*)$', ln)
        if not hm:
            return 'malformed-header-line', status, headers, b''
        name = hm.group(1).decode('latin-1').lower()
        if name not in ALLOWED_HEADERS:
            return 'unexpected-header:' + name[:20], status, headers, b''
        if name in headers and name in ('content-length', 'cimerror'):
            return 'duplicate-header:' + name, status, headers, b''
        headers[name] = hm.group(2).decode('latin-1')
    if 'content-length' in headers:
        if not headers['content-length'].isdigit():
            return 'bad-content-length', status, headers, b''
        n = int(headers['content-length'])
        if len(rest) != n:
            return 'body-length-mismatch', status, headers, rest
    elif rest:
        # no Content-Length: nothing may follow an error response (it would be a second response)
        return 'data-after-response', status, headers, rest
    return None, status, headers, rest


def judge_response(out, exc, spec):
    """-> list of (what, expected, observed)"""
    bad = []
    if exc is None and out.startswith(b'<!DOCTYPE HTML>'):
        # stdlib error response in HTTP/0.9 style (request line rejected before a version was known)
        return []
    if spec.get('method') == 'HEAD' and exc is None and b'CIMExport' not in out.split(b'\r\n\r\n')[0]:
        # stdlib error response to HEAD: headers (with Content-Length) but no body, by design
        head = out.split(b'\r\n\r\n')[0] + b'\r\n\r\n'
        problem, status, headers, body = parse_response(
            re.sub(rb'Content-Length: \d+\r\n', b'', head))
        return [('invalid-response:' + problem, 'valid response', out[:200])] if problem else []
    if exc is not None:
        where = 'outside'
        for fr in reversed(traceback.extract_tb(exc.__traceback__)):
            if fr.filename.endswith('_listener.py'):
                where = fr.name
                break
        bad.append(('handler-raised:%s@%s' % (type(exc).__name__, where), 'one response', repr(exc)[:160]))
        return bad
    problem, status, headers, body = parse_response(out)
    if problem:
        bad.append(('invalid-response:' + problem, 'exactly one valid HTTP response', out[:200]))
        return bad
    by_pywbem = 'cimexport' in headers
    if status == 200:
        chk = dtd.check(body)
        if chk:
            bad.append(('200-body-not-valid-cimxml:' + chk[0], 'DTD-valid export response', chk[1]))
        elif b'EXPMETHODRESPONSE' not in body:
            bad.append(('200-body-not-export-response', 'EXPMETHODRESPONSE', body[:120]))
        if headers.get('cimexport') != 'MethodResponse':
            bad.append(('200-without-CIMExport', 'CIMExport: MethodResponse', headers.get('cimexport')))
    elif 400 <= status <= 599:
        if by_pywbem and status in (400, 406) and 'cimerror' not in headers:
            bad.append(('error-without-CIMError', 'CIMError header', sorted(headers)))
    else:
        bad.append(('unexpected-status', '200 or 4xx/5xx', status))
    return bad


def classify(out, exc):
    if exc is not None:
        return 'raised', False
    if out.startswith(b'<!DOCTYPE HTML>'):
        return 'stdlib:0.9-style-error', False
    problem, status, headers, body = parse_response(out)
    if problem:
        return 'invalid', True
    kind = 'pywbem' if 'cimexport' in headers else 'stdlib'
    extra = ''
    if status == 200:
        extra = ':error' if b'<ERROR' in body else ':success'
    elif 'cimerror' in headers:
        extra = ':' + headers['cimerror'][:30]
    return '%s:%s%s' % (kind, status, extra), kind == 'pywbem'


VALID = build_request({})


def check_survives(world, acc, case, what_prefix=''):
    """a valid indication after the history must be acknowledged and delivered exactly once"""
    before = len(world.log)
    out, exc = world.request(VALID)
    problems = judge_response(out, exc, {})
    ok = not problems and b'<ERROR' not in out and b' 200 ' in out.split(b'\r\n', 1)[0]
    delivered = world.log[before:]
    if not ok:
        acc.violation(dict(check='survives', what=what_prefix + 'valid-indication-not-acknowledged'),
                      case, 'success response', (out[:160], repr(exc)))
    elif delivered != ['1']:
        acc.violation(dict(check='survives', what=what_prefix + 'valid-indication-not-delivered-once'),
                      case, ['1'], delivered)


def is_http09(spec):
    """HTTP/0.9 'simple requests' (request line with fewer than three words, or version HTTP/0.9):
    the stdlib handler suppresses status line and headers for them by design"""
    line = ' '.join((spec.get('method', 'POST'), spec.get('target', '/'), spec.get('version', 'HTTP/1.1')))
    return len(line.split()) < 3 or spec.get('version') == 'HTTP/0.9'


def check_request(spec, acc):
    world = World()
    raw = build_request(spec)
    out, exc = world.request(raw)
    if is_http09(spec) and exc is None:
        acc.case(json.dumps(spec, sort_keys=True), nontrivial=False, outcome='http-0.9-simple-request')
        check_survives(world, acc, dict(check='request', spec=spec))
        return
    outcome, nontrivial = classify(out, exc)
    acc.case(json.dumps(spec, sort_keys=True), nontrivial=nontrivial, outcome=outcome, calls=2,
             sample=dict(spec=spec, response=out[:200]) if outcome.startswith('pywbem:406') else None)
    case = dict(check='request', spec=spec)
    for what, exp, obs in judge_response(out, exc, spec):
        acc.violation(dict(check='request', what=what), case, exp, obs)
    # a request acknowledged with success must have been delivered exactly once
    if exc is None and outcome == 'pywbem:200:success' and len(world.log) != 1:
        acc.violation(dict(check='request', what='acknowledged-but-delivered-%d-times' % len(world.log)),
                      case, 1, len(world.log))
    if exc is None and outcome != 'pywbem:200:success' and world.log:
        acc.violation(dict(check='request', what='rejected-but-delivered'), case, [], world.log)
    check_survives(world, acc, case)


# ---------------------------------------------------------------------------- enumeration

def dimensions():
    """[(dimension name, [alternatives])] for the non-body dimensions"""
    dims = [('method', METHODS), ('target', TARGETS), ('version', VERSIONS)]
    for h in sorted(HEADER_ALTS):
        dims.append(('h:' + h, HEADER_ALTS[h]))
    return dims


def with_dev(spec, dim, alt):
    s = dict(spec)
    if dim.startswith('h:'):
        hs = dict(s.get('headers') or {})
        hs[dim[2:]] = alt
        s['headers'] = hs
    else:
        s[dim] = alt
    return s


REDUCED = [('method', 'GET'), ('version', 'HTTP/1.0'), ('h:Accept', 'text/html'), ('h:Accept', '*/*'),
           ('h:Accept-Charset', 'iso-8859-1'), ('h:Content-Type', None), ('h:Content-Type', 'text/xml'),
           ('h:Content-Encoding', 'gzip'), ('h:Content-Length', 'SHORT'), ('h:Content-Length', 'LONG'),
           ('h:Content-Length', None), ('h:CIMExport', None), ('h:Connection', 'keep-alive'),
           ('h:Accept-Range', 'bytes')]


def specs(tier):
    budget = BOUNDS[tier]['deviation_budget']
    dims = dimensions()
    yield {}
    bodies = list(body_deviations())
    for d in bodies:
        yield {'body': d}
    for k in range(1, budget + 1):
        for combo in itertools.combinations(range(len(dims)), k):
            for alts in itertools.product(*[dims[i][1] for i in combo]):
                s = {}
                for i, a in zip(combo, alts):
                    s = with_dev(s, dims[i][0], a)
                yield s
    # body deviation x one reduced non-body deviation
    for d in bodies:
        for dim, alt in REDUCED:
            yield with_dev({'body': d}, dim, alt)


REPRESENTATIVE = [{}, {'method': 'GET'}, {'method': 'FOO'}, {'version': 'BOGUS'}, {'target': ''},
                  {'headers': {'Accept': 'text/html'}}, {'headers': {'Accept-Charset': 'iso-8859-1'}},
                  {'headers': {'Content-Type': None}}, {'headers': {'Content-Encoding': 'gzip'}},
                  {'headers': {'Content-Length': 'abc'}}, {'headers': {'Content-Length': '-1'}},
                  {'headers': {'Content-Length': 'SHORT'}}, {'headers': {'Content-Length': None}},
                  {'headers': {'X-Long': 'x' * 70000}}, {'body': ['whole', 2]}, {'body': ['whole', 0]},
                  {'body': ['byte', 10, 2]}, {'body': ['attr-set', 0, 'CIMVERSION', '3.0']},
                  {'body': ['attr-set', 0, 'DTDVERSION', '9.9']}, {'body': ['attr-set', 1, 'PROTOCOLVERSION', '9.9']},
                  {'body': ['attr-set', 3, 'NAME', 'bogus']}, {'body': ['params', 'none']},
                  {'body': ['params', 'two']}, {'body': ['params', 'value-not-instance']},
                  {'body': ['trunc', 100]}]


def histories(tier):
    n = BOUNDS[tier]['history_length']
    idx = range(len(REPRESENTATIVE))
    for k in range(1, n + 1):
        for h in itertools.product(idx, repeat=k):
            for maxq, drain in ((0, True), (1, True), (1, False)):
                yield list(h), maxq, drain


def queue_histories(tier):
    """sequences over {valid request, invalid request, drain the queue} with a bounded queue and no
    automatic draining: the queue stays full over consecutive refusals"""
    n = BOUNDS[tier]['queue_history_length']
    for k in range(1, n + 1):
        for h in itertools.product('vxd', repeat=k):
            for maxq in (1, 2):
                yield ''.join(h), maxq


def check_queue_history(hist, maxq, acc):
    world = World(maxq)
    case = dict(check='queue-history', history=hist, maxq=maxq)
    acked = refused = 0
    for ev in hist:
        if ev == 'd':
            world.drain()
            continue
        spec = {} if ev == 'v' else {'method': 'GET'}
        out, exc = world.request(build_request(spec), drain=False)
        o, _ = classify(out, exc)
        if o == 'pywbem:200:success':
            acked += 1
        elif ev == 'v':
            refused += 1
        for what, exp, obs in judge_response(out, exc, spec):
            acc.violation(dict(check='queue-history', what=what), case, exp, obs)
    world.drain()
    if len(world.log) != acked:
        acc.violation(dict(check='queue-history',
                           what='acknowledged-%s-delivered' % ('more-than' if acked > len(world.log) else 'fewer-than')),
                      case, acked, len(world.log))
    acc.case(('qhist', hist, maxq), outcome='queue-history:acked=%d refused=%d' % (acked, min(refused, 3)),
             calls=len(hist) + 1)


def check_history(hist, maxq, drain, acc):
    world = World(maxq)
    case = dict(check='history', history=[REPRESENTATIVE[i] for i in hist], maxq=maxq, drain=drain)
    acked = 0
    for i in hist:
        out, exc = world.request(build_request(REPRESENTATIVE[i]), drain=drain)
        if is_http09(REPRESENTATIVE[i]) and exc is None:
            continue
        o, _ = classify(out, exc)
        if o == 'pywbem:200:success':
            acked += 1
        for what, exp, obs in judge_response(out, exc, REPRESENTATIVE[i]):
            acc.violation(dict(check='history', what=what), case, exp, obs)
    world.drain()
    if len(world.log) != acked:
        acc.violation(dict(check='history', what='acknowledged-%s-delivered' % ('more-than' if acked > len(world.log) else 'fewer-than')),
                      case, acked, len(world.log))
    acc.case(('hist', tuple(hist), maxq, drain), outcome='history:acked=%d' % acked, calls=len(hist) + 1)
    check_survives(world, acc, case, 'after-history:')


# ---------------------------------------------------------------------------- runner interface

def plan(tier, seed):
    return [dict(check='request', part=i, of=NSHARDS) for i in range(NSHARDS)] + \
           [dict(check='history', part=i, of=16) for i in range(16)] + \
           [dict(check='queue-history', part=i, of=8) for i in range(8)] + \
           [dict(check='server-binding')]


def run_shard(shard, tier):
    warnings.simplefilter('ignore')
    import logging
    logging.disable(logging.CRITICAL)
    acc = Acc()
    if shard['check'] == 'request':
        for i, s in enumerate(specs(tier)):
            if i % shard['of'] == shard['part']:
                check_request(s, acc)
    elif shard['check'] == 'server-binding':
        # "no request prevents later valid indications from being accepted": the harness feeds one
        # request at a time to the handler, so that a slow / stalled request does not block the others
        # is a property of the real threaded server, observed here on a loopback socket
        from checks.c16_listener_sched import binding_shard
        binding_shard(('busy-handler-blocks-other-connections', 'request-not-handled-while-loop-runs'), acc, ID)
    elif shard['check'] == 'queue-history':
        for i, (h, maxq) in enumerate(queue_histories(tier)):
            if i % shard['of'] == shard['part']:
                check_queue_history(h, maxq, acc)
    else:
        for i, (h, maxq, drain) in enumerate(histories(tier)):
            if i % shard['of'] == shard['part']:
                check_history(h, maxq, drain, acc)
    return acc


def replay(case, tier):
    warnings.simplefilter('ignore')
    import logging
    logging.disable(logging.CRITICAL)
    acc = Acc()
    if case['check'] == 'request':
        check_request(case['spec'], acc)
    elif case['check'] == 'server-binding':
        from checks.c16_listener_sched import binding_shard
        binding_shard(('busy-handler-blocks-other-connections', 'request-not-handled-while-loop-runs'), acc, ID)
    elif case['check'] == 'queue-history':
        check_queue_history(case['history'], case['maxq'], acc)
    else:
        hist = [REPRESENTATIVE.index(s) for s in case['history']]
        check_history(hist, case['maxq'], case['drain'], acc)
    return acc


def snippet(case):
    if case.get('check') == 'server-binding':
        return ('import sys; sys.path.insert(0, "/verif")\nimport mc\nfrom mc.listener_mc import server_binding_problems\n'
                'def test_replay():\n    assert server_binding_problems()[0] == []\n')
    return ('import sys; sys.path.insert(0, "/verif")\nimport mc\nfrom checks import c17_listener_http as c\n'
            'def test_replay():\n    acc = c.replay(%r, "quick")\n    assert not acc.violations\n' % (case,))
