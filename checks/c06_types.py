"""C06 — CIM data types hold only representable values and print/parse losslessly (mode E).

Sub-checks (signature field 'check'):
  ints      every CIM integer class x value lattice x every constructor call form: construction
            succeeds iff min <= value <= max, int(result) == value, type(result) is the class;
            otherwise ValueError/TypeError
  setters   cimvalue(v, t) and the constructors / value setters of CIMProperty, CIMQualifier,
            CIMParameter, CIMQualifierDeclaration for every (value atom, CIM type) pair: the stored
            value is None, or an instance of the Python representation of that CIM type (or a list
            of such), or the call raised TypeError/ValueError
  datetime  str / datetime / timedelta / CIMDateTime inputs to CIMDateTime: for every accepted x
            whose value DSP0004 can express, str(x) is a 25 character DSP0004 datetime string
            (independent reader in mc/refmodels/dsp0004_datetime.py) and both CIMDateTime(str(x))
            and CIMDateTime(x) equal x with the same kind, UTC offset, precision and str()
  reals     the float32 / float64 lattices written to CIM-XML and parsed back (three seams) give
            the same floating point value; INF, -INF, NaN are spelled as DSP0201 requires
"""
import itertools
import re
import struct
import warnings
from datetime import datetime, timedelta, timezone, tzinfo

import pywbem
from pywbem import (CIMProperty, CIMQualifier, CIMParameter, CIMQualifierDeclaration,
                    CIMInstanceName, CIMClassName, CIMInstance, CIMClass, CIMDateTime,
                    MinutesFromUTC, Char16, Real64)
from pywbem import _cim_types
from pywbem._cim_obj import cimvalue
from pywbem._cim_types import atomic_to_cim_xml
from pywbem._tupleparse import TupleParser
from pywbem._tupletree import xml_to_tupletree_sax

from mc.core import Acc
from mc import domains as D
from mc.refmodels import dsp0004_datetime as REF

ID = 'C06'
RULE = ('ints: 8 classes x 11 lattice values x every constructor call form (positional / x= '
        'keyword, int / str / bytes / float, bases 2, 8, 10, 16 with and without prefix) plus a '
        'table of odd arguments; setters: every value atom x 16 types (15 CIM types and None) x 9 '
        'seams; datetime: field-boundary lattice x asterisk patterns x UTC offsets as strings, '
        'all single-character deviations of a reduced set, Python datetime / timedelta objects; '
        'reals: sign x every exponent field x 12 mantissa patterns for float32 and float64 through '
        'three seams. A case is non-trivial if pywbem accepted the input and the oracle compared '
        'something (rejected inputs and CIMDateTime values DSP0004 cannot express are trivial)')
ASSUMPTIONS = [
    'pywbem.config.ENFORCE_INTEGER_RANGE is at its default (True); asserted at the start of every shard',
    'for float arguments to the integer classes the value is the float truncated towards zero (int() semantics, which CIMInt documents to follow)',
    'real32 values are compared as IEEE-754 single precision values (the parsed Python float is rounded to float32 before the bit comparison); real64 and plain float are compared as doubles',
    'NaN payload and NaN sign cannot be written in CIM-XML; any NaN is accepted for a NaN',
    'a value stored for CIM type string may also be a CIMInstance / CIMClass (embedded object), for reference a CIMInstanceName or CIMClassName, for char16 any str',
    'CIMDateTime values outside the DSP0004 domain (negative or > 99999999 day intervals, UTC offsets that are not whole minutes or beyond +-999) are excluded, as the statement says',
    'Python int(), float(), struct and datetime are trusted',
]
BOUNDS = {
    'quick': {'int_values_per_type': 11, 'int_bases': [2, 8, 10, 16],
              'setter_atoms': 'all', 'setter_types': 16,
              'datetime_offsets_full_lattice': 41, 'datetime_offsets_reduced_lattice': 2000,
              'datetime_object_offsets_full_lattice': 45, 'datetime_object_offsets_reduced_lattice': 2879,
              'real_exponents': 'all (256 / 2048)', 'real_mantissa_patterns': 12},
    'thorough': {'int_values_per_type': 11, 'int_bases': [2, 8, 10, 16],
                 'setter_atoms': 'all', 'setter_types': 16,
                 'datetime_offsets_full_lattice': 2000, 'datetime_offsets_reduced_lattice': 2000,
                 'datetime_object_offsets_full_lattice': '2879 (MinutesFromUTC), 45 (datetime.timezone)',
                 'datetime_object_offsets_reduced_lattice': 2879,
                 'real_exponents': 'all (256 / 2048)', 'real_mantissa_patterns': 12},
}

OK_EXC = (ValueError, TypeError)


def _assert_config():
    if pywbem.config.ENFORCE_INTEGER_RANGE is not True or \
            _cim_types.ENFORCE_INTEGER_RANGE is not True:
        raise RuntimeError('ENFORCE_INTEGER_RANGE is not at its default')


# ==========================================================================================
# sub-check: ints

INT_BASES = (2, 8, 10, 16)
PREFIX = {2: '0b', 8: '0o', 16: '0x'}
_DIGS = '0123456789abcdef'


def int_values(t):
    lo, hi = D.INT_RANGE[t]
    return sorted({lo - 1, lo, lo + 1, -1, 0, 1, hi - 1, hi, hi + 1, 2 ** 64, -2 ** 63 - 1})


def to_base(v, b, prefix=''):
    n, out = abs(v), ''
    while True:
        n, r = divmod(n, b)
        out = _DIGS[r] + out
        if n == 0:
            break
    return ('-' if v < 0 else '') + prefix + out


def decimal_reading(text):
    """value of text read as a plain decimal literal, or None"""
    body = text[1:] if text[:1] == '-' else text
    if not body or any(c not in '0123456789' for c in body):
        return None
    n = 0
    for c in body:
        n = n * 10 + (ord(c) - 48)
    return -n if text[:1] == '-' else n


def int_cases(t):
    """-> (form, path, args, kwargs, expect); expect = the mathematical value | 'reject' | 'any'"""
    S = lambda s: ['s', s]          # noqa: E731
    I = lambda i: ['i', i]          # noqa: E731
    for v in int_values(t):
        yield 'T(int)', 'positional', [I(v)], {}, v
        yield 'T(x=int)', 'x-keyword', [], {'x': I(v)}, v
        yield 'T(str)', 'positional', [S(str(v))], {}, v
        yield 'T(x=str)', 'x-keyword', [], {'x': S(str(v))}, v
        yield 'T(bytes)', 'positional', [['y', str(v)]], {}, v
        yield 'T(CIMInt)', 'positional', [['ci', v]], {}, v
        for b in INT_BASES:
            d = to_base(v, b)
            yield 'T(str,b)', 'positional', [S(d), I(b)], {}, v
            yield 'T(str,base=b)', 'positional', [S(d)], {'base': I(b)}, v
            yield 'T(x=str,base=b)', 'x-keyword', [], {'x': S(d), 'base': I(b)}, v
            if b == 16:
                yield 'T(STR,base=b)', 'positional', [S(d.upper())], {'base': I(b)}, v
            if b != 10:
                pd = to_base(v, b, PREFIX[b])
                yield 'T(prefixed,b)', 'positional', [S(pd), I(b)], {}, v
                yield 'T(prefixed,0)', 'positional', [S(pd), I(0)], {}, v
                yield 'T(x=prefixed,base=0)', 'x-keyword', [], {'x': S(pd), 'base': I(0)}, v
                yield 'T(prefixed)', 'positional', [S(pd)], {}, 'reject'
                dec = decimal_reading(d)
                yield 'T(base-b digits)', 'positional', [S(d)], {}, 'reject' if dec is None else dec
        f = float(v) if abs(v) < 2 ** 1000 else None
        if f is not None and int(f) == v:
            yield 'T(float)', 'positional', [['f', f.hex()]], {}, v
            yield 'T(x=float)', 'x-keyword', [], {'x': ['f', f.hex()]}, v
        if abs(v) < 2 ** 50:
            # v + 0.5 is exact; truncation towards zero
            yield 'T(float+.5)', 'positional', [['f', (v + 0.5).hex()]], {}, v if v >= 0 else v + 1
    # odd arguments (per type)
    yield 'T()', 'positional', [], {}, 0
    yield 'T(bool)', 'positional', [['b', True]], {}, 1
    yield 'T(bool)', 'positional', [['b', False]], {}, 0
    yield 'T(x=bool)', 'x-keyword', [], {'x': ['b', True]}, 1
    for sp in ('inf', '-inf', 'nan'):
        yield 'T(float-special)', 'positional', [['f', sp]], {}, 'reject'
        yield 'T(x=float-special)', 'x-keyword', [], {'x': ['f', sp]}, 'reject'
    for text, exp in (('', 'reject'), ('abc', 'reject'), ('5.0', 'reject'), ('5.5', 'reject'),
                      (' 12 ', 12), ('+5', 5), ('-0', 0), ('1_0', 10), ('0x10', 'reject'),
                      ('٣', 3), ('1e2', 'reject'), ('--1', 'reject'), ('5\x00', 'reject')):
        yield 'T(odd-str)', 'positional', [S(text)], {}, exp
        yield 'T(x=odd-str)', 'x-keyword', [], {'x': S(text)}, exp
    yield 'T(None)', 'positional', [['n']], {}, 'reject'
    yield 'T(x=None)', 'x-keyword', [], {'x': ['n']}, 'reject'
    yield 'T(list)', 'positional', [['l', [1]]], {}, 'reject'
    yield 'T(int,b)', 'positional', [I(5), I(10)], {}, 'reject'
    yield 'T(int,base=b)', 'positional', [I(5)], {'base': I(10)}, 'reject'
    yield 'T(x=int,base=b)', 'x-keyword', [], {'x': I(5), 'base': I(10)}, 'reject'
    yield 'T(str,b,extra)', 'positional', [S('5'), I(10), I(3)], {}, 'reject'
    yield 'T(str,bad-base)', 'positional', [S('5'), I(1)], {}, 'reject'
    yield 'T(str,bad-base)', 'positional', [S('5'), I(37)], {}, 'reject'
    yield 'T(str,bad-base)', 'positional', [S('5')], {'base': S('10')}, 'reject'
    yield 'T(str,36)', 'positional', [S('z'), I(36)], {}, 35
    yield 'T(base=b)', 'positional', [], {'base': I(10)}, 'reject'
    yield 'T(str,unknown-kw)', 'positional', [S('5')], {'foo': I(1)}, 'reject'
    yield 'T(bytes,b)', 'positional', [['y', 'ff'], I(16)], {}, 255
    yield 'T(CIMFloat)', 'positional', [['cf', (5.5).hex()]], {}, 5
    # positional argument and x= together: int() itself has no such form; only the invariants
    # of the statement are demanded
    yield 'T(int,x=int)', 'mixed', [I(5)], {'x': I(3)}, 'any'
    yield 'T(str,x=int)', 'mixed', [S('1')], {'x': I(10)}, 'any'
    yield 'T(str,x=str)', 'mixed', [S('5')], {'x': S('7')}, 'any'
    yield 'T(str,x=big)', 'mixed', [S('zzzzzzzzzzzzzzzz')], {'x': I(36)}, 'any'


def int_arg(a):
    k = a[0]
    if k == 'i':
        return int(a[1])
    if k == 's':
        return a[1]
    if k == 'y':
        return a[1].encode('utf-8')
    if k == 'f':
        return D._float(a[1])
    if k == 'b':
        return bool(a[1])
    if k == 'n':
        return None
    if k == 'l':
        return list(a[1])
    if k == 'ci':
        v = int(a[1])
        for name in ('uint8', 'sint8', 'uint16', 'sint16', 'uint32', 'sint32', 'uint64', 'sint64'):
            lo, hi = D.INT_RANGE[name]
            if lo <= v <= hi:
                return D.INT_TYPES[name](v)
        return v        # no CIM integer type can hold it: plain int
    if k == 'cf':
        return Real64(D._float(a[1]))
    raise ValueError('bad int argument spec %r' % (a,))


def edge_of(t, v):
    lo, hi = D.INT_RANGE[t]
    if not isinstance(v, int):
        return 'n/a'
    return {lo - 1: 'min-1', lo: 'min', hi: 'max', hi + 1: 'max+1'}.get(
        v, 'inside' if lo < v < hi else 'outside')


def int_verdict(t, args, kwargs, expect):
    """-> (outcome, what|None, expected, observed)"""
    cls = D.INT_TYPES[t]
    lo, hi = D.INT_RANGE[t]
    try:
        pargs = [int_arg(a) for a in args]
        pkw = {k: int_arg(a) for k, a in kwargs.items()}
    except OK_EXC:
        # pywbem itself refuses to build an argument object (generator precondition)
        return 'argument-not-constructible', None, None, None
    try:
        r = cls(*pargs, **pkw)
    except OK_EXC as exc:
        if isinstance(expect, int) and lo <= expect <= hi:
            return ('rejected', 'rejected-in-range', '%s holding %d' % (t, expect),
                    '%s: %s' % (type(exc).__name__, exc))
        return 'rejected:' + type(exc).__name__, None, None, None
    except OverflowError as exc:
        # int() itself answers float infinities with OverflowError and CIMInt documents to take
        # "the usual input arguments supported by int"; the statement constrains the exception
        # type only for typed setters (sub-check 'setters'), so this is not demanded here
        if expect == 'reject' and _int_raises_overflow(pargs, pkw):
            return 'rejected:OverflowError(as int() does)', None, None, None
        return ('raised', 'raised:OverflowError', 'ValueError or TypeError', repr(exc))
    except Exception as exc:
        return ('raised', 'raised:' + type(exc).__name__, 'ValueError or TypeError', repr(exc))
    # an object exists: the invariants of the statement
    if type(r) is not cls:
        return 'constructed', 'wrong-type', cls.__name__, type(r).__name__
    val = int.__index__(r)
    if not lo <= val <= hi:
        return ('constructed', 'holds-out-of-range-value', 'ValueError (range %d..%d)' % (lo, hi),
                '%s holding %d' % (t, val))
    if expect == 'reject':
        return 'constructed', 'accepted-invalid-argument', 'ValueError or TypeError', repr(r)
    if isinstance(expect, int) and val != expect:
        return 'constructed', 'wrong-value', expect, val
    return 'constructed', None, None, val


def _int_raises_overflow(pargs, pkw):
    pkw = dict(pkw)
    pargs = list(pargs)
    if 'x' in pkw:
        pargs.append(pkw.pop('x'))
    try:
        int(*pargs, **pkw)
    except OverflowError:
        return True
    except Exception:       # noqa: reference call only
        return False
    return False


def check_int(t, form, path, args, kwargs, expect, acc):
    out, what, exp, obs = int_verdict(t, args, kwargs, expect)
    acc.case(('int', t, D.key(args), D.key(kwargs)), nontrivial=(out == 'constructed'),
             outcome='ints:' + out,
             sample=dict(type=t, form=form, args=args, kwargs=kwargs, value=obs)
             if out == 'constructed' and form == 'T(x=str,base=b)' and t == 'sint16' else None)
    if what:
        acc.violation(dict(check='ints', what=what, edge=edge_of(t, expect), path=path),
                      dict(check='ints', type=t, form=form, path=path, args=args, kwargs=kwargs,
                           expect=expect),
                      exp, obs)


# ==========================================================================================
# sub-check: setters

SETTER_TYPES = D.ALL_TYPES + [None]

_TS = '20140924193040.654321+120'
_IV = '00000183132542.234567:000'

ATOMS = [
    ['n'],
    ['s', 'a'], ['s', ''], ['s', '5'], ['s', '-1'], ['s', '256'], ['s', '5.5'], ['s', 'TRUE'],
    ['s', _TS], ['s', _IV], ['s', '/:Foo.k=1'], ['s', 'ab'],
    ['y', 'abc'], ['y', '5'], ['y', '\xff'],
    ['c16', 'a'],
    ['b', True], ['b', False],
    ['i', None, 5], ['i', None, -1], ['i', None, 256], ['i', None, 2 ** 64], ['pow10', 400],
    ['i', 'uint8', 5], ['i', 'sint64', -2 ** 63], ['i', 'uint64', 2 ** 64 - 1], ['i', 'sint8', -1],
    ['r', None, (1.5).hex()], ['r', None, (5.0).hex()], ['r', None, 'inf'], ['r', None, '-inf'],
    ['r', None, 'nan'], ['r', None, (1e300).hex()],
    ['r', 'real32', (1.5).hex()], ['r', 'real64', (5.0).hex()], ['r', 'real64', 'inf'],
    ['dt', _TS], ['dt', _IV],
    ['pydt', [2014, 9, 24, 19, 30, 40, 654321], None], ['pydt', [2014, 9, 24, 19, 30, 40, 0], ['mfu', 120]],
    ['pytd', 183, 48342, 234567],
    ['ipath', 'Foo', [['k', ['i', None, 1]]], None, None], ['cpath', 'Foo', None, None],
    ['inst', 'Foo', [], None], ['class', 'Foo', [], []],
    ['t', [['i', None, 1], ['i', None, 2]]], ['t', []], ['d', {}], ['o'],
    ['a', []], ['a', [['n']]], ['a', [['i', None, 5]]], ['a', [['s', 'a']]], ['a', [['s', '5']]],
    ['a', [['b', True]]], ['a', [['i', None, 5], ['n']]], ['a', [['i', None, 5], ['s', 'a']]],
    ['a', [['s', 'a'], ['i', None, 5]]], ['a', [['i', 'uint8', 5]]], ['a', [['i', None, 256]]],
    ['a', [['r', None, (1.5).hex()]]], ['a', [['r', None, 'inf']]], ['a', [['dt', _TS]]],
    ['a', [['pytd', 1, 0, 0]]], ['a', [['s', _TS]]],
    ['a', [['ipath', 'Foo', [['k', ['i', None, 1]]], None, None]]],
    ['a', [['inst', 'Foo', [], None]]], ['a', [['y', 'abc']]],
    ['a', [['a', [['i', None, 5]]]]], ['a', [['a', [['s', 'a']]]]], ['a', [['a', []]]],
]


class _NoOffset(tzinfo):
    """tzinfo whose utcoffset() is None: the datetime is naive by Python's definition"""

    def utcoffset(self, dt):
        return None

    def dst(self, dt):
        return None

    def tzname(self, dt):
        return None

    def __repr__(self):
        return '_NoOffset()'


def make_tz(tz):
    if tz is None:
        return None
    if tz[0] == 'mfu':
        return MinutesFromUTC(tz[1])
    if tz[0] == 'tz':
        return timezone(timedelta(minutes=tz[1], seconds=tz[2] if len(tz) > 2 else 0))
    if tz[0] == 'none-offset':
        return _NoOffset()
    raise ValueError('bad tz spec %r' % (tz,))


def build_atom(s):
    t = s[0]
    if t == 'a':
        return [build_atom(x) for x in s[1]]
    if t == 't':
        return tuple(build_atom(x) for x in s[1])
    if t == 'y':
        return s[1].encode('latin-1')
    if t == 'c16':
        return Char16(s[1])
    if t == 'pydt':
        return datetime(*s[1], tzinfo=make_tz(s[2]))
    if t == 'pytd':
        return timedelta(days=s[1], seconds=s[2], microseconds=s[3])
    if t == 'd':
        return dict(s[1])
    if t == 'o':
        return object()
    if t == 'pow10':
        return 10 ** s[1]
    return D.build(s)


_ADDR = re.compile(r' at 0x[0-9a-fA-F]+')


def show(v):
    """repr without memory addresses (observations must be identical from run to run)"""
    return _ADDR.sub('', repr(v))


def tclass(t):
    if t in ('string', 'char16'):
        return 'string/char16'
    if t in D.INT_TYPES:
        return 'integer'
    if t in D.REAL_TYPES:
        return 'real'
    return str(t)


def scalar_conforms(v, t):
    if v is None:
        return True
    if t == 'boolean':
        return type(v) is bool
    if t == 'string':
        return isinstance(v, (str, CIMInstance, CIMClass))
    if t == 'char16':
        return isinstance(v, str)
    if t == 'datetime':
        return isinstance(v, CIMDateTime)
    if t == 'reference':
        return isinstance(v, (CIMInstanceName, CIMClassName))
    if t in D.INT_TYPES:
        lo, hi = D.INT_RANGE[t]
        return isinstance(v, D.INT_TYPES[t]) and lo <= int.__index__(v) <= hi
    if t in D.REAL_TYPES:
        return isinstance(v, D.REAL_TYPES[t])
    return False


def stored_problem(v, t):
    """None if v is a legal stored value for CIM type t, else a failure class"""
    if isinstance(v, list):
        if any(isinstance(x, (list, tuple)) for x in v):
            return 'nested-list-stored'
        if all(scalar_conforms(x, t) for x in v):
            return None
        return 'stored-not-cim-type'
    return None if scalar_conforms(v, t) else 'stored-not-cim-type'


def _seam_cimvalue(v, t):
    return cimvalue(v, t), t


def _seam_prop_init(v, t):
    o = CIMProperty('P', v, type=t)
    return o.value, o.type


def _seam_prop_set(v, t):
    o = CIMProperty('P', None, type=t)
    o.value = v
    return o.value, o.type


def _seam_qual_init(v, t):
    o = CIMQualifier('Q', v, type=t)
    return o.value, o.type


def _seam_qual_set(v, t):
    o = CIMQualifier('Q', None, type=t)
    o.value = v
    return o.value, o.type


def _seam_param_init(v, t):
    o = CIMParameter('P', t, value=v)
    return o.value, o.type


def _seam_param_set(v, t):
    o = CIMParameter('P', t)
    o.value = v
    return o.value, o.type


def _seam_qdecl_init(v, t):
    o = CIMQualifierDeclaration('Q', t, value=v)
    return o.value, o.type


def _seam_qdecl_set(v, t):
    o = CIMQualifierDeclaration('Q', t)
    o.value = v
    return o.value, o.type


SEAMS = [('cimvalue', _seam_cimvalue),
         ('CIMProperty()', _seam_prop_init), ('CIMProperty.value=', _seam_prop_set),
         ('CIMQualifier()', _seam_qual_init), ('CIMQualifier.value=', _seam_qual_set),
         ('CIMParameter()', _seam_param_init), ('CIMParameter.value=', _seam_param_set),
         ('CIMQualifierDeclaration()', _seam_qdecl_init),
         ('CIMQualifierDeclaration.value=', _seam_qdecl_set)]
# with type=None the type is inferred from the value; only these seams have that form and expose
# the inferred type
SEAMS_INFERRED = ('CIMProperty()', 'CIMQualifier()')


def check_setter(atom, t, acc):
    """all seams for one (value atom, type) pair. Every setter funnels into cimvalue(): a failure
    that cimvalue() itself shows is reported once (seams='cimvalue'); a failure only some setters
    show is reported with the list of those seams."""
    try:
        build_atom(atom)
    except OK_EXC:
        # pywbem itself refuses to build the input value (generator precondition)
        acc.case(('set', t, D.key(atom)), nontrivial=False, outcome='setters:atom-not-constructible')
        return
    tt = t if t is not None else _inferred(atom)
    problems = {}        # what -> [(seam, observed)]
    for seam, fn in SEAMS:
        if t is None and seam not in SEAMS_INFERRED and seam != 'cimvalue':
            continue
        if seam == 'cimvalue' and tt is None:
            continue
        v = build_atom(atom)
        try:
            stored, otype = fn(v, tt if seam == 'cimvalue' else t)
        except OK_EXC as exc:
            acc.case(('set', seam, t, D.key(atom)), nontrivial=False,
                     outcome='setters:rejected:' + type(exc).__name__)
            continue
        except Exception as exc:
            acc.case(('set', seam, t, D.key(atom)), outcome='setters:raised')
            problems.setdefault('raised:' + type(exc).__name__, []).append((seam, repr(exc)))
            continue
        what = stored_problem(stored, otype)
        acc.case(('set', seam, t, D.key(atom)),
                 outcome='setters:' + ('stored-null' if stored is None else what or 'stored-ok'),
                 sample=dict(seam=seam, type=t, atom=atom, stored=show(stored))
                 if what is None and seam == 'CIMParameter.value=' and atom[0] == 'pytd' else None)
        if what:
            problems.setdefault(what, []).append((seam, '%s stores %s' % (seam, show(stored))))
    for what in sorted(problems):
        seams = [s for s, _ in problems[what]]
        if 'cimvalue' in seams:
            sig = dict(check='setters', what=what, seams='cimvalue',
                       tclass='any' if what == 'nested-list-stored' else tclass(tt))
        else:
            sig = dict(check='setters', what=what, seams='+'.join(seams), tclass='any')
        acc.violation(sig, dict(check='setters', atom=atom, type=t),
                      'None, a value of CIM type %s (or a list of such), or TypeError/ValueError' % tt,
                      problems[what][0][1])


def _inferred(atom):
    try:
        return CIMProperty('P', build_atom(atom)).type
    except Exception:       # noqa: only used to label a signature
        return None


# ==========================================================================================
# sub-check: datetime

YEARS = [1, 1900, 1970, 2000, 2024, 9999]
MONTHS = [1, 2, 12]
DAYS = [1, 28, 29, 31]
HOURS = [0, 23]
MINSEC = [0, 59]
USECS = [0, 1, 999999]
TS_PRECISIONS = [None, 0, 4, 6, 8, 10, 12, 15, 16, 17, 18, 19, 20]
IV_PRECISIONS = [None, 0, 8, 10, 12, 15, 16, 17, 18, 19, 20]
IV_DAYS = [0, 1, 183, 99999998, 99999999]

OFFSETS_41 = [0, 1, 59, 60, 61, 119, 120, 121, 300, 599, 600, 719, 720, 721, 779, 780, 840, 900,
              960, 998, 999]
REDUCED_TS = [(y, m, d, h, mi, s, us)
              for y in (1, 2024, 9999) for (m, d) in ((1, 1), (2, 29), (12, 31))
              for (h, mi, s, us) in ((0, 0, 0, 0), (23, 59, 59, 999999))]


def offsets_small():
    return sorted(set(OFFSETS_41) | {-o for o in OFFSETS_41})


def offset_text(o, minus_zero=False):
    return ('-' if o < 0 or minus_zero else '+') + '%03d' % abs(o)


def all_offset_texts():
    """'-999' .. '+999' and '-000' (2000 texts)"""
    return [offset_text(o) for o in range(-999, 1000)] + ['-000']


def small_offset_texts():
    return [offset_text(o) for o in offsets_small()]       # 41 texts


def body(widths, fields, us, precision):
    """the 21 character body with asterisks from index `precision` on"""
    s = ''.join('%0*d' % (w, f) for w, f in zip(widths, fields)) + '.' + '%06d' % us
    if precision is None:
        return s
    return s[:precision] + ''.join('.' if i == 14 else '*' for i in range(precision, 21))


def ts_bodies(field_tuples):
    out = set()
    for f in field_tuples:
        for p in TS_PRECISIONS:
            out.add(body(REF.TS_WIDTHS, f[:6], f[6], p))
    return sorted(out)


def full_ts_fields():
    return list(itertools.product(YEARS, MONTHS, DAYS, HOURS, MINSEC, MINSEC, USECS))


def iv_strings():
    out = set()
    for f in itertools.product(IV_DAYS, HOURS, MINSEC, MINSEC, USECS):
        for p in IV_PRECISIONS:
            out.add(body(REF.IV_WIDTHS, f[:4], f[4], p) + ':000')
    return sorted(out)


_CACHE = {}


def cached(name, fn):
    if name not in _CACHE:
        _CACHE[name] = fn()
    return _CACHE[name]


DEV_CHARS = ['*', '0', '9', '.', ':', '+', '-', '|', ' ', 'a']


def deviation_strings():
    """every string one deviation away from a reduced set of legal strings"""
    def make():
        bases = set()
        for b in ts_bodies(REDUCED_TS):
            for o in ('+000', '-060', '+999'):
                bases.add(b + o)
        for f in ((0, 0, 0, 0, 0), (1, 23, 59, 59, 999999), (99999999, 23, 59, 59, 999999),
                  (183, 13, 25, 42, 234567)):
            for p in IV_PRECISIONS:
                bases.add(body(REF.IV_WIDTHS, f[:4], f[4], p) + ':000')
        out = set()
        for s in sorted(bases):
            for i in range(len(s)):
                for c in DEV_CHARS:
                    if c != s[i]:
                        out.add(s[:i] + c + s[i + 1:])
                out.add(s[:i] + s[i + 1:])
            for i in range(len(s) + 1):
                for c in ('0', '*', ' '):
                    out.add(s[:i] + c + s[i:])
            # one numeric field out of range / at the other end of its range
            widths = REF.IV_WIDTHS if s[21] == ':' else REF.TS_WIDTHS
            pos = 0
            for w in widths:
                for val in ('0' * w, '13', '24', '32', '60', '61', '99', '9' * w, '30', '31'):
                    if len(val) == w:
                        out.add(s[:pos] + val + s[pos + w:])
                pos += w
            out.add(s[:22] + '1000')
            out.add(s[:21] + ':000')
            out.add(s[:21] + '+000')
            out.add(s[:21] + ':001')
            out.add(s.replace('*', '0'))
            out.add(' ' + s)
            out.add(s + '\n')
        out -= bases
        return sorted(out)
    return cached('dev', make)


def valid_date(f):
    try:
        datetime(*f)
        return True
    except ValueError:
        return False


def object_inputs(tier):
    """JSON-able specs of Python object inputs"""
    def make():
        out = []
        full = [list(f) for f in full_ts_fields() if valid_date(f)]
        red = [list(f) for f in REDUCED_TS if valid_date(f)]
        for f in full:
            out.append(['pydt', f, None])
        small = offsets_small() + [-1439, -1000, 1000, 1439]
        wide = list(range(-1439, 1440))
        sm = set(small)
        for kind in ('mfu', 'tz'):
            # thorough: every offset on the full field lattice for MinutesFromUTC; for
            # datetime.timezone (same arithmetic, other tzinfo class) as in the quick tier
            all_on_full = tier == 'thorough' and kind == 'mfu'
            for f in full:
                for o in (wide if all_on_full else small):
                    out.append(['pydt', f, [kind, o]])
            if not all_on_full:
                for f in red:
                    for o in wide:
                        if o not in sm:
                            out.append(['pydt', f, [kind, o]])
        for f in red:
            for o in (0, 1, -1, 59, -60, 999, -999):
                for sec in (1, 30, 59):
                    out.append(['pydt', f, ['tz', o, sec]])
            out.append(['pydt', f, ['none-offset']])
            for o in (1440, -1440, 100000):
                out.append(['pydt', f, ['mfu', o]])
        for days in (0, 1, 183, 99999998, 99999999, 100000000, 999999999, -1, -99999999):
            for secs in (0, 1, 59, 60, 3599, 3600, 86399):
                for us in USECS:
                    out.append(['pytd', days, secs, us])
        for s in (_TS, _IV, '2014092419****.******+000', '00000001******.******:000'):
            out.append(['bytes', s])
        out.append(['bytes-latin1', '\xff' * 25])
        for k in ('int', 'float', 'none', 'list', 'tuple', 'bool', 'date', 'uint8'):
            out.append(['other', k])
        return out
    return cached('obj-' + tier, make)


def dt_build(spec):
    k = spec[0]
    if k == 'str':
        return spec[1]
    if k == 'bytes':
        return spec[1].encode('utf-8')
    if k == 'bytes-latin1':
        return spec[1].encode('latin-1')
    if k == 'pydt':
        return datetime(*spec[1], tzinfo=make_tz(spec[2]))
    if k == 'pytd':
        return timedelta(days=spec[1], seconds=spec[2], microseconds=spec[3])
    if k == 'other':
        import datetime as _dt
        return {'int': 5, 'float': 1.5, 'none': None, 'list': [_TS], 'tuple': (_TS,), 'bool': True,
                'date': _dt.date(2014, 9, 24), 'uint8': pywbem.Uint8(5)}[spec[1]]
    raise ValueError('bad datetime input spec %r' % (spec,))


def dsp0004_domain(x):
    """None if DSP0004 can express the value of x, else the reason (computed from the public
    datetime / timedelta attributes, not from minutes_from_utc or str)"""
    if x.timedelta is not None and x.datetime is None:
        td = x.timedelta
        if td.days < 0:
            return 'negative-interval'
        if td.days > 99999999:
            return 'interval>99999999d'
        return None
    if x.datetime is None:
        return 'neither-datetime-nor-timedelta'
    try:
        off = x.datetime.utcoffset()
    except Exception:       # tzinfo that Python itself refuses (|offset| >= 24 h)
        return 'utcoffset-unusable'
    if off is None:
        return None         # naive: documented to be taken as UTC
    if off.microseconds or off.seconds % 60:
        return 'offset-not-whole-minutes'
    minutes = off.days * 1440 + off.seconds // 60
    if abs(minutes) > 999:
        return 'offset-beyond-999'
    return None


def input_kind(spec):
    return {'str': 'str', 'bytes': 'str', 'bytes-latin1': 'str', 'pydt': 'datetime',
            'pytd': 'timedelta', 'other': 'other'}[spec[0]]


def same_value(a, b, prefix):
    """first aspect in which CIMDateTime b (derived from a) differs from a, else None"""
    if a.is_interval != b.is_interval:
        return prefix + '-kind', a.is_interval, b.is_interval
    if a.minutes_from_utc != b.minutes_from_utc:
        return prefix + '-offset', a.minutes_from_utc, b.minutes_from_utc
    if a.precision != b.precision:
        return prefix + '-precision', a.precision, b.precision
    if not (b == a) or not (a == b) or (b != a):
        return prefix + '-not-equal', repr(a), repr(b)
    sa, sb = str(a), str(b)
    if sa != sb:
        return prefix + '-str', sa, sb
    return None


def dt_verdicts(spec):
    """-> (outcome, nontrivial, [(what, expected, observed), ...], printed)"""
    arg = dt_build(spec)
    try:
        x = CIMDateTime(arg)
    except OK_EXC as exc:
        return 'rejected:' + type(exc).__name__, False, [], None
    except Exception as exc:
        # the statement says nothing about how other inputs are rejected
        return 'rejected-other:' + type(exc).__name__, False, [], None
    reason = dsp0004_domain(x)
    if reason:
        return 'outside-dsp0004:' + reason, False, [], None
    kind = 'interval' if x.is_interval else 'timestamp'
    out = 'accepted:%s:%s' % (kind, 'full' if x.precision is None else 'asterisks')
    problems = []
    try:
        s1 = str(x)
    except Exception as exc:
        return out, True, [('str-raised:' + type(exc).__name__, 'a DSP0004 datetime string',
                            repr(exc))], None
    if not isinstance(s1, str) or len(s1) != 25:
        problems.append(('str-length', '25 characters', s1))
    elif REF.parse(s1) is None:
        problems.append(('str-not-dsp0004', 'a DSP0004 datetime string', s1))
    for prefix, arg2 in (('reparse', s1), ('copy', x)):
        try:
            y = CIMDateTime(arg2)
        except Exception as exc:
            problems.append((prefix + '-rejected', 'CIMDateTime(%s) == x' %
                             ('str(x)' if prefix == 'reparse' else 'x'),
                             '%r; str(x)=%r' % (exc, s1)))
            continue
        try:
            diff = same_value(x, y, prefix)
        except Exception as exc:
            diff = (prefix + '-compare-raised:' + type(exc).__name__, 'comparable', repr(exc))
        if diff:
            problems.append((diff[0], diff[1], '%r; str(x)=%r' % (diff[2], s1)))
    return out, True, problems, s1


def check_dt(spec, acc, origin):
    out, nontrivial, problems, printed = dt_verdicts(spec)
    legal = ''
    if spec[0] == 'str':
        legal = ':legal-input' if REF.parse(spec[1]) is not None else ':illegal-input'
    acc.case(('dt', D.key(spec)), nontrivial=nontrivial,
             outcome='datetime:%s:%s%s' % (origin, out, legal), calls=1 + 6 * nontrivial,
             sample=dict(input=spec, printed=printed)
             if nontrivial and origin in ('dev', 'obj') and '*' in printed else None)
    for what, exp, obs in problems:
        acc.violation(dict(check='datetime', what=what, input=input_kind(spec)),
                      dict(check='datetime', input=spec), exp, obs)


# ==========================================================================================
# sub-check: reals

def real_values(t):
    if t == 'real32':
        return D.real_lattice(32) + D.decimal_lattice(32)
    return D.real_lattice(64) + D.real_lattice(32) + D.decimal_lattice(64) + D.decimal_lattice(32)


def bits(f, t):
    if f != f:
        return 'nan'
    if t == 'real32':
        return struct.pack('<f', D.float32_round(f)).hex()
    return struct.pack('<d', f).hex()


_VALUE_TEXT = re.compile(r'<(KEY)?VALUE[^>]*>([^<]*)</(KEY)?VALUE>')


def real_roundtrip(seam, t, v):
    """-> (printed text, parsed value)"""
    obj = D.REAL_TYPES[t](v) if t else v
    if seam == 'direct':
        text = atomic_to_cim_xml(obj)
        return text, _PARSER.unpack_numeric(text, t)
    if seam == 'property':
        xml = CIMProperty('P', obj).tocimxml().toxml()
        back = _PARSER.parse_property(xml_to_tupletree_sax(xml, 'C06 property')).value
    elif seam == 'keybinding':
        xml = CIMInstanceName('C', keybindings=[('k', obj)]).tocimxml().toxml()
        back = _PARSER.parse_instancename(
            xml_to_tupletree_sax(xml, 'C06 instance name')).keybindings['k']
    else:
        raise ValueError(seam)
    m = _VALUE_TEXT.search(xml)
    if m is None:
        raise RuntimeError('harness: no VALUE text in %r' % xml)
    return m.group(2), back


_PARSER = TupleParser()
_DSP0201_REAL = re.compile(r'^[+-]?[0-9]*\.[0-9]+([eE][+-]?[0-9]+)?$')


def real_verdict(seam, t, v):
    """-> (outcome, [(what, expected, observed)], text, parsed value)"""
    try:
        text, back = real_roundtrip(seam, t, v)
    except RuntimeError:
        raise
    except Exception as exc:
        return 'raised', [('roundtrip-raised:' + type(exc).__name__, 'the value %r' % v,
                           repr(exc))], None, None
    problems = []
    if v != v:
        cls, want = 'nan', 'NaN'
    elif v in (float('inf'), float('-inf')):
        cls, want = 'inf', 'INF' if v > 0 else '-INF'
    else:
        cls, want = ('zero' if v == 0 else 'finite'), None
    if want is not None and text != want:
        problems.append(('special-value-spelling', want, text))
    if not isinstance(back, float):
        problems.append(('parsed-not-a-float', 'float', type(back).__name__))
    elif bits(back, t) != bits(v, t):
        problems.append(('value-changed:' + cls, '%r (%s)' % (v, v.hex() if v == v else 'nan'),
                         '%r from text %r' % (float(back), text)))
    if want is None and not _DSP0201_REAL.match(text):
        out = 'non-dsp0201-syntax:' + cls       # counted, not demanded by the statement
    else:
        out = 'ok:' + cls
    return out, problems, text, back


def check_real(seam, t, v, acc):
    out, problems, text, back = real_verdict(seam, t, v)
    spec = D.fspec(v, t)
    acc.case(('real', seam, t, spec[2] if v == v else struct.pack('<d', v).hex()),
             outcome='reals:%s:%s' % (seam, out if not problems else 'differs'), calls=2,
             sample=dict(seam=seam, type=t, value=spec[2], text=text)
             if seam == 'property' and not problems and 'p-1022' in spec[2] else None)
    if not problems and t == 'real32' and v == v and \
            struct.pack('<d', float(back)) != struct.pack('<d', v):
        # information only: equal as float32, but the Python float that comes back is another double
        acc.count('real32 cases (%s seam) read back equal as float32 but as a different Python '
                  'float' % seam)
    for what, exp, obs in problems:
        acc.violation(dict(check='reals', what=what, seam=seam,
                           type='typed' if t else 'float'),
                      dict(check='reals', seam=seam, type=t, value=spec[2]), exp, obs)


# ==========================================================================================
# plan / run / replay

N_TS_FULL = {'quick': 40, 'thorough': 112}
N_TS_RED = 24
N_DEV = 12
N_OBJ = {'quick': 16, 'thorough': 48}
REAL_PARTS = {'direct': 2, 'property': 6, 'keybinding': 6}
REAL_SEAM_TYPES = [('direct', 'real32'), ('direct', 'real64'), ('direct', None),
                   ('property', 'real32'), ('property', 'real64'),
                   ('keybinding', 'real32'), ('keybinding', 'real64'), ('keybinding', None)]


def plan(tier, seed):
    REF.selftest()
    shards = []
    for t in sorted(D.INT_TYPES):
        shards.append(dict(check='ints', type=t))
    for t in SETTER_TYPES:
        shards.append(dict(check='setters', type=t))
    n = N_TS_FULL[tier]
    for part in range(n):
        shards.append(dict(check='datetime', gen='ts-full', part=part, of=n))
    if tier == 'quick':
        for part in range(N_TS_RED):
            shards.append(dict(check='datetime', gen='ts-reduced', part=part, of=N_TS_RED))
    shards.append(dict(check='datetime', gen='intervals', part=0, of=1))
    for part in range(N_DEV):
        shards.append(dict(check='datetime', gen='deviations', part=part, of=N_DEV))
    n = N_OBJ[tier]
    for part in range(n):
        shards.append(dict(check='datetime', gen='objects', part=part, of=n))
    for seam, t in REAL_SEAM_TYPES:
        n = REAL_PARTS[seam] if t != 'real32' else max(1, REAL_PARTS[seam] // 3)
        for part in range(n):
            shards.append(dict(check='reals', seam=seam, type=t, part=part, of=n))
    return shards


def run_shard(shard, tier):
    warnings.simplefilter('ignore')
    _assert_config()
    acc = Acc()
    chk = shard['check']
    if chk == 'ints':
        t = shard['type']
        for form, path, args, kwargs, expect in int_cases(t):
            check_int(t, form, path, args, kwargs, expect, acc)
    elif chk == 'setters':
        for atom in ATOMS:
            check_setter(atom, shard['type'], acc)
    elif chk == 'datetime':
        part, of = shard['part'], shard['of']
        gen = shard['gen']
        if gen == 'ts-full':
            offs = all_offset_texts() if tier == 'thorough' else small_offset_texts()
            for i, b in enumerate(cached('ts-full', lambda: ts_bodies(full_ts_fields()))):
                if i % of == part:
                    for o in offs:
                        check_dt(['str', b + o], acc, 'ts')
        elif gen == 'ts-reduced':
            small = set(small_offset_texts())
            offs = [o for o in all_offset_texts() if o not in small]
            for i, b in enumerate(cached('ts-red', lambda: ts_bodies(REDUCED_TS))):
                if i % of == part:
                    for o in offs:
                        check_dt(['str', b + o], acc, 'ts')
        elif gen == 'intervals':
            for s in iv_strings():
                check_dt(['str', s], acc, 'iv')
        elif gen == 'deviations':
            for i, s in enumerate(deviation_strings()):
                if i % of == part:
                    check_dt(['str', s], acc, 'dev')
        elif gen == 'objects':
            for i, spec in enumerate(object_inputs(tier)):
                if i % of == part:
                    check_dt(spec, acc, 'obj')
        else:
            raise ValueError(gen)
    elif chk == 'reals':
        part, of = shard['part'], shard['of']
        for i, v in enumerate(real_values(shard['type'] or 'real64')):
            if i % of == part:
                check_real(shard['seam'], shard['type'], v, acc)
    else:
        raise ValueError(chk)
    _assert_config()
    return acc


def replay(case, tier):
    warnings.simplefilter('ignore')
    _assert_config()
    acc = Acc()
    chk = case['check']
    if chk == 'ints':
        check_int(case['type'], case.get('form', '?'), case.get('path', '?'), case['args'],
                  case['kwargs'], case['expect'], acc)
    elif chk == 'setters':
        check_setter(case['atom'], case['type'], acc)
    elif chk == 'datetime':
        check_dt(case['input'], acc, 'replay')
    elif chk == 'reals':
        check_real(case['seam'], case['type'], D._float(case['value']), acc)
    else:
        raise ValueError(chk)
    return acc


def snippet(case):
    chk = case.get('check')
    head = 'import sys; sys.path.insert(0, "/verif")\nfrom checks import c06_types as C\n'
    if chk == 'ints':
        return head + ('def test_replay():\n'
                       '    out, what, exp, obs = C.int_verdict(%r, %r, %r, %r)\n'
                       '    assert what is None, (what, exp, obs)\n'
                       % (case['type'], case['args'], case['kwargs'], case['expect']))
    if chk == 'setters':
        return head + ('from mc.core import Acc\n'
                       'def test_replay():\n'
                       '    acc = Acc(); C.check_setter(%r, %r, acc)\n'
                       '    assert not acc.violations, list(acc.violations)\n'
                       % (case['atom'], case['type']))
    if chk == 'datetime':
        return head + ('def test_replay():\n'
                       '    out, nontrivial, problems, printed = C.dt_verdicts(%r)\n'
                       '    assert not problems, problems\n' % (case['input'],))
    if chk == 'reals':
        return head + ('from mc import domains as D\n'
                       'def test_replay():\n'
                       '    out, problems, text, back = C.real_verdict(%r, %r, D._float(%r))\n'
                       '    assert not problems, problems\n'
                       % (case['seam'], case['type'], case['value']))
    return None
