"""C11 - a failed mock-repository operation changes nothing (modes H + D).

Seam: the complete content of conn.cimrepository.  snapshot(conn) = for every namespace (exact
lexical name) the strict canonical dump (mc/objdump.py) of every (key, object) pair of the class,
instance and qualifier store + the namespace list + the keys of
conn._mainprovider.enumeration_contexts.

Start states (mode H): breadth-first search with canonical-state dedup over macro steps on a fresh
FakedWBEMConnection(default_namespace='root/cimv2').  A macro step is one of
    ['ns', X]             add_namespace(X)                       X in root/b, interop
    ['schema0', N]        compile the base schema WITHOUT the association class into N
    ['schema', N]         compile the base schema (qualifier declarations, TST_A, TST_Sub : TST_A,
                          TST_B, association TST_AB) into N
    ['inst', N, C]        CreateInstance of class C (TST_A.id=1 | TST_Sub.id=2 | TST_B.id=1) in N
    ['assoc', N]          CreateInstance of TST_AB(a -> N:TST_A.id=1, b -> N:TST_B.id=1) in N
    ['xassoc', N1, N2]    CreateInstance in N1 of TST_AB(a -> N1:TST_A.id=1, b -> N2:TST_B.id=1):
                          a multi-namespace association, stored in N1 and N2
    ['lone', N]           add_cimobjects() of the multi-namespace association instance
                          TST_AB(a -> root/cimv2:TST_A.id=1, b -> root/b:TST_B.id=1) into N ONLY
                          (the only public way to reach "exists in one of the two namespaces")
    ['open', N]           OpenEnumerateInstancePaths('TST_A', MaxObjectCount=0) in N: leaves an
                          enumeration context on the server
    ['nsprovider']        install_namespace_provider('interop') (pywbem_mock.CIMNamespaceProvider)
                          on a hand-written CIM_Namespace class
    ['veto', N]           (set-up of single cases only) register a user-defined
                          InstanceWriteProvider for TST_Sub in N whose DeleteInstance raises
and every step first establishes what it needs (namespace, schema, end point instances) through
the same public calls, so that "create a multi-namespace association" is ONE step.  A step that
raises is not a valid step and is dropped.

From every start state:
  batch    compile_mof_string / compile_mof_file / compile_schema_classes / add_cimobjects with a
           batch made of an ordered selection (no repetition) of valid filler productions (new
           qualifier declaration Q, new class C, new subclass S, new instance I - only fillers that
           are accepted on their own in that state) with ONE invalid production inserted at
           position k, for every k and every rejection reason.  (Batches only from start states up
           to a smaller depth, see BOUNDS; a reason whose invalid production is accepted on its own
           in a state is not combined with fillers there.)
  single   one operation call that is rejected for one documented reason (class, qualifier,
           instance incl. multi-namespace association and provider-managed instances, namespace
           operations).  A case may name macro steps as its own set-up (executed after the start
           history where still to do, before the snapshot).

Oracle: the call raises (any exception) => snapshot(after) == snapshot(before), strictly.  A call
that does not raise is trivial for this property.  When the call raised and nothing changed, a
fixed list of valid follow-up operations is executed on the connection and on a clone that never
saw the failed call: same outcome, same results, same final snapshot ('unusable-after-failure').

Signature: {'check': batch|single, 'what': repository-changed|unusable-after-failure,
'api': method, 'reason': intended rejection reason, 'changed': ...}.  For repository-changed there
is one violation per store kind that changed (namespaces|classes|instances|qualifiers|contexts);
in a batch the plain kind means "objects of earlier valid productions were kept", and
'<kind>:beyond-earlier-productions' means the store differs in any other way (the failing
production itself left something, or existing objects were touched).  For unusable-after-failure
'changed' is the first follow-up that behaved differently.  The case is {'check', 'history' (macro
steps), ...call description}; Acc keeps the smallest witness per signature; replay() re-executes
history + call.
"""
import json
import hashlib
import itertools
import os
import pickle
import shutil
import tempfile

import pywbem
import pywbem_mock
from pywbem import (CIMClass, CIMInstance, CIMInstanceName, CIMProperty, CIMQualifier,
                    CIMQualifierDeclaration, CIMError, Uint32)

from mc.core import Acc, HarnessError
from mc.objdump import dump as odump

ID = 'C11'
RULE = ('a case is (start state, failing call): start states = every repository state reachable in '
        '<= start_depth macro steps (BFS, canonical dedup; 20 macro steps, see module doc); failing '
        'calls = every batch (ordered selection without repetition of valid filler productions x '
        'position k of the invalid production x rejection reason x the 4 batch APIs, from start '
        'states up to the depth given per API) and every single operation of _single_cases() '
        '(176 calls rejected for a documented reason, each with its own set-up); the call is made '
        'on a pickled clone of the live FakedWBEMConnection; a case is non-trivial iff the call '
        'raised (only then the oracle has something to compare)')
ASSUMPTIONS = [
    'repository content = namespaces, class/instance/qualifier stores (keys and objects, strict '
    'dump: exact types, lexical case, child order) and the keys of the enumeration context table; '
    'order of objects inside a store is not content',
    'a clone is a pickle round trip of the whole FakedWBEMConnection (start state and both sides of '
    'the follow-up comparison come from the same pickle, so they share all hidden state)',
    'the reason in a signature is the INTENDED deviation of the invalid production / call; what '
    'pywbem actually raised is recorded as the outcome class only (any exception counts as failure)',
    'follow-up operations are only demanded to behave the same when they succeed on the clone that '
    'never saw the failed call',
    'macro steps establish their own prerequisites through the same public calls (see module doc)',
    'batches go to the default namespace root/cimv2 (namespace=None)',
    'uuid.uuid4 in pywbem_mock._mainprovider is replaced by a counter (enumeration context ids)',
    'the PLY table modules pywbem._mofparsetab/_moflextab, which an installed pywbem ships but the '
    'working tree lacks, are generated once per process by pywbem\'s own _yacc()/_lex() into the '
    'scratch directory and registered in sys.modules (otherwise every MOFCompiler() rebuilds the '
    'LALR table: 60 ms instead of 2 ms per compile call); semantic actions are the real ones',
    'the namespace provider runs on a 6-key CIM_Namespace class compiled by the harness instead of '
    'the DMTF schema; add_namespace() then falls back to the main provider (no CIM_ObjectManager)',
]

DEFNS = 'root/cimv2'
NSB = 'root/b'
INTEROP = 'interop'
NOPE = 'root/nope'
NSC = 'root/c'      # third namespace: associations spanning three namespaces (single cases only)

_COMMON = {
    'namespaces': [DEFNS, NSB, INTEROP],
    'batch_apis': ['compile_mof_string', 'compile_mof_file', 'compile_schema_classes',
                   'add_cimobjects'],
    'single_cases': 'see _single_cases(): every case from every start state',
}
BOUNDS = {
    'quick': dict(
        _COMMON, start_depth=2,
        macro_steps_left_out=[['schema0', NSB], ['inst', NSB, 'TST_A'], ['inst', NSB, 'TST_Sub'],
                              ['inst', DEFNS, 'TST_B'], ['assoc', NSB]],
        fillers=['Q', 'C', 'I'], extra_reasons=False,
        # batch length (fillers + the invalid production) by depth of the start state, per API
        batch_len_by_start_depth={
            'compile_mof_string': {'0': 3, '1': 3}, 'compile_mof_file': {'0': 3, '1': 3},
            'compile_schema_classes': {'0': 3, '1': 3}, 'add_cimobjects': {'0': 3, '1': 3}}),
    'thorough': dict(
        _COMMON, start_depth=3, macro_steps_left_out=[],
        fillers=['Q', 'C', 'S', 'I'], extra_reasons=True,
        batch_len_by_start_depth={
            'compile_mof_string': {'0': 4, '1': 4, '2': 3}, 'compile_mof_file': {'0': 4, '1': 4},
            'compile_schema_classes': {'0': 4, '1': 4}, 'add_cimobjects': {'0': 4, '1': 4, '2': 3}}),
}

# ------------------------------------------------------------------------------------------
# the base schema

QUALS_MOF = '''
Qualifier Key : boolean = false, Scope(property, reference), Flavor(DisableOverride, ToSubclass);
Qualifier Association : boolean = false, Scope(association), Flavor(DisableOverride, ToSubclass);
Qualifier Description : string = null, Scope(any), Flavor(EnableOverride, ToSubclass, Translatable);
Qualifier Override : string = null, Scope(property, reference, method), Flavor(EnableOverride, Restricted);
Qualifier EmbeddedInstance : string = null, Scope(property, method, parameter);
'''
CLASSES0_MOF = '''
[Description("base")] class TST_A { [Key] uint32 id; string s; };
class TST_Sub : TST_A { uint16 q; };
class TST_B { [Key] uint32 id; };
'''
ASSOC_MOF = '''
[Association] class TST_AB { [Key] TST_A REF a; [Key] TST_B REF b; TST_A REF c; string note; };
'''
# what pywbem_mock.CIMNamespaceProvider needs of the DMTF schema (install_namespace_provider() is
# documented to accept an Interop namespace in which the class is already installed)
NSCLASS_MOF = '''
class CIM_Namespace { [Key] string SystemCreationClassName; [Key] string SystemName;
    [Key] string ObjectManagerCreationClassName; [Key] string ObjectManagerName;
    [Key] string CreationClassName; [Key] string Name; };
'''


# ------------------------------------------------------------------------------------------
# owned environment: enumeration context ids; PLY tables of the MOF compiler

_CTX = [0]


class _UuidShim:
    """stands in for the uuid module inside pywbem_mock._mainprovider only (context ids)"""
    @staticmethod
    def uuid4():
        _CTX[0] += 1
        return 'ctx-%d' % _CTX[0]


def _install():
    import importlib.util
    import sys
    import pywbem_mock._mainprovider as _mp
    import pywbem._mof_compiler as _mofc
    if not isinstance(_mp.uuid, _UuidShim):
        _mp.uuid = _UuidShim()
    # An installed pywbem ships the generated PLY table modules pywbem/_mofparsetab.py and
    # pywbem/_moflextab.py; the working tree does not, and then every MOFCompiler() regenerates
    # the LALR table (60 ms).  Generate them once per process with pywbem's own _yacc()/_lex()
    # into the scratch directory and make them importable under their package names.
    for name, build in (('_mofparsetab', _mofc._yacc), ('_moflextab', _mofc._lex)):
        full = 'pywbem.' + name
        if full in sys.modules:
            continue
        if importlib.util.find_spec(full) is not None:
            continue
        d = os.path.join(scratch(), 'plytab')
        os.makedirs(d, exist_ok=True)
        build(False, out_dir=d)
        spec = importlib.util.spec_from_file_location(full, os.path.join(d, name + '.py'))
        mod = importlib.util.module_from_spec(spec)
        spec.loader.exec_module(mod)
        sys.modules[full] = mod


_SCRATCH = [None]


def scratch():
    if _SCRATCH[0] is None or _SCRATCH[0][0] != os.getpid():
        base = os.environ.get('MC_SCRATCH') or tempfile.mkdtemp(prefix='c11-', dir='/var/tmp')
        d = os.path.join(base, 'c11-%d' % os.getpid())
        os.makedirs(d, exist_ok=True)
        _SCRATCH[0] = (os.getpid(), d)
    return _SCRATCH[0][1]


_install()

# ------------------------------------------------------------------------------------------
# snapshot

KINDS = ('namespaces', 'classes', 'instances', 'qualifiers', 'contexts')


def _store_items(store):
    out = []
    for name in list(store.iter_names()):
        out.append([odump(name), odump(store.get(name, copy=False))])
    out.sort(key=repr)
    return out


def snapshot_of(rep, contexts):
    names = [str(n) for n in rep.namespaces]
    snap = {'namespaces': sorted(names), 'classes': {}, 'instances': {}, 'qualifiers': {},
            'contexts': sorted(str(k) for k in contexts)}
    for ns in names:
        snap['classes'][ns] = _store_items(rep.get_class_store(ns))
        snap['instances'][ns] = _store_items(rep.get_instance_store(ns))
        snap['qualifiers'][ns] = _store_items(rep.get_qualifier_store(ns))
    return snap


def snapshot(conn):
    return snapshot_of(conn.cimrepository, list(conn._mainprovider.enumeration_contexts))


class Snap:
    """lazy strict snapshot: a pickle of the repository object + the context keys is taken at once
    (cheap); identical pickles = identical content; only when the pickles differ the strict dumps
    (order-insensitive, mc/objdump.py) are computed - of the pickled copy, i.e. of the content at
    the time the Snap was taken - and decide."""

    def __init__(self, conn):
        self.ctx = sorted(str(k) for k in conn._mainprovider.enumeration_contexts)
        self.blob = pickle.dumps(conn.cimrepository, pickle.HIGHEST_PROTOCOL)
        self._strict = None

    def strict(self):
        if self._strict is None:
            self._strict = snapshot_of(pickle.loads(self.blob), self.ctx)
        return self._strict

    def same(self, other):
        if self.blob == other.blob and self.ctx == other.ctx:
            return True
        return self.strict() == other.strict()


def _nonempty(d):
    return {ns: v for ns, v in d.items() if v} if isinstance(d, dict) else d


def changed_kinds(before, after):
    """store kinds whose content differs (an added/removed EMPTY namespace only counts as
    'namespaces')"""
    return [k for k in KINDS if _nonempty(before[k]) != _nonempty(after[k])]


def _short(d):
    """short name of a dumped store key"""
    if isinstance(d, list) and d and d[0] == 'str':
        return d[1]
    if isinstance(d, list) and d and d[0] == 'CIMInstanceName':
        f = dict((a, v) for a, v in d[1:])
        kbs = f['keybindings'][1] if f.get('keybindings') else []
        return '%s.%s' % (f['classname'][1], ','.join('%s=%s' % (k, _short(v)) for k, v in kbs))
    if isinstance(d, list) and len(d) == 2:
        return str(d[1])
    return str(d)


def describe_diff(before, after):
    """deterministic, compact text of what changed (no enumeration context ids)"""
    out = []
    if before['namespaces'] != after['namespaces']:
        out.append('namespaces: %s -> %s' % (before['namespaces'], after['namespaces']))
    for kind in ('classes', 'instances', 'qualifiers'):
        for ns in sorted(set(before[kind]) | set(after[kind])):
            b = {repr(k): v for k, v in before[kind].get(ns, [])}
            a = {repr(k): v for k, v in after[kind].get(ns, [])}
            names = {repr(k): _short(k) for k, _ in before[kind].get(ns, []) + after[kind].get(ns, [])}
            for k in sorted(set(a) | set(b)):
                if k not in b:
                    out.append('%s: +%s:%s' % (kind, ns, names[k]))
                elif k not in a:
                    out.append('%s: -%s:%s' % (kind, ns, names[k]))
                elif a[k] != b[k]:
                    out.append('%s: ~%s:%s' % (kind, ns, names[k]))
    if before['contexts'] != after['contexts']:
        out.append('contexts: %d -> %d' % (len(before['contexts']), len(after['contexts'])))
    return out


def state_key(conn):
    snap = snapshot(conn)
    snap['contexts'] = len(snap['contexts'])
    cache = conn._mofwbemconnection.classes
    hidden = [[str(ns), sorted(str(c) for c in cache[ns].keys())] for ns in sorted(cache.keys())]
    hidden.append(sorted([str(ns).lower(), str(cls).lower(), str(t), type(p).__name__]
                         for ns, cls, t, p in conn._provider_registry.iteritems()))
    blob = json.dumps([snap, hidden, conn.default_namespace], sort_keys=True, default=repr)
    return hashlib.sha1(blob.encode()).hexdigest()[:20]


def clone_token(conn):
    return pickle.dumps(conn, pickle.HIGHEST_PROTOCOL)


def load(token):
    return pickle.loads(token)


# ------------------------------------------------------------------------------------------
# observing the repository (harness side, read only) and object builders

def has_ns(conn, ns):
    return ns in conn.cimrepository.namespaces


def has_class(conn, ns, cls):
    return has_ns(conn, ns) and conn.cimrepository.get_class_store(ns).object_exists(cls)


def has_inst(conn, ns, path):
    if not has_ns(conn, ns):
        return False
    p = path.copy()
    p.namespace = ns
    return conn.cimrepository.get_instance_store(ns).object_exists(p)


INST_IDS = {'TST_A': 1, 'TST_Sub': 2, 'TST_B': 1}


def ipath(cls, ident, ns=None):
    return CIMInstanceName(cls, {'id': Uint32(ident)}, namespace=ns)


def plain_inst(cls, ident, **props):
    d = {'id': Uint32(ident)}
    d.update(props)
    return CIMInstance(cls, d)


def assoc_inst(ns_a, ns_b, id_a=1, id_b=1, note=None, host=None, with_b=True):
    props = [CIMProperty('a', CIMInstanceName('TST_A', {'id': Uint32(id_a)}, namespace=ns_a, host=host),
                         type='reference', reference_class='TST_A')]
    if with_b:
        props.append(CIMProperty('b', ipath('TST_B', id_b, ns_b), type='reference',
                                 reference_class='TST_B'))
    if with_b:
        # the non-key reference c points to the same instance as a
        props.append(CIMProperty('c', ipath('TST_A', id_a, ns_a), type='reference', reference_class='TST_A'))
    if note is not None:
        props.append(CIMProperty('note', note, type='string'))
    return CIMInstance('TST_AB', props)


def keychange_inst(ns):
    """TST_A.id=1 with property id=2 (the path is set afterwards: CIMInstance keeps path keybindings in
    step with key property values that are set while the path is there)"""
    inst = CIMInstance('TST_A', [('s', 'm'), ('id', Uint32(2))])
    inst.path = ipath('TST_A', 1, ns)
    return inst


def assoc_path(ns_a, ns_b, ns=None):
    return CIMInstanceName('TST_AB', {'a': ipath('TST_A', 1, ns_a), 'b': ipath('TST_B', 1, ns_b)},
                           namespace=ns)


def other(ns):
    return NSB if ns == DEFNS else DEFNS


# ------------------------------------------------------------------------------------------
# macro steps (valid public calls only; every primitive call is logged for the witness text)

def _mofname(mof):
    parts = []
    if QUALS_MOF in mof:
        parts.append('QUALS_MOF')
    if CLASSES0_MOF in mof:
        parts.append('CLASSES0_MOF')
    if ASSOC_MOF in mof:
        parts.append('ASSOC_MOF')
    if NSCLASS_MOF in mof:
        parts.append('NSCLASS_MOF')
    return ' + '.join(parts) if parts else repr(mof)


def _vtext(v):
    if isinstance(v, CIMInstanceName):
        return '%s:%s.id=%s' % (v.namespace, v.classname, v.keybindings.get('id'))
    if isinstance(v, int) and not isinstance(v, bool):
        return str(int(v))
    return repr(v)


def _itext(inst):
    return '%s(%s)' % (inst.classname, ', '.join('%s=%s' % (k, _vtext(p.value))
                                                for k, p in inst.properties.items()))


class Rec:
    def __init__(self, conn):
        self.conn = conn
        self.log = []

    def add_namespace(self, ns):
        self.log.append('conn.add_namespace(%r)' % ns)
        self.conn.add_namespace(ns)

    def compile(self, mof, ns):
        self.log.append('conn.compile_mof_string(%s, namespace=%r)' % (_mofname(mof), ns))
        self.conn.compile_mof_string(mof, namespace=ns)

    def create_instance(self, inst, ns):
        self.log.append('conn.CreateInstance(%s, namespace=%r)' % (_itext(inst), ns))
        self.conn.CreateInstance(inst, namespace=ns)

    def add_cimobjects(self, obj, ns):
        self.log.append('conn.add_cimobjects(%s with path in %r, namespace=%r)' % (_itext(obj), ns, ns))
        self.conn.add_cimobjects(obj, namespace=ns)

    def install_nsprovider(self):
        self.log.append('conn.install_namespace_provider(%r)' % INTEROP)
        self.conn.install_namespace_provider(INTEROP)

    def register_veto(self, ns):
        self.log.append('conn.register_provider(<InstanceWriteProvider for TST_Sub whose DeleteInstance '
                        'raises CIM_ERR_ACCESS_DENIED>, namespaces=%r)' % ns)
        self.conn.register_provider(VetoProvider(self.conn.cimrepository), namespaces=ns)

    def open_paths(self, cls, ns):
        self.log.append('conn.OpenEnumerateInstancePaths(%r, namespace=%r, MaxObjectCount=0)' % (cls, ns))
        _CTX[0] = len(self.conn._mainprovider.enumeration_contexts)
        self.conn.OpenEnumerateInstancePaths(cls, namespace=ns, MaxObjectCount=0)


class VetoProvider(pywbem_mock.InstanceWriteProvider):
    """user-defined provider that refuses to delete instances of TST_Sub"""
    provider_classnames = 'TST_Sub'

    def __init__(self, cimrepository):
        super().__init__(cimrepository)

    def DeleteInstance(self, InstanceName):
        raise CIMError(pywbem.CIM_ERR_ACCESS_DENIED, 'instances of TST_Sub are not deletable')


def provider_of(conn, ns, cls):
    try:
        return conn._provider_registry.get_registered_provider(ns, 'instance-write', cls)
    except Exception:   # noqa
        return None


def ensure_nsprovider(r):
    ensure_ns(r, INTEROP)
    if not has_class(r.conn, INTEROP, 'CIM_Namespace'):
        r.compile(QUALS_MOF + NSCLASS_MOF, INTEROP)
    if provider_of(r.conn, INTEROP, 'CIM_Namespace') is None:
        r.install_nsprovider()


def ensure_ns(r, ns):
    if not has_ns(r.conn, ns):
        r.add_namespace(ns)


def ensure_schema0(r, ns):
    ensure_ns(r, ns)
    if not has_class(r.conn, ns, 'TST_A'):
        r.compile(QUALS_MOF + CLASSES0_MOF, ns)


def ensure_schema(r, ns):
    ensure_ns(r, ns)
    if not has_class(r.conn, ns, 'TST_A'):
        r.compile(QUALS_MOF + CLASSES0_MOF + ASSOC_MOF, ns)
    elif not has_class(r.conn, ns, 'TST_AB'):
        r.compile(ASSOC_MOF, ns)


def ensure_inst(r, ns, cls):
    if not has_class(r.conn, ns, cls):
        ensure_schema(r, ns)
    if not has_inst(r.conn, ns, ipath(cls, INST_IDS[cls])):
        r.create_instance(plain_inst(cls, INST_IDS[cls]), ns)


def ensure_ends(r, ns_a, ns_b):
    ensure_inst(r, ns_a, 'TST_A')
    ensure_inst(r, ns_b, 'TST_B')


def apply_step(r, step):
    """execute one macro step on r.conn (exceptions of pywbem propagate: the step is not valid)"""
    kind = step[0]
    if kind == 'ns':
        r.add_namespace(step[1])
    elif kind == 'schema0':
        ensure_schema0(r, step[1])
    elif kind == 'schema':
        ensure_schema(r, step[1])
    elif kind == 'inst':
        ensure_inst(r, step[1], step[2])
    elif kind == 'assoc':
        ns = step[1]
        ensure_schema(r, ns)
        ensure_ends(r, ns, ns)
        r.create_instance(assoc_inst(ns, ns), ns)
    elif kind == 'xassoc':
        n1, n2 = step[1], step[2]
        ensure_schema(r, n1)
        ensure_schema(r, n2)
        ensure_ends(r, n1, n2)
        r.create_instance(assoc_inst(n1, n2), n1)
    elif kind == 'lone':
        ns = step[1]
        ensure_schema(r, ns)
        ensure_ends(r, DEFNS, NSB)
        inst = assoc_inst(DEFNS, NSB)
        inst.path = assoc_path(DEFNS, NSB, ns)
        r.add_cimobjects(inst, ns)
    elif kind == 'lone3':
        # association a -> na, b -> nb; one copy stored (add_cimobjects) in namespace `store` only;
        # the schema exists in all three namespaces
        store, na, nb = step[1], step[2], step[3]
        for ns in (DEFNS, NSB, NSC):
            if not has_ns(r.conn, ns):
                r.add_namespace(ns)
            ensure_schema(r, ns)
        ensure_ends(r, na, nb)
        if store is not None:
            inst = assoc_inst(na, nb)
            inst.path = assoc_path(na, nb, store)
            r.add_cimobjects(inst, store)
    elif kind == 'open':
        ensure_inst(r, step[1], 'TST_A')
        r.open_paths('TST_A', step[1])
    elif kind == 'nsprovider':
        ensure_nsprovider(r)
    elif kind == 'veto':
        ensure_inst(r, step[1], 'TST_A')
        ensure_inst(r, step[1], 'TST_Sub')
        r.register_veto(step[1])
    else:
        raise HarnessError('unknown macro step %r' % (step,))


def all_steps():
    out = [['ns', NSB], ['ns', INTEROP]]
    for ns in (DEFNS, NSB):
        out += [['schema0', ns], ['schema', ns]]
    for ns in (DEFNS, NSB):
        out += [['inst', ns, cls] for cls in ('TST_A', 'TST_Sub', 'TST_B')]
    out += [['assoc', DEFNS], ['assoc', NSB], ['xassoc', DEFNS, NSB], ['xassoc', NSB, DEFNS],
            ['lone', DEFNS], ['lone', NSB], ['open', DEFNS], ['nsprovider']]
    return out


def step_enabled(conn, step):
    """the step's own action is not done yet"""
    kind = step[0]
    if kind == 'ns':
        return not has_ns(conn, step[1])
    if kind == 'schema0':
        return not has_class(conn, step[1], 'TST_A')
    if kind == 'schema':
        return not has_class(conn, step[1], 'TST_AB')
    if kind == 'inst':
        return not has_inst(conn, step[1], ipath(step[2], INST_IDS[step[2]]))
    if kind == 'assoc':
        return not has_inst(conn, step[1], assoc_path(step[1], step[1]))
    if kind == 'xassoc':
        p = assoc_path(step[1], step[2])
        return not has_inst(conn, step[1], p) and not has_inst(conn, step[2], p)
    if kind == 'lone':
        return not has_inst(conn, step[1], assoc_path(DEFNS, NSB))
    if kind == 'lone3':
        store, na, nb = step[1], step[2], step[3]
        where = [store] if store is not None else [DEFNS, NSB, NSC]
        return not any(has_ns(conn, ns) and has_inst(conn, ns, assoc_path(na, nb)) for ns in where) \
            or not all(has_ns(conn, ns) and has_class(conn, ns, 'TST_AB') for ns in (DEFNS, NSB, NSC))
    if kind == 'open':
        return not conn._mainprovider.enumeration_contexts
    if kind == 'nsprovider':
        return provider_of(conn, INTEROP, 'CIM_Namespace') is None
    if kind == 'veto':
        return provider_of(conn, step[1], 'TST_Sub') is None
    raise HarnessError('unknown macro step %r' % (step,))


def enabled_steps(conn, tier):
    skip = BOUNDS[tier]['macro_steps_left_out']
    return [s for s in all_steps() if s not in skip and step_enabled(conn, s)]


def new_conn():
    return pywbem_mock.FakedWBEMConnection(default_namespace=DEFNS)


_BUILT = {}


def build_state(history):
    """fresh connection + macro history -> (pickled token, primitive call log); memoised per
    process (the confirmation replays of one run share a few histories)"""
    k = json.dumps(history)
    if k not in _BUILT:
        r = Rec(new_conn())
        for step in history:
            apply_step(r, step)
        _BUILT[k] = (clone_token(r.conn), r.log)
    return _BUILT[k]


_STATES = {}
_FRONTIER = []


def _expand(arg):
    i, tier = arg
    st = _FRONTIER[i]
    out = []
    for step in enabled_steps(load(st['token']), tier):
        r = Rec(load(st['token']))
        try:
            apply_step(r, step)
        except HarnessError:
            raise
        except Exception:   # noqa: pywbem rejected the step: not a valid step in this state
            out.append((step, None, None, None))
            continue
        out.append((step, state_key(r.conn), clone_token(r.conn), r.log))
    return out


def start_states(depth, tier):
    """BFS over macro steps -> list of dict(key, history, token, log, depth) in BFS order"""
    if (depth, tier) in _STATES:
        return _STATES[(depth, tier)]
    global _FRONTIER
    c0 = new_conn()
    first = dict(key=state_key(c0), history=[], token=clone_token(c0), log=[], depth=0)
    seen = {first['key']}
    states = [first]
    frontier = [first]
    rejected = 0
    for d in range(depth):
        _FRONTIER = frontier
        args = [(i, tier) for i in range(len(frontier))]
        import multiprocessing
        nproc = min(16, os.cpu_count() or 1, len(frontier))
        if nproc > 1 and not multiprocessing.current_process().daemon and \
                not os.environ.get('C11_SERIAL_BFS'):
            with multiprocessing.get_context('fork').Pool(nproc) as pool:
                results = pool.map(_expand, args, chunksize=1)
        else:
            results = [_expand(a) for a in args]
        nxt = []
        for st, res in zip(frontier, results):
            for step, k, token, log in res:
                if k is None:
                    rejected += 1
                    continue
                if k in seen:
                    continue
                seen.add(k)
                new = dict(key=k, history=st['history'] + [step], token=token,
                           log=st['log'] + log, depth=d + 1)
                states.append(new)
                nxt.append(new)
        frontier = nxt
    _FRONTIER = []
    _STATES[(depth, tier)] = states
    _STATES[(depth, tier, 'rejected')] = rejected
    return states


# ------------------------------------------------------------------------------------------
# calling pywbem

_CODENAMES = {getattr(pywbem, _n): _n for _n in dir(pywbem) if _n.startswith('CIM_ERR_')}


def exc_class(exc):
    name = type(exc).__name__
    if isinstance(exc, CIMError):
        return '%s:%s' % (name, _CODENAMES.get(exc.status_code, exc.status_code))
    ce = getattr(exc, 'cim_error', None)
    if isinstance(ce, CIMError):
        return '%s:%s' % (name, _CODENAMES.get(ce.status_code, ce.status_code))
    return name


def attempt(fn, conn):
    """-> ('ok', result) | ('raised', exception class text)"""
    try:
        return 'ok', fn(conn)
    except Exception as exc:   # noqa: any exception of the code under test = the call failed
        return 'raised', exc_class(exc)


# ------------------------------------------------------------------------------------------
# batch productions

MOF_FILLERS = {
    'Q': 'Qualifier NQ_F : string = null, Scope(any);',
    'C': 'class N_FC { uint32 x; };',
    'S': 'class N_FS : TST_A { uint8 z; };',
    'I': 'instance of TST_A { id = 7; s = "filler"; };',
}

# describe_diff() line that each filler leaves behind
FILLER_EFFECT = {
    'Q': 'qualifiers: +%s:NQ_F' % DEFNS,
    'C': 'classes: +%s:N_FC' % DEFNS,
    'S': 'classes: +%s:N_FS' % DEFNS,
    'I': 'instances: +%s:TST_A.id=7' % DEFNS,
}

MOF_BAD = {
    'dup-class': 'class TST_A { [Key] uint32 id; string s; string extra; };',
    'dup-qualifier': 'Qualifier Key : boolean = false, Scope(property, reference), '
                     'Flavor(DisableOverride, ToSubclass);',
    'dup-instance': 'instance of TST_A { id = 1; s = "dup"; };',
    'missing-superclass': 'class N_BAD : TST_Missing { uint32 x; };',
    'missing-reference-class': '[Association] class N_BAD { [Key] TST_Missing REF r; '
                               '[Key] TST_A REF a; };',
    'undeclared-qualifier': '[NoSuchQual] class N_BAD { uint32 x; };',
    'qualifier-scope': '[Key] class N_BAD { uint32 x; };',
    'qualifier-type': 'class N_BAD { [Key("yes")] uint32 x; };',
    'non-overridable': 'class N_BAD : TST_A { [Override("id"), Key(false)] uint32 id; };',
    'key-missing': 'instance of TST_A { s = "nokey"; };',
    'type-mismatch': 'instance of TST_A { id = "abc"; };',
    'unknown-namespace-pragma': '#pragma namespace ("root/nope")\nclass N_BAD { uint32 x; };',
    'syntax-error': 'class N_BAD { uint32 ; };',
    'missing-include': '#pragma include ("c11_no_such_file.mof")',
}
MOF_BAD_EXTRA = {
    'unknown-class-instance': 'instance of TST_Missing { id = 1; };',
    'unknown-property': 'instance of TST_A { id = 8; nope = 1; };',
    'undefined-alias': 'instance of TST_AB { a = $nope; b = $nope2; };',
    'dup-without-override': 'class N_BAD : TST_A { string s; };',
    'ref-in-non-assoc': 'class N_BAD { TST_A REF r; };',
}


def _q(name, value=True, type=None, **kw):
    return CIMQualifier(name, value, type=type, **kw)


def _keyprop(name='id', typ='uint32'):
    return CIMProperty(name, None, type=typ, qualifiers=[_q('Key', True)])


def _prop(name, typ='uint32', **kw):
    return CIMProperty(name, None, type=typ, **kw)


def _ref(name, cls, key=True):
    return CIMProperty(name, None, type='reference', reference_class=cls,
                       qualifiers=[_q('Key', True)] if key else [])


def obj_filler(tag):
    if tag == 'Q':
        return CIMQualifierDeclaration('NQ_F', 'string', scopes={'ANY': True})
    if tag == 'C':
        return CIMClass('N_FC', properties=[_prop('x')])
    if tag == 'S':
        return CIMClass('N_FS', superclass='TST_A', properties=[_prop('z', 'uint8')])
    if tag == 'I':
        return CIMInstance('TST_A', {'id': Uint32(7), 's': 'filler'}, path=ipath('TST_A', 7))
    raise HarnessError('unknown filler %r' % tag)


def bad_class(reason, name='N_BAD', modify=False):
    """CIMClass objects that the server rejects (shared by add_cimobjects and Create/ModifyClass)"""
    if reason == 'missing-superclass':
        return CIMClass(name, superclass='TST_Missing', properties=[_prop('x')])
    if reason == 'missing-reference-class':
        return CIMClass(name, qualifiers=[_q('Association', True)],
                        properties=[_ref('r', 'TST_Missing'), _ref('a', 'TST_A')])
    if reason == 'missing-embedded-class':
        return CIMClass(name, properties=[
            CIMProperty('e', None, type='string',
                        qualifiers=[_q('EmbeddedInstance', 'TST_Missing')])])
    if reason == 'undeclared-qualifier':
        return CIMClass(name, qualifiers=[_q('NoSuchQual', True)], properties=[_prop('x')])
    if reason == 'qualifier-scope':
        return CIMClass(name, qualifiers=[_q('Key', True)], properties=[_prop('x')])
    if reason == 'qualifier-type':
        return CIMClass(name, properties=[
            CIMProperty('x', None, type='uint32', qualifiers=[_q('Key', 'yes', type='string')])])
    if reason == 'non-overridable':
        return CIMClass(name, superclass='TST_A', properties=[
            CIMProperty('id', None, type='uint32',
                        qualifiers=[_q('Override', 'id'), _q('Key', False)])])
    if reason == 'dup-without-override':
        return CIMClass(name, superclass='TST_A', properties=[_prop('s', 'string')])
    if reason == 'ref-in-non-assoc':
        return CIMClass(name, properties=[_ref('r', 'TST_A', key=False)])
    raise HarnessError('unknown class rejection reason %r' % reason)


OBJ_BAD = ['dup-class', 'dup-qualifier', 'dup-instance', 'missing-superclass',
           'missing-reference-class', 'undeclared-qualifier', 'qualifier-scope', 'qualifier-type',
           'non-overridable', 'key-missing', 'type-mismatch', 'invalid-object-type']
OBJ_BAD_EXTRA = ['dup-without-override', 'ref-in-non-assoc', 'missing-embedded-class',
                 'unknown-class-instance', 'nested-list-with-dup-class']


def obj_bad(reason):
    if reason == 'dup-class':
        return CIMClass('TST_A', properties=[_keyprop(), _prop('s', 'string'), _prop('extra', 'string')])
    if reason == 'dup-qualifier':
        return CIMQualifierDeclaration('Key', 'boolean', value=False,
                                       scopes={'PROPERTY': True, 'REFERENCE': True},
                                       overridable=False, tosubclass=True)
    if reason == 'dup-instance':
        return CIMInstance('TST_A', {'id': Uint32(1), 's': 'dup'}, path=ipath('TST_A', 1))
    if reason == 'key-missing':
        return CIMInstance('TST_A', {'s': 'nokey'})       # add_cimobjects: "must include a path"
    if reason == 'type-mismatch':
        return CIMInstance('TST_A', {'id': 'abc'}, path=CIMInstanceName('TST_A', {'id': 'abc'}))
    if reason == 'invalid-object-type':
        return 'not a CIM object'
    if reason == 'unknown-class-instance':
        return CIMInstance('TST_Missing', {'id': Uint32(1)}, path=ipath('TST_Missing', 1))
    if reason == 'nested-list-with-dup-class':
        return [CIMQualifierDeclaration('NQ_N', 'string', scopes={'ANY': True}), obj_bad('dup-class')]
    return bad_class(reason)


def batch_reasons(api, tier):
    extra = BOUNDS[tier]['extra_reasons']
    if api == 'add_cimobjects':
        return OBJ_BAD + (OBJ_BAD_EXTRA if extra else [])
    return list(MOF_BAD) + (list(MOF_BAD_EXTRA) if extra else [])


def mof_text(tag):
    if tag in MOF_FILLERS:
        return MOF_FILLERS[tag]
    reason = tag[4:]
    return MOF_BAD[reason] if reason in MOF_BAD else MOF_BAD_EXTRA[reason]


def _write(path, text):
    with open(path, 'w', encoding='utf-8') as f:
        f.write(text)


def batch_call(api, tags):
    """prepare everything outside the observed call; -> (callable(conn), text for the witness)"""
    if api == 'add_cimobjects':
        objs = [obj_filler(t) if t in MOF_FILLERS else obj_bad(t[4:]) for t in tags]
        return (lambda conn: conn.add_cimobjects(objs, namespace=None),
                'conn.add_cimobjects(%r)' % (objs,))
    texts = [mof_text(t) for t in tags]
    mof = '\n'.join(texts) + '\n'
    if api == 'compile_mof_string':
        return (lambda conn: conn.compile_mof_string(mof, namespace=None),
                'conn.compile_mof_string(%r)' % mof)
    if api == 'compile_mof_file':
        path = os.path.join(scratch(), 'batch.mof')
        _write(path, mof)
        return (lambda conn: conn.compile_mof_file(path, namespace=None),
                'conn.compile_mof_file(<file containing %r>)' % mof)
    if api == 'compile_schema_classes':
        d = os.path.join(scratch(), 'schema')
        shutil.rmtree(d, ignore_errors=True)
        os.makedirs(os.path.join(d, 'mofs'))
        names = ['P%d' % i for i in range(len(texts))]
        for n, t in zip(names, texts):
            _write(os.path.join(d, 'mofs', n + '.mof'), t + '\n')
        pragma = os.path.join(d, 'schema_pragma.mof')
        _write(pragma, ''.join('#pragma include ("mofs/%s.mof")\n' % n for n in names))
        return (lambda conn: conn.compile_schema_classes(names, pragma, namespace=None),
                'conn.compile_schema_classes(%r, <pragma file including one file per production: %r>)'
                % (names, texts))
    raise HarnessError('unknown batch api %r' % api)


# ------------------------------------------------------------------------------------------
# follow-up operations (valid operations; results compared with a clone that never saw the failure)

def _fu_list(conn, mof):
    fu = [
        ('SetQualifier(FU_Q)', lambda c: c.SetQualifier(
            CIMQualifierDeclaration('FU_Q', 'string', scopes={'ANY': True}), namespace=DEFNS)),
        ('CreateClass(N_BAD)', lambda c: c.CreateClass(
            CIMClass('N_BAD', properties=[_prop('id', 'string'), _prop('y', 'string')]), namespace=DEFNS)),
        ('CreateInstance(N_BAD)', lambda c: c.CreateInstance(
            CIMInstance('N_BAD', {'id': 'x'}), namespace=DEFNS)),
    ]
    if has_class(conn, DEFNS, 'TST_A'):
        fu.append(('CreateInstance(TST_A.id=77)',
                   lambda c: c.CreateInstance(plain_inst('TST_A', 77), namespace=DEFNS)))
        fu.append(('ModifyInstance(TST_A.id=77)', lambda c: c.ModifyInstance(
            CIMInstance('TST_A', {'s': 'm'}, path=ipath('TST_A', 77, DEFNS)))))
    fu += [
        ('add_namespace(root/fu)', lambda c: c.add_namespace('root/fu')),
        ('remove_namespace(root/fu)', lambda c: c.remove_namespace('root/fu')),
    ]
    if mof:
        fu.append((FU_COMPILE, lambda c: c.compile_mof_string(
            'class FU_D { string t; };\ninstance of N_BAD { id = "z"; y = "w"; };\n', namespace=DEFNS)))
    return fu


FU_COMPILE = 'compile_mof_string(class FU_D + instance of N_BAD)'


def _retdump(r):
    try:
        return odump(r)
    except Exception:   # noqa
        return repr(type(r))


def run_followups(conn, mof, only=None):
    """-> list of (label, outcome, result dump); `only`: labels to execute (None: all)"""
    out = []
    for label, fn in _fu_list(conn, mof):
        if only is not None and label not in only:
            continue
        tag, val = attempt(fn, conn)
        out.append((label, tag if tag == 'ok' else 'raised:' + val, _retdump(val) if tag == 'ok' else None))
    return out


class FollowupRef:
    """clean side of the follow-up comparison, computed once per (start state incl. set-up, mof):
    the follow-ups that succeed on a clone that never saw the failed call, their results and the
    final repository"""
    def __init__(self):
        self.cache = {}

    def get(self, token_key, token, mof):
        k = (token_key, mof)
        if k not in self.cache:
            conn = load(token)
            res = run_followups(conn, mof)
            ok = [lab for lab, out, _ in res if out == 'ok']
            if len(ok) != len(res):
                conn = load(token)
                res = run_followups(conn, mof, only=set(ok))
            self.cache[k] = (ok, res, Snap(conn), mof)
        return self.cache[k]


def check_usable(conn, ref):
    """-> None or (label of the first difference, expected, observed)"""
    ok, res, final, mof = ref
    got = run_followups(conn, mof, only=set(ok))
    for (lab, out, ret), (lab2, out2, ret2) in zip(res, got):
        if out2 != out:
            return lab, '%s -> %s' % (lab, out), '%s -> %s' % (lab2, out2)
        if ret2 != ret:
            return lab, '%s returns %s' % (lab, json.dumps(ret)[:300]), \
                '%s returns %s' % (lab2, json.dumps(ret2)[:300])
    after = Snap(conn)
    if not final.same(after):
        kinds = changed_kinds(final.strict(), after.strict())
        return 'final-state:' + '+'.join(kinds), 'same repository as on the clone after the follow-ups', \
            describe_diff(final.strict(), after.strict())
    return None


# ------------------------------------------------------------------------------------------
# the oracle for one failing call

def judge(acc, conn, call, text, sig, case, key, ref_get, log, kept=None):
    """run `call` on `conn` and evaluate the oracle; records the case and violations in acc.
    kept: diff lines that mean "an earlier valid production of the batch was kept" - a changed
    store kind with other differences is reported as '<kind>:beyond-earlier-productions'"""
    before = Snap(conn)
    tag, val = attempt(call, conn)
    if tag == 'ok':
        acc.case(key, nontrivial=False, outcome='%s:accepted' % sig['api'], calls=1)
        return 'accepted'
    after = Snap(conn)
    witness = log + [text + '   # raises ' + val]
    acc.count('raised:' + val.split(':')[0])
    if not before.same(after):
        kinds = changed_kinds(before.strict(), after.strict())
        diff = describe_diff(before.strict(), after.strict())
        for kind in kinds:
            if kept is not None and any(d.startswith(kind + ':') and d not in kept for d in diff):
                kind += ':beyond-earlier-productions'
            acc.violation(dict(sig, what='repository-changed', changed=kind), case,
                          'the call raised %s, so the repository is unchanged' % val,
                          dict(changed=diff, calls=witness))
        acc.case(key, nontrivial=True, outcome='%s:raised-and-CHANGED' % sig['api'], calls=1)
        return 'changed'
    ncalls = 1
    out = '%s:raised-unchanged' % sig['api']
    if ref_get is not None:
        ref = ref_get()
        bad = check_usable(conn, ref)
        ncalls += len(ref[0])
        if bad:
            lab, exp, obs = bad
            acc.violation(dict(sig, what='unusable-after-failure', changed=lab), case, exp,
                          dict(observed=obs, calls=witness))
            out = '%s:raised-unchanged-UNUSABLE' % sig['api']
    acc.case(key, nontrivial=True, outcome=out, calls=ncalls)
    return 'unchanged'


# ------------------------------------------------------------------------------------------
# batch sub-check

def filler_selections(pool, maxlen):
    """ordered selections without repetition of 0..maxlen-1 fillers"""
    out = []
    for n in range(0, maxlen):
        out.extend(list(p) for p in itertools.permutations(pool, n))
    return out


def run_batch_case(acc, st, api, reason, fillers, k, fref):
    tags = list(fillers)
    tags.insert(k, 'BAD:' + reason)
    call, text = batch_call(api, tags)
    conn = load(st['token'])
    sig = dict(check='batch', api=api, reason=reason)
    case = dict(check='batch', history=st['history'], api=api, reason=reason, fillers=list(fillers), k=k)
    key = ('batch', api, st['key'], reason, tuple(fillers), k)
    # the follow-up that compiles MOF (70 ms) only after the invalid production alone
    mof = api != 'add_cimobjects' and not fillers
    kept = set(FILLER_EFFECT[t] for t in fillers[:k])
    return judge(acc, conn, call, text, sig, case, key,
                 lambda: fref.get(st['key'], st['token'], mof), st.get('log', []), kept)


def usable_fillers(acc, st, api, pool):
    """fillers that pywbem accepts on their own in this state (each one is a case of its own:
    a valid production that is rejected in this state is a failing call like any other)"""
    ok = []
    for tag in pool:
        call, text = batch_call(api, [tag])
        conn = load(st['token'])
        sig = dict(check='batch', api=api, reason='filler-rejected')
        case = dict(check='batch', history=st['history'], api=api, reason='filler-rejected',
                    fillers=[tag], k=-1)
        key = ('batch', api, st['key'], 'filler', (tag,), -1)
        if judge(acc, conn, call, text, sig, case, key, None, st.get('log', [])) == 'accepted':
            ok.append(tag)
    return ok


def run_batch(acc, st, api, reasons, tier, fref):
    b = BOUNDS[tier]
    pool = usable_fillers(acc, st, api, b['fillers'])
    sels = filler_selections(pool, _batch_len(tier, api, st))
    for reason in reasons:
        # the invalid production alone decides whether the reason is live in this state
        res = run_batch_case(acc, st, api, reason, [], 0, fref)
        if res == 'accepted':
            acc.count('reason-not-live-in-state')
            continue
        for sel in sels:
            if not sel:
                continue
            for k in range(len(sel) + 1):
                run_batch_case(acc, st, api, reason, sel, k, fref)


# ------------------------------------------------------------------------------------------
# single operations

def _single_cases():
    """-> ordered dict id -> dict(api, reason, setup, call(conn), text)"""
    cases = []

    def add(api, reason, text, call, setup=(), variant=''):
        cid = '%s/%s%s' % (api, reason, variant)
        cases.append((cid, dict(api=api, reason=reason, setup=[list(s) for s in setup], call=call,
                                text=text)))

    for ns in (DEFNS, NSB):
        v = '@' + ns
        o = other(ns)
        # ---- CreateClass
        add('CreateClass', 'already-exists', 'conn.CreateClass(CIMClass("TST_A", [key id]), %r)' % ns,
            lambda c, ns=ns: c.CreateClass(CIMClass('TST_A', properties=[_keyprop()]), namespace=ns),
            [['schema0', ns]], v)
        for reason in ('missing-superclass', 'missing-reference-class', 'missing-embedded-class',
                       'undeclared-qualifier', 'qualifier-scope', 'qualifier-type', 'non-overridable',
                       'dup-without-override', 'ref-in-non-assoc'):
            add('CreateClass', reason, 'conn.CreateClass(%r, %r)' % (bad_class(reason), ns),
                lambda c, ns=ns, reason=reason: c.CreateClass(bad_class(reason), namespace=ns),
                [['schema0', ns]], v)
        # ---- ModifyClass
        add('ModifyClass', 'not-found', 'conn.ModifyClass(CIMClass("TST_Missing"), %r)' % ns,
            lambda c, ns=ns: c.ModifyClass(CIMClass('TST_Missing', properties=[_prop('x')]), namespace=ns),
            [['schema0', ns]], v)
        add('ModifyClass', 'has-subclasses', 'conn.ModifyClass(CIMClass("TST_A", [key id, extra]), %r)' % ns,
            lambda c, ns=ns: c.ModifyClass(
                CIMClass('TST_A', properties=[_keyprop(), _prop('extra', 'string')]), namespace=ns),
            [['schema0', ns]], v)
        add('ModifyClass', 'has-instances', 'conn.ModifyClass(CIMClass("TST_B", [key id, extra]), %r)' % ns,
            lambda c, ns=ns: c.ModifyClass(
                CIMClass('TST_B', properties=[_keyprop(), _prop('extra', 'string')]), namespace=ns),
            [['inst', ns, 'TST_B']], v)
        add('ModifyClass', 'superclass-mismatch', 'conn.ModifyClass(CIMClass("TST_Sub", superclass=None), %r)' % ns,
            lambda c, ns=ns: c.ModifyClass(CIMClass('TST_Sub', properties=[_prop('q', 'uint16')]), namespace=ns),
            [['schema0', ns]], v + '/none')
        add('ModifyClass', 'superclass-mismatch', 'conn.ModifyClass(CIMClass("TST_Sub", superclass="TST_B"), %r)' % ns,
            lambda c, ns=ns: c.ModifyClass(
                CIMClass('TST_Sub', superclass='TST_B', properties=[_prop('q', 'uint16')]), namespace=ns),
            [['schema0', ns]], v + '/other')
        add('ModifyClass', 'missing-superclass', 'conn.ModifyClass(CIMClass("TST_Sub", superclass="TST_Missing"), %r)' % ns,
            lambda c, ns=ns: c.ModifyClass(
                CIMClass('TST_Sub', superclass='TST_Missing', properties=[_prop('q', 'uint16')]), namespace=ns),
            [['schema0', ns]], v)
        for reason in ('undeclared-qualifier', 'qualifier-scope', 'qualifier-type', 'non-overridable',
                       'dup-without-override', 'missing-embedded-class'):
            def mk(reason=reason):
                cls = bad_class(reason, name='TST_Sub')
                cls.superclass = 'TST_A'
                return cls
            add('ModifyClass', reason, 'conn.ModifyClass(%r, %r)' % (mk(), ns),
                lambda c, ns=ns, mk=mk: c.ModifyClass(mk(), namespace=ns), [['schema0', ns]], v)
        add('ModifyClass', 'missing-reference-class',
            'conn.ModifyClass(CIMClass("TST_AB", [a REF TST_A, b REF TST_Missing]), %r)' % ns,
            lambda c, ns=ns: c.ModifyClass(
                CIMClass('TST_AB', qualifiers=[_q('Association', True)],
                         properties=[_ref('a', 'TST_A'), _ref('b', 'TST_Missing')]), namespace=ns),
            [['schema', ns]], v)
        # ---- DeleteClass
        add('DeleteClass', 'not-found', 'conn.DeleteClass("TST_Missing", %r)' % ns,
            lambda c, ns=ns: c.DeleteClass('TST_Missing', namespace=ns), [['schema0', ns]], v)
        add('DeleteClass', 'has-subclasses-and-instances', 'conn.DeleteClass("TST_A", %r)' % ns,
            lambda c, ns=ns: c.DeleteClass('TST_A', namespace=ns), [['inst', ns, 'TST_Sub']], v)
        # ---- qualifier declarations
        add('SetQualifier', 'replace-existing', 'conn.SetQualifier(<Key declaration>, %r)' % ns,
            lambda c, ns=ns: c.SetQualifier(obj_bad('dup-qualifier'), namespace=ns), [['schema0', ns]], v)
        add('DeleteQualifier', 'in-use', 'conn.DeleteQualifier("Key", %r)' % ns,
            lambda c, ns=ns: c.DeleteQualifier('Key', namespace=ns), [['schema0', ns]], v)
        add('DeleteQualifier', 'not-found', 'conn.DeleteQualifier("NoSuchQual", %r)' % ns,
            lambda c, ns=ns: c.DeleteQualifier('NoSuchQual', namespace=ns), [['schema0', ns]], v)
        # ---- CreateInstance
        add('CreateInstance', 'invalid-class', 'conn.CreateInstance(CIMInstance("TST_Missing", id=1), %r)' % ns,
            lambda c, ns=ns: c.CreateInstance(plain_inst('TST_Missing', 1), namespace=ns), [['schema0', ns]], v)
        add('CreateInstance', 'already-exists', 'conn.CreateInstance(CIMInstance("TST_A", id=1), %r)' % ns,
            lambda c, ns=ns: c.CreateInstance(plain_inst('TST_A', 1), namespace=ns), [['inst', ns, 'TST_A']], v)
        add('CreateInstance', 'key-missing', 'conn.CreateInstance(CIMInstance("TST_A", s="x"), %r)' % ns,
            lambda c, ns=ns: c.CreateInstance(CIMInstance('TST_A', {'s': 'x'}), namespace=ns),
            [['schema0', ns]], v)
        add('CreateInstance', 'type-mismatch', 'conn.CreateInstance(CIMInstance("TST_A", id="abc"), %r)' % ns,
            lambda c, ns=ns: c.CreateInstance(CIMInstance('TST_A', {'id': 'abc'}), namespace=ns),
            [['schema0', ns]], v)
        add('CreateInstance', 'array-mismatch', 'conn.CreateInstance(CIMInstance("TST_A", id=8, s=["x"]), %r)' % ns,
            lambda c, ns=ns: c.CreateInstance(plain_inst('TST_A', 8, s=['x']), namespace=ns),
            [['schema0', ns]], v)
        add('CreateInstance', 'unknown-property', 'conn.CreateInstance(CIMInstance("TST_A", id=8, nope=1), %r)' % ns,
            lambda c, ns=ns: c.CreateInstance(plain_inst('TST_A', 8, nope=Uint32(1)), namespace=ns),
            [['schema0', ns]], v)
        # association instances, one namespace
        add('CreateInstance', 'assoc-endpoint-missing',
            'conn.CreateInstance(TST_AB(a -> %s:TST_A.id=99, b -> %s:TST_B.id=1), %r)' % (ns, ns, ns),
            lambda c, ns=ns: c.CreateInstance(assoc_inst(ns, ns, id_a=99), namespace=ns),
            [['schema', ns], ['inst', ns, 'TST_B']], v)
        add('CreateInstance', 'assoc-endpoint-with-host',
            'conn.CreateInstance(TST_AB(a -> //h/%s:TST_A.id=1, b -> %s:TST_B.id=1), %r)' % (ns, ns, ns),
            lambda c, ns=ns: c.CreateInstance(assoc_inst(ns, ns, host='h'), namespace=ns),
            [['schema', ns], ['inst', ns, 'TST_A'], ['inst', ns, 'TST_B']], v)
        add('CreateInstance', 'assoc-already-exists',
            'conn.CreateInstance(TST_AB(a -> %s:TST_A.id=1, b -> %s:TST_B.id=1), %r)' % (ns, ns, ns),
            lambda c, ns=ns: c.CreateInstance(assoc_inst(ns, ns), namespace=ns), [['assoc', ns]], v)
        # multi-namespace association instances: a in ns, b in the other namespace o
        xtext = 'conn.CreateInstance(TST_AB(a -> %s:TST_A.id=1, b -> %s:TST_B.id=%%d), %r)' % (ns, o, ns)
        add('CreateInstance', 'multins-endpoint-missing-in-second-ns', xtext % 99,
            lambda c, ns=ns, o=o: c.CreateInstance(assoc_inst(ns, o, id_b=99), namespace=ns),
            [['schema', ns], ['schema', o], ['inst', ns, 'TST_A']], v)
        add('CreateInstance', 'multins-second-ns-missing',
            'conn.CreateInstance(TST_AB(a -> %s:TST_A.id=1, b -> root/nope:TST_B.id=1), %r)' % (ns, ns),
            lambda c, ns=ns: c.CreateInstance(assoc_inst(ns, NOPE), namespace=ns),
            [['schema', ns], ['inst', ns, 'TST_A']], v)
        add('CreateInstance', 'multins-class-missing-in-second-ns', xtext % 1,
            lambda c, ns=ns, o=o: c.CreateInstance(assoc_inst(ns, o), namespace=ns),
            [['schema', ns], ['inst', ns, 'TST_A'], ['schema0', o], ['inst', o, 'TST_B']], v)
        add('CreateInstance', 'multins-exists-in-both-ns', xtext % 1,
            lambda c, ns=ns, o=o: c.CreateInstance(assoc_inst(ns, o), namespace=ns),
            [['xassoc', ns, o]], v)
        add('CreateInstance', 'multins-key-missing',
            'conn.CreateInstance(TST_AB(a -> %s:TST_A.id=1), %r)' % (o, ns),
            lambda c, ns=ns, o=o: c.CreateInstance(assoc_inst(o, o, with_b=False), namespace=ns),
            [['schema', ns], ['schema', o], ['inst', o, 'TST_A']], v)
        add('CreateInstance', 'namespace-case-variant-in-reference',
            'conn.CreateInstance(TST_AB(a -> %s:TST_A.id=1, b -> %s:TST_B.id=1), %r)' % (ns.upper(), ns, ns),
            lambda c, ns=ns: c.CreateInstance(assoc_inst(ns.upper(), ns), namespace=ns),
            [['schema', ns], ['inst', ns, 'TST_A'], ['inst', ns, 'TST_B']], v)
        # ---- ModifyInstance
        add('ModifyInstance', 'not-found', 'conn.ModifyInstance(TST_A.id=99 in %r)' % ns,
            lambda c, ns=ns: c.ModifyInstance(CIMInstance('TST_A', {'s': 'm'}, path=ipath('TST_A', 99, ns))),
            [['schema0', ns]], v)
        add('ModifyInstance', 'invalid-class', 'conn.ModifyInstance(TST_Missing.id=1 in %r)' % ns,
            lambda c, ns=ns: c.ModifyInstance(
                CIMInstance('TST_Missing', {'s': 'm'}, path=ipath('TST_Missing', 1, ns))),
            [['schema0', ns]], v)
        add('ModifyInstance', 'key-change', 'conn.ModifyInstance(TST_A.id=1 with id=2, s="m" in %r)' % ns,
            lambda c, ns=ns: c.ModifyInstance(keychange_inst(ns)), [['inst', ns, 'TST_A']], v)
        add('ModifyInstance', 'type-mismatch', 'conn.ModifyInstance(TST_A.id=1 with s=Uint32(5) in %r)' % ns,
            lambda c, ns=ns: c.ModifyInstance(
                CIMInstance('TST_A', {'s': Uint32(5)}, path=ipath('TST_A', 1, ns))),
            [['inst', ns, 'TST_A']], v)
        add('ModifyInstance', 'unknown-property', 'conn.ModifyInstance(TST_A.id=1 with s="m", nope=1 in %r)' % ns,
            lambda c, ns=ns: c.ModifyInstance(
                CIMInstance('TST_A', [('s', 'm'), ('nope', Uint32(1))], path=ipath('TST_A', 1, ns))),
            [['inst', ns, 'TST_A']], v)
        add('ModifyInstance', 'propertylist-unknown',
            'conn.ModifyInstance(TST_A.id=1 with s="m" in %r, PropertyList=["s", "nope"])' % ns,
            lambda c, ns=ns: c.ModifyInstance(
                CIMInstance('TST_A', {'s': 'm'}, path=ipath('TST_A', 1, ns)), PropertyList=['s', 'nope']),
            [['inst', ns, 'TST_A']], v)
        add('ModifyInstance', 'classname-mismatch', 'conn.ModifyInstance(CIMInstance("TST_B", path=TST_A.id=1 in %r))' % ns,
            lambda c, ns=ns: c.ModifyInstance(CIMInstance('TST_B', {'id': Uint32(1)}, path=ipath('TST_A', 1, ns))),
            [['inst', ns, 'TST_A']], v)

        def amod(path_ns, a_ns, b_ns, **props):
            lst = [CIMProperty('note', 'modified', type='string')]
            for pn, val in props.items():
                lst.append(CIMProperty(pn, val, type='reference', reference_class='TST_A'))
            return CIMInstance('TST_AB', lst, path=assoc_path(a_ns, b_ns, path_ns))
        add('ModifyInstance', 'assoc-ref-endpoint-missing',
            'conn.ModifyInstance(TST_AB(%s,%s) in %r with note="modified", c -> %s:TST_A.id=99)' % (ns, ns, ns, ns),
            lambda c, ns=ns, amod=amod: c.ModifyInstance(amod(ns, ns, ns, c=ipath('TST_A', 99, ns))),
            [['assoc', ns]], v)
        add('ModifyInstance', 'assoc-ref-none',
            'conn.ModifyInstance(TST_AB(%s,%s) in %r with note="modified", c=None)' % (ns, ns, ns),
            lambda c, ns=ns, amod=amod: c.ModifyInstance(amod(ns, ns, ns, c=None)), [['assoc', ns]], v)
        add('ModifyInstance', 'multins-ref-endpoint-missing-in-second-ns',
            'conn.ModifyInstance(TST_AB(%s,%s) in %r with note="modified", c -> %s:TST_A.id=99)' % (ns, ns, ns, o),
            lambda c, ns=ns, o=o, amod=amod: c.ModifyInstance(amod(ns, ns, ns, c=ipath('TST_A', 99, o))),
            [['assoc', ns], ['schema', o]], v)
        add('ModifyInstance', 'multins-new-ref-to-second-ns-without-copy',
            'conn.ModifyInstance(TST_AB(%s,%s) in %r with note="modified", c -> %s:TST_A.id=1)' % (ns, ns, ns, o),
            lambda c, ns=ns, o=o, amod=amod: c.ModifyInstance(amod(ns, ns, ns, c=ipath('TST_A', 1, o))),
            [['assoc', ns], ['inst', o, 'TST_A']], v)
        add('ModifyInstance', 'multins-copy-missing-in-second-ns',
            'conn.ModifyInstance(TST_AB(root/cimv2,root/b) in %r with note="modified")  # stored in %r only' % (ns, ns),
            lambda c, ns=ns, amod=amod: c.ModifyInstance(amod(ns, DEFNS, NSB)), [['lone', ns]], v)
        add('ModifyInstance', 'multins-class-missing-in-second-ns',
            'conn.ModifyInstance(TST_AB(root/cimv2,root/b) in %r with note="modified")  # no TST_AB in %r' % (ns, o),
            lambda c, ns=ns, amod=amod: c.ModifyInstance(amod(ns, DEFNS, NSB)),
            [['schema0', o], ['lone', ns]], v)
        # ---- DeleteInstance
        add('DeleteInstance', 'not-found', 'conn.DeleteInstance(TST_A.id=99 in %r)' % ns,
            lambda c, ns=ns: c.DeleteInstance(ipath('TST_A', 99, ns)), [['schema0', ns]], v)
        add('DeleteInstance', 'invalid-class', 'conn.DeleteInstance(TST_Missing.id=1 in %r)' % ns,
            lambda c, ns=ns: c.DeleteInstance(ipath('TST_Missing', 1, ns)), [['schema0', ns]], v)
        add('DeleteInstance', 'multins-copy-missing-in-second-ns',
            'conn.DeleteInstance(TST_AB(root/cimv2,root/b) in %r)  # stored in %r only' % (ns, ns),
            lambda c, ns=ns: c.DeleteInstance(assoc_path(DEFNS, NSB, ns)), [['lone', ns]], v)
        # ---- remove_namespace
        add('remove_namespace', 'not-empty', 'conn.remove_namespace(%r)' % ns,
            lambda c, ns=ns: c.remove_namespace(ns), [['schema0', ns]], v)
    # the multi-namespace "exists in one namespace only" cases (fixed orientation cimv2 -> b)
    for ns in (DEFNS, NSB):
        for created_in in (DEFNS, NSB):
            add('CreateInstance', 'multins-exists-in-one-ns',
                'conn.CreateInstance(TST_AB(a -> root/cimv2:TST_A.id=1, b -> root/b:TST_B.id=1), %r)'
                '  # instance already stored in %r only' % (created_in, ns),
                lambda c, created_in=created_in: c.CreateInstance(assoc_inst(DEFNS, NSB), namespace=created_in),
                [['lone', ns]], '@%s/stored-in-%s' % (created_in, ns))
    # associations spanning three namespaces: created in `req` with references into the two others;
    # a copy with the same path already exists in exactly one of the three namespaces
    import itertools as _it
    for req, na, nb in _it.permutations((DEFNS, NSB, NSC)):
        for store in (req, na, nb):
            add('CreateInstance', 'multins3-exists-in-one-ns',
                'conn.CreateInstance(TST_AB(a -> %s:TST_A.id=1, b -> %s:TST_B.id=1), %r)'
                '  # instance already stored in %r only' % (na, nb, req, store),
                lambda c, req=req, na=na, nb=nb: c.CreateInstance(assoc_inst(na, nb), namespace=req),
                [['lone3', store, na, nb]],
                '@%s/a-in-%s/b-in-%s/stored-in-%s' % (req, na, nb, 'request-ns' if store == req else
                                                         'a-ns' if store == na else 'b-ns'))
    # ---- pywbem_mock.CIMNamespaceProvider (namespaces are managed through CIM_Namespace instances)
    P = [['nsprovider']]

    def nsinst(name, ccn='CIM_Namespace', full=True, **kw):
        props = {'CreationClassName': ccn}
        if name is not None:
            props['Name'] = name
        if full:
            props.update(ObjectManagerName='om', ObjectManagerCreationClassName='CIM_ObjectManager',
                         SystemName='sys', SystemCreationClassName='CIM_ComputerSystem')
        props.update(kw)
        return CIMInstance('CIM_Namespace', props)

    def nspath(c, name):
        """path of the CIM_Namespace instance that represents namespace `name` (read from the store)"""
        if has_ns(c, INTEROP):
            for p in c.cimrepository.get_instance_store(INTEROP).iter_names():
                if p.classname.lower() == 'cim_namespace' and str(p.keybindings.get('Name', '')).lower() == name:
                    q = p.copy()
                    q.namespace = INTEROP
                    return q
        return CIMInstanceName('CIM_Namespace', {'Name': name}, namespace=INTEROP)
    add('CreateInstance', 'nsprovider-key-property-missing',
        'conn.CreateInstance(CIMInstance("CIM_Namespace", Name="root/new", CreationClassName="CIM_Namespace"), "interop")',
        lambda c: c.CreateInstance(nsinst('root/new', full=False), namespace=INTEROP), P)
    add('CreateInstance', 'nsprovider-name-missing',
        'conn.CreateInstance(CIMInstance("CIM_Namespace", <no Name>), "interop")',
        lambda c: c.CreateInstance(nsinst(None), namespace=INTEROP), P)
    add('CreateInstance', 'nsprovider-creationclassname-mismatch',
        'conn.CreateInstance(CIMInstance("CIM_Namespace", Name="root/new", CreationClassName="Other"), "interop")',
        lambda c: c.CreateInstance(nsinst('root/new', ccn='Other'), namespace=INTEROP), P)
    add('CreateInstance', 'nsprovider-namespace-already-represented',
        'conn.CreateInstance(CIMInstance("CIM_Namespace", Name="root/cimv2", other keys different), "interop")',
        lambda c: c.CreateInstance(nsinst(DEFNS), namespace=INTEROP), P)
    add('CreateInstance', 'nsprovider-second-interop',
        'conn.CreateInstance(CIMInstance("CIM_Namespace", Name="root/interop"), "interop")',
        lambda c: c.CreateInstance(nsinst('root/interop'), namespace=INTEROP), P)
    add('CreateInstance', 'nsprovider-unknown-property',
        'conn.CreateInstance(CIMInstance("CIM_Namespace", Name="root/new", nope=1), "interop")',
        lambda c: c.CreateInstance(nsinst('root/new', nope=Uint32(1)), namespace=INTEROP), P)
    add('ModifyInstance', 'nsprovider-not-supported',
        'conn.ModifyInstance(<CIM_Namespace instance of root/cimv2>)',
        lambda c: c.ModifyInstance(CIMInstance('CIM_Namespace', {'CreationClassName': 'CIM_Namespace'},
                                               path=nspath(c, DEFNS))), P)
    add('DeleteInstance', 'nsprovider-namespace-not-empty',
        'conn.DeleteInstance(<CIM_Namespace instance of root/cimv2>)  # root/cimv2 holds the schema',
        lambda c: c.DeleteInstance(nspath(c, DEFNS)), [['schema0', DEFNS], ['nsprovider']])
    add('DeleteInstance', 'nsprovider-interop',
        'conn.DeleteInstance(<CIM_Namespace instance of interop>)',
        lambda c: c.DeleteInstance(nspath(c, INTEROP)), P)
    add('add_namespace', 'exists', 'conn.add_namespace(%r)  # namespace provider installed' % DEFNS,
        lambda c: c.add_namespace(DEFNS), P, '/with-nsprovider')
    add('remove_namespace', 'interop', 'conn.remove_namespace("interop")  # namespace provider installed',
        lambda c: c.remove_namespace(INTEROP), P, '/with-nsprovider')
    add('DeleteClass', 'instance-delete-refused-by-nsprovider',
        'conn.DeleteClass("CIM_Namespace", "interop")  # namespace provider installed',
        lambda c: c.DeleteClass('CIM_Namespace', namespace=INTEROP), P)
    for ns in (DEFNS, NSB):
        add('DeleteClass', 'instance-delete-refused-by-user-provider',
            'conn.DeleteClass("TST_A", %r)  # instances TST_A.id=1, TST_Sub.id=2; provider refuses '
            'DeleteInstance of TST_Sub' % ns,
            lambda c, ns=ns: c.DeleteClass('TST_A', namespace=ns), [['veto', ns]], '@' + ns)
        add('DeleteInstance', 'refused-by-user-provider', 'conn.DeleteInstance(TST_Sub.id=2 in %r)' % ns,
            lambda c, ns=ns: c.DeleteInstance(ipath('TST_Sub', 2, ns)), [['veto', ns]], '@' + ns)
    # ---- invalid namespace for every operation
    inv = [
        ('CreateClass', lambda c: c.CreateClass(CIMClass('N_BAD', properties=[_prop('x')]), namespace=NOPE)),
        ('ModifyClass', lambda c: c.ModifyClass(CIMClass('TST_A', properties=[_prop('x')]), namespace=NOPE)),
        ('DeleteClass', lambda c: c.DeleteClass('TST_A', namespace=NOPE)),
        ('SetQualifier', lambda c: c.SetQualifier(obj_bad('dup-qualifier'), namespace=NOPE)),
        ('DeleteQualifier', lambda c: c.DeleteQualifier('Key', namespace=NOPE)),
        ('CreateInstance', lambda c: c.CreateInstance(plain_inst('TST_A', 1), namespace=NOPE)),
        ('ModifyInstance', lambda c: c.ModifyInstance(
            CIMInstance('TST_A', {'s': 'm'}, path=ipath('TST_A', 1, NOPE)))),
        ('DeleteInstance', lambda c: c.DeleteInstance(ipath('TST_A', 1, NOPE))),
    ]
    for api, fn in inv:
        add(api, 'invalid-namespace', 'conn.%s(..., namespace=%r)' % (api, NOPE), fn)
    # ---- namespaces
    add('add_namespace', 'exists', 'conn.add_namespace(%r)' % DEFNS, lambda c: c.add_namespace(DEFNS))
    add('add_namespace', 'exists', 'conn.add_namespace("ROOT/CIMV2")',
        lambda c: c.add_namespace('ROOT/CIMV2'), variant='/case-variant')
    add('add_namespace', 'exists', 'conn.add_namespace("/root/cimv2/")',
        lambda c: c.add_namespace('/root/cimv2/'), variant='/slashes')
    add('add_namespace', 'exists', 'conn.add_namespace(%r)  # with an interop namespace present' % NSB,
        lambda c: c.add_namespace(NSB), [['ns', INTEROP], ['ns', NSB]], '/with-interop')
    add('add_namespace', 'second-interop', 'conn.add_namespace("root/interop")  # "interop" exists',
        lambda c: c.add_namespace('root/interop'), [['ns', INTEROP]])
    add('add_namespace', 'none', 'conn.add_namespace(None)', lambda c: c.add_namespace(None))
    add('remove_namespace', 'not-found', 'conn.remove_namespace(%r)' % NOPE,
        lambda c: c.remove_namespace(NOPE))
    add('remove_namespace', 'interop', 'conn.remove_namespace("interop")',
        lambda c: c.remove_namespace(INTEROP), [['ns', INTEROP]])
    add('remove_namespace', 'none', 'conn.remove_namespace(None)', lambda c: c.remove_namespace(None))
    add('remove_namespace', 'not-empty', 'conn.remove_namespace(%r)  # holds one qualifier declaration only' % NSB,
        lambda c: c.remove_namespace(NSB), [['ns', NSB], ['_qual', NSB]], '/qualifier-only')
    out = {}
    for cid, c in cases:
        if cid in out:
            raise HarnessError('duplicate single case id %s' % cid)
        out[cid] = c
    return out


SINGLE = None
SAMPLE_CASES = ['CreateClass/non-overridable@root/cimv2', 'ModifyClass/has-subclasses@root/cimv2',
                'DeleteQualifier/in-use@root/b', 'CreateInstance/multins-class-missing-in-second-ns@root/cimv2',
                'ModifyInstance/multins-copy-missing-in-second-ns@root/b', 'remove_namespace/interop']


def single_cases():
    global SINGLE
    if SINGLE is None:
        SINGLE = _single_cases()
    return SINGLE


def apply_setup(r, setup):
    """set-up steps of a single case: macro steps, applied only when their action is still to do"""
    for step in setup:
        if step[0] == '_qual':
            if not r.conn.cimrepository.get_qualifier_store(step[1]).object_exists('FU_only'):
                r.log.append('conn.SetQualifier(<FU_only>, %r)' % step[1])
                r.conn.SetQualifier(CIMQualifierDeclaration('FU_only', 'string', scopes={'ANY': True}),
                                    namespace=step[1])
        elif step[0] == 'xassoc':
            if not has_inst(r.conn, step[1], assoc_path(step[1], step[2])):
                apply_step(r, step)
        elif step_enabled(r.conn, step):
            apply_step(r, step)


def setup_state(st, setup):
    """state after the set-up steps of a single case -> (token, key, log) | None (not possible);
    memoised per start state and set-up prefix"""
    cache = st.setdefault('_setup', {})
    cur = (st['token'], st['key'], st.get('log', []))
    prefix = ()
    for step in setup:
        prefix += (json.dumps(step),)
        if prefix not in cache:
            r = Rec(load(cur[0]))
            try:
                apply_setup(r, [step])
            except HarnessError:
                raise
            except Exception:   # noqa: pywbem rejects the set-up in this start state
                cache[prefix] = None
            else:
                cache[prefix] = (clone_token(r.conn), state_key(r.conn), cur[2] + r.log) if r.log else cur
        cur = cache[prefix]
        if cur is None:
            return None
    return cur


def run_single_case(acc, st, cid, fref):
    c = single_cases()[cid]
    key = ('single', cid, st['key'])
    cur = setup_state(st, c['setup'])
    if cur is None:
        acc.case(key, nontrivial=False, outcome='single:set-up-not-possible')
        return 'n/a'
    token, tkey, log = cur
    sig = dict(check='single', api=c['api'], reason=c['reason'])
    case = dict(check='single', history=st['history'], op=cid)
    return judge(acc, load(token), c['call'], c['text'], sig, case, key,
                 lambda: fref.get(tkey, token, False), log)


# ------------------------------------------------------------------------------------------
# framework entry points

def _batch_len(tier, api, st):
    return BOUNDS[tier]['batch_len_by_start_depth'][api].get(str(st['depth']))


def _batch_cost(nfill, maxlen, nreasons):
    """number of batch cases for one (state, api)"""
    n, perm = 0, 1
    for ln in range(1, maxlen + 1):          # ln - 1 fillers, ln positions
        n += perm * ln
        perm *= max(nfill - (ln - 1), 0)
    return n * nreasons


def plan(tier, seed):
    b = BOUNDS[tier]
    states = start_states(b['start_depth'], tier)
    units = []                               # (check, api, state index, cost)
    for i, st in enumerate(states):
        units.append(('single', None, i, len(single_cases())))
    for api in b['batch_apis']:
        nre = len(batch_reasons(api, tier))
        for i, st in enumerate(states):
            ln = _batch_len(tier, api, st)
            if ln:
                units.append(('batch', api, i, _batch_cost(len(b['fillers']), ln, nre)))
    cap = max(sum(u[3] for u in units) / 180.0, 1)
    shards = []
    cur = None
    for check, api, i, cost in units:
        if cur is None or (cur['check'], cur.get('api')) != (check, api) or cur['cost'] + cost > cap * 1.2:
            cur = dict(check=check, states=[], cost=0)
            if api:
                cur['api'] = api
            shards.append(cur)
        cur['states'].append(i)
        cur['cost'] += cost
    return shards


def run_shard(shard, tier):
    acc = Acc()
    acc.state_hashes = set()
    b = BOUNDS[tier]
    states = start_states(b['start_depth'], tier)
    fref = FollowupRef()
    for i in shard['states']:
        st = states[i]
        acc.state_hashes.add(st['key'])
        if shard['check'] == 'single':
            for cid in single_cases():
                res = run_single_case(acc, st, cid, fref)
                if i == 0 and cid in SAMPLE_CASES and len(acc.samples) < acc.MAX_SAMPLES:
                    acc.samples.append(dict(start_history=st['history'], single_case=cid,
                                            call=single_cases()[cid]['text'], verdict=res))
        else:
            run_batch(acc, st, shard['api'], batch_reasons(shard['api'], tier), tier, fref)
    return acc


def finish(total, tier):
    b = BOUNDS[tier]
    total.extra['start_states'] = len(start_states(b['start_depth'], tier))
    total.extra['macro_steps_rejected_by_pywbem'] = _STATES.get((b['start_depth'], tier, 'rejected'), 0)
    total.extra['single_cases_per_state'] = len(single_cases())


def replay(case, tier):
    acc = Acc()
    token, log = build_state(case['history'])
    conn = load(token)
    st = dict(key=state_key(conn), history=case['history'], token=token, log=log)
    fref = FollowupRef()
    if case['check'] == 'single':
        run_single_case(acc, st, case['op'], fref)
    elif case['k'] < 0:
        usable_fillers(acc, st, case['api'], case['fillers'])
    else:
        run_batch_case(acc, st, case['api'], case['reason'], case['fillers'], case['k'], fref)
    return acc


def snippet(case):
    return ('import sys; sys.path.insert(0, "/verif")\n'
            'import mc\n'
            'from checks import c11_atomic_failure as c11\n'
            'def test_replay():\n'
            '    # start state: macro steps %r on FakedWBEMConnection(default_namespace="root/cimv2")\n'
            '    acc = c11.replay(%r, "quick")\n'
            '    for v in acc.violations.values():\n'
            '        print(v["sig"], v["observed"])\n'
            '    assert not acc.violations\n' % (case.get('history'), case))
